package engine

import (
	"bytes"
	"fmt"

	baskettypes "github.com/regen-network/regen-ledger/x/ecocredit/v3/basket/types/v1"
)

// C10 — determinism, restarts, no trace of failure.
type C10 struct {
	BaseChecker
	crashes, failed int
}

func init()                  { RegisterChecker("C10", func() Checker { return &C10{} }) }
func (c *C10) ID() string    { return "C10" }
func (c *C10) WantRaw() bool { return true }

func (c *C10) AfterTx(w *World, t *TxCtx) {
	if t.Res.OK {
		for _, m := range t.Msgs {
			if tk, ok := m.(*baskettypes.MsgTake); ok {
				if bk := t.Pre.BasketByDenom(tk.BasketDenom); bk != nil {
					seen := map[string]int{}
					for _, bb := range basketBalsOf(t.Pre, bk.Id) {
						seen[tsS(bb.BatchStartDate)]++
					}
					for _, n := range seen {
						if n >= 2 {
							w.Probe("take_from_basket_with_tied_start_dates")
						}
					}
				}
			}
		}
	}
	if t.Res.Delivered && !t.Res.OK {
		c.failed++
		// R5: a failed message leaves no trace in state (raw bytes of every store)
		if eq, diff := RawEqual(t.RawPre, t.RawPost); !eq {
			kind := "handler-error"
			switch {
			case t.Res.OutOfGas():
				kind = "out-of-gas"
			case t.BankFired:
				kind = "bank-error"
			case t.Res.Panicked():
				kind = "panic"
			}
			w.Violate("R5", "failed-tx-left-trace/"+kind, "failed tx [%s] (%s, %s) left a trace in state: %s", t.Step.Note, kind, t.Res.Outcome(), diff)
		}
	}
}

func sameResult(a, b *TxResult) string {
	switch {
	case a.Code != b.Code || a.Codespace != b.Codespace:
		return fmt.Sprintf("R2|result differs: %s vs %s", a.Outcome(), b.Outcome())
	case !bytes.Equal(a.Data, b.Data):
		return "R2|message responses differ"
	case a.GasWanted != b.GasWanted || a.GasUsed != b.GasUsed:
		return fmt.Sprintf("R2|gas differs: used %d/%d vs %d/%d", a.GasUsed, a.GasWanted, b.GasUsed, b.GasWanted)
	case !bytes.Equal(eventsBytes(a.Events), eventsBytes(b.Events)):
		return "R3|events differ: " + eventDiff(a, b)
	}
	return ""
}

func eventDiff(a, b *TxResult) string {
	n := len(a.Events)
	if len(b.Events) < n {
		n = len(b.Events)
	}
	for i := 0; i < n; i++ {
		if !bytes.Equal(eventsBytes(a.Events[i:i+1]), eventsBytes(b.Events[i:i+1])) {
			return fmt.Sprintf("event #%d: %s%v vs %s%v", i, a.Events[i].Type, attrs(a, i), b.Events[i].Type, attrs(b, i))
		}
	}
	return fmt.Sprintf("%d vs %d events", len(a.Events), len(b.Events))
}

func attrs(r *TxResult, i int) []string {
	var out []string
	for _, a := range r.Events[i].Attributes {
		out = append(out, a.Key+"="+a.Value)
	}
	return out
}

// compareBlocks compares the records of two executions of the same blocks.
func compareBlocks(w *World, what string, p, q []*BlockRecord) {
	n := len(p)
	if len(q) != n {
		w.Violate("R1", "replica-block-count-differs", "%s: %d blocks vs %d blocks", what, len(p), len(q))
		return
	}
	for i := 0; i < n; i++ {
		a, b := p[i], q[i]
		if a.BeginPanic != b.BeginPanic || !bytes.Equal(eventsBytes(a.BeginEvents), eventsBytes(b.BeginEvents)) {
			w.Violate("R6", "beginblock-events-differ", "%s: BeginBlock of height %d differs between executions", what, a.Height)
			return
		}
		if len(a.Txs) != len(b.Txs) {
			w.Violate("R2", "replica-tx-count-differs", "%s: height %d has %d vs %d txs", what, a.Height, len(a.Txs), len(b.Txs))
			return
		}
		for j := range a.Txs {
			if d := sameResult(&a.Txs[j].Res, &b.Txs[j].Res); d != "" {
				w.Violate(d[:2], "replica-tx-result-differs", "%s: height %d tx %d: %s", what, a.Height, j, d[3:])
				return
			}
		}
		if !bytes.Equal(a.AppHash, b.AppHash) {
			w.Violate("R1", "app-hash-differs", "%s: app hash of height %d differs: %x vs %x (all tx results and events were equal)", what, a.Height, a.AppHash, b.AppHash)
			return
		}
	}
}

func (c *C10) AfterRestart(w *World, r *RestartCtx) {
	if r.Kind == "crash" || r.Kind == "torn" {
		c.crashes++
		// R4: after a replayed block the node's results equal its own pre-crash results
		if w.lastRedo != nil && w.curBlock != nil {
			a, b := w.curBlock, w.lastRedo
			if a.BeginPanic != b.BeginPanic || !bytes.Equal(eventsBytes(a.BeginEvents), eventsBytes(b.BeginEvents)) {
				w.Violate("R4", "redelivered-beginblock-differs", "after a restart (%s), BeginBlock of height %d gives different events than before the crash", r.Kind, a.Height)
				return
			}
			k := 0
			for j := range a.Txs {
				if a.Txs[j].Bytes == nil {
					continue
				}
				if k >= len(b.Txs) {
					break
				}
				if d := sameResult(&a.Txs[j].Res, &b.Txs[k].Res); d != "" {
					w.Violate("R4", "redelivered-tx-result-differs", "after a restart (%s), re-delivered tx %d of height %d: %s", r.Kind, j, a.Height, d[3:])
					return
				}
				k++
			}
		}
	}
	if !bytes.Equal(r.Pre.Digest(), r.Post.Digest()) {
		for _, d := range DiffRows(r.Pre, r.Post) {
			w.Violate("R4", "state-differs-after-restart/"+r.Kind, "after %s the state differs from the state before it: row %s[%s]", r.Kind, d.Table, d.Key)
			return
		}
		for _, d := range DiffBank(r.Pre, r.Post) {
			w.Violate("R4", "state-differs-after-restart/"+r.Kind, "after %s the %s balance of %q differs by %s", r.Kind, d.Denom, d.Addr, d.Delta)
			return
		}
	}
}

// runReplica executes the block/tx steps of the trace on a fresh node. With
// alt=true it follows replica Q's own crash/restart schedule, otherwise it
// never restarts (a node syncing from genesis).
func runReplica(w *World, alt bool) (*World, error) {
	r, err := NewWorld(w.Property, w.Genesis, w.Opts, nil)
	if err != nil {
		return nil, err
	}
	r.Replica = true
	for _, st := range w.Executed {
		switch st.Kind {
		case KBegin, KTx, KSim:
			r.Exec(st)
			if alt && st.Alt != nil && st.Alt.CrashAfter {
				r.Exec(&Step{Kind: KCrash})
			}
		case KCommit:
			cs := &Step{Kind: KCommit}
			if alt && st.Alt != nil {
				cs.Torn = st.Alt.Torn
			}
			r.Exec(cs)
			if alt && st.Alt != nil && st.Alt.RestartAfter {
				r.Exec(&Step{Kind: KRestart})
			}
		}
		if len(r.Harness) > 0 {
			return r, fmt.Errorf("replica harness failure: %v", r.Harness)
		}
		if r.Aborted {
			break
		}
	}
	return r, nil
}

func (c *C10) End(w *World) {
	if w.Replica {
		return
	}
	for _, alt := range []bool{true, false} {
		name := "replica G (fresh node syncing from genesis without restarts)"
		if alt {
			name = "replica Q (own crash/restart schedule)"
		}
		r, err := runReplica(w, alt)
		if err != nil {
			w.HarnessFail("%v", err)
			return
		}
		if r.Aborted {
			w.Violate("R4", "replica-cannot-commit-replayed-block", "%s: the store refuses to commit a block re-delivered after a crash (it produced a different state than the one partially persisted)", name)
			return
		}
		for k, v := range r.Stats.Faults {
			if k == "F7_crash_midblock" || k == "F8_torn_commit" || k == "F9_clean_restart" || k == "F8_disk_write_error" {
				w.Stats.Faults[k+"_replicaQ"] += v
			}
		}
		// only complete blocks are compared (the primary may have stopped inside a block)
		compareBlocks(w, "primary vs "+name, w.Blocks, r.Blocks[:min(len(r.Blocks), len(w.Blocks))])
		if w.Viol != nil {
			return
		}
		if len(r.Blocks) < len(w.Blocks) {
			w.Violate("R1", "replica-block-count-differs", "%s produced %d blocks, the primary %d", name, len(r.Blocks), len(w.Blocks))
			return
		}
	}
	w.Probe("c10_three_executions_compared")
}

// CommitPanic: the store refused to commit a block.
func (c *C10) CommitPanic(w *World, msg string) {
	if w.Replica {
		w.Aborted = true
		return
	}
	w.Violate("R4", "replayed-block-commits-to-different-state", "the node cannot commit height %d: %s (a block re-delivered after a crash produced a different state than the one partially persisted)", w.curBlock.Height, firstLine(msg))
}

func (c *C10) NonTrivial(w *World) bool { return c.crashes >= 1 && c.failed >= 1 }
