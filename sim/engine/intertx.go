package engine

import (
	"bytes"
	"fmt"
	"strings"
	"time"

	codectypes "github.com/cosmos/cosmos-sdk/codec/types"
	sdk "github.com/cosmos/cosmos-sdk/types"
	capabilitytypes "github.com/cosmos/cosmos-sdk/x/capability/types"
	gogoproto "github.com/cosmos/gogoproto/proto"
	icatypes "github.com/cosmos/ibc-go/v7/modules/apps/27-interchain-accounts/types"

	intertxkeeper "github.com/regen-network/regen-ledger/x/intertx/keeper"
	intertxv1 "github.com/regen-network/regen-ledger/x/intertx/types/v1"
)

// The C20 world: the real intertx keeper and message types run inside the
// same BaseApp (real tx decoding incl. UnpackInterfaces, real msg router);
// the ICA controller, the capability keeper and the host chain are stubs
// owned by the simulator. The stub's state is IBC-module state: it survives
// restarts and is rolled back with a failing tx.

type ICAWorldCfg struct {
	Connections []string `json:"connections"`
}

type ICAEvent struct {
	Kind  string `json:"kind"` // open | close | claim | drop_cap
	Conn  string `json:"conn"`
	Owner string `json:"owner"`
}

type icaChan struct {
	State string // INIT | OPEN | CLOSED
	ID    string
}

type ICAPacket struct {
	Conn, Port string
	Type       icatypes.Type
	Data       []byte
	Memo       string
	Timeout    uint64
	BlockTime  time.Time
	CapName    string
	CapOwned   bool // the intertx module owned the channel capability when the packet was sent
	CapArgOK   bool // ... and passed exactly that capability
}

type ICAReg struct{ Conn, Owner, Version string }

type ICAWorld struct {
	Cfg           ICAWorldCfg
	Channels      map[string]*icaChan // conn|port
	Caps          map[string]uint64   // capability name -> index
	Packets       []ICAPacket
	Regs          []ICAReg
	nextChan      int
	nextCap       uint64
	savedNextChan int
	// per-tx journal (rolled back when the tx fails)
	inTx     bool
	txPkts   []ICAPacket
	txRegs   []ICAReg
	txChans  map[string]*icaChan
	LastPkts []ICAPacket // packets of the last delivered tx (committed or not)
	LastRegs []ICAReg
	// claim: Keeper.ClaimCapability of the real intertx keeper of the current application object
	claim func(ctx sdk.Context, cpb *capabilitytypes.Capability, name string) error
}

func NewICAWorld(cfg ICAWorldCfg) *ICAWorld {
	return &ICAWorld{Cfg: cfg, Channels: map[string]*icaChan{}, Caps: map[string]uint64{}}
}

// ControllerPort is the ICS-27 convention, written out by the harness.
func ControllerPort(owner string) string { return "icacontroller-" + owner }

func chanKey(conn, port string) string { return conn + "|" + port }
func capName(port, channel string) string {
	return "capabilities/ports/" + port + "/channels/" + channel
}

func (i *ICAWorld) BeginTx() {
	i.inTx, i.txPkts, i.txRegs, i.txChans = true, nil, nil, map[string]*icaChan{}
	i.savedNextChan = i.nextChan
}
func (i *ICAWorld) EndTx(ok bool) {
	i.LastPkts, i.LastRegs = i.txPkts, i.txRegs
	if ok {
		i.Packets = append(i.Packets, i.txPkts...)
		i.Regs = append(i.Regs, i.txRegs...)
		for k, c := range i.txChans {
			i.Channels[k] = c
		}
	} else {
		i.nextChan = i.savedNextChan
	}
	i.inTx, i.txPkts, i.txRegs, i.txChans = false, nil, nil, nil
}

func (i *ICAWorld) channel(conn, port string) *icaChan {
	if i.txChans != nil {
		if c, ok := i.txChans[chanKey(conn, port)]; ok {
			return c
		}
	}
	return i.Channels[chanKey(conn, port)]
}

func (i *ICAWorld) ActiveChannel(conn, port string) (string, bool) {
	c := i.channel(conn, port)
	if c != nil && c.State == "OPEN" {
		return c.ID, true
	}
	return "", false
}

func (i *ICAWorld) HasCap(conn, port string) bool {
	id, ok := i.ActiveChannel(conn, port)
	if !ok {
		return false
	}
	_, has := i.Caps[capName(port, id)]
	return has
}

// stub ICA controller
type stubController struct{ w *ICAWorld }

func (s stubController) RegisterInterchainAccount(ctx sdk.Context, connectionID, owner, version string) error {
	known := false
	for _, c := range s.w.Cfg.Connections {
		if c == connectionID {
			known = true
		}
	}
	if !known {
		return fmt.Errorf("connection %s not found", connectionID)
	}
	port := ControllerPort(owner)
	if c := s.w.channel(connectionID, port); c != nil && (c.State == "OPEN" || c.State == "INIT") {
		return fmt.Errorf("existing active channel %s for port %s on connection %s", c.ID, port, connectionID)
	}
	s.w.nextChan++
	nc := &icaChan{State: "INIT", ID: fmt.Sprintf("channel-%d", s.w.nextChan)}
	if s.w.inTx {
		s.w.txChans[chanKey(connectionID, port)] = nc
		s.w.txRegs = append(s.w.txRegs, ICAReg{connectionID, owner, version})
	} else {
		s.w.Channels[chanKey(connectionID, port)] = nc
	}
	return nil
}

func (s stubController) GetActiveChannelID(ctx sdk.Context, connectionID, portID string) (string, bool) {
	return s.w.ActiveChannel(connectionID, portID)
}

func (s stubController) SendTx(ctx sdk.Context, chanCap *capabilitytypes.Capability, connectionID, portID string, pd icatypes.InterchainAccountPacketData, timeoutTimestamp uint64) (uint64, error) {
	id, ok := s.w.ActiveChannel(connectionID, portID)
	if !ok {
		return 0, fmt.Errorf("no active channel for %s on %s", portID, connectionID)
	}
	// Like the controller keeper of ibc-go v7 this fake does not look at the capability argument
	// (SendTx authenticates with the controller's own capability): whether the intertx module owned
	// the channel capability is recorded, and judged by the checker (R4).
	name := capName(portID, id)
	idx, has := s.w.Caps[name]
	if timeoutTimestamp <= uint64(ctx.BlockTime().UnixNano()) {
		return 0, fmt.Errorf("timeout %d is not after block time", timeoutTimestamp)
	}
	p := ICAPacket{Conn: connectionID, Port: portID, Type: pd.Type, Data: append([]byte(nil), pd.Data...), Memo: pd.Memo, Timeout: timeoutTimestamp, BlockTime: ctx.BlockTime(), CapName: name, CapOwned: has, CapArgOK: has && chanCap != nil && chanCap.Index == idx}
	if s.w.inTx {
		s.w.txPkts = append(s.w.txPkts, p)
	} else {
		s.w.Packets = append(s.w.Packets, p)
	}
	return uint64(len(s.w.Packets) + len(s.w.txPkts)), nil
}

func (s stubController) GetInterchainAccountAddress(ctx sdk.Context, connectionID string, portID string) (string, bool) {
	if _, ok := s.w.ActiveChannel(connectionID, portID); !ok {
		return "", false
	}
	return "host1" + fmt.Sprintf("%x", h64(connectionID, portID)), true
}

// stub capability keeper
type stubCaps struct{ w *ICAWorld }

func (s stubCaps) ClaimCapability(ctx sdk.Context, cpb *capabilitytypes.Capability, name string) error {
	s.w.Caps[name] = cpb.Index
	return nil
}
func (s stubCaps) GetCapability(ctx sdk.Context, name string) (*capabilitytypes.Capability, bool) {
	idx, ok := s.w.Caps[name]
	if !ok {
		return nil, false
	}
	return &capabilitytypes.Capability{Index: idx}, true
}

func init() {
	registerExtraInterfaces = func(ir codectypes.InterfaceRegistry) { intertxv1.RegisterTypes(ir) }
	registerExtraServices = func(c *Chain) {
		if c.Opts.ICA == nil {
			return
		}
		k := intertxkeeper.NewKeeper(c.Enc.Cdc, stubController{c.Opts.ICA}, stubCaps{c.Opts.ICA})
		intertxv1.RegisterMsgServer(c.App.MsgServiceRouter(), k)
		// the channel handshake callback of the real module claims the capability through the keeper
		kk := k
		c.Opts.ICA.claim = func(ctx sdk.Context, cpb *capabilitytypes.Capability, name string) error {
			return kk.ClaimCapability(ctx, cpb, name)
		}
	}
}

func (w *World) execICA(st *Step) {
	ev := st.ICA
	if ev == nil || w.ICA == nil {
		return
	}
	port := ControllerPort(ev.Owner)
	c := w.ICA.Channels[chanKey(ev.Conn, port)]
	switch ev.Kind {
	case "open": // handshake completes
		if c != nil && c.State == "INIT" {
			c.State = "OPEN"
			w.Fault("F12_channel_opened")
		}
	case "claim": // the module claims the channel capability (OnChanOpenInit callback in a real app)
		if c != nil && c.State != "CLOSED" {
			if _, has := w.ICA.Caps[capName(port, c.ID)]; !has {
				w.ICA.nextCap++
				cpb := &capabilitytypes.Capability{Index: w.ICA.nextCap}
				if w.ICA.claim != nil {
					// as OnChanOpenInit of the real module does: through the keeper (whatever else it
					// claims or records on that occasion is its own doing)
					if err := w.ICA.claim(w.Chain.WorkCtx(), cpb, capName(port, c.ID)); err != nil {
						w.HarnessFail("ClaimCapability: %v", err)
					}
				} else {
					w.ICA.Caps[capName(port, c.ID)] = cpb.Index
				}
				w.Fault("F12_capability_claimed")
			}
		}
	case "close": // channel closes (packet timeout on an ordered channel)
		if c != nil && c.State == "OPEN" {
			c.State = "CLOSED"
			w.Fault("F12_channel_closed")
		}
	case "drop_cap":
		if c != nil {
			delete(w.ICA.Caps, capName(port, c.ID))
			w.Fault("F12_capability_missing")
		}
	}
	w.digest("ica", []byte(ev.Kind+ev.Conn+ev.Owner))
}

// ---------------------------------------------------------------- C20 checker

type C20 struct {
	BaseChecker
	sameBlock map[string]map[string]bool // "epoch|height|conn" -> owners that sent
	nt        bool
}

func init() {
	RegisterChecker("C20", func() Checker { return &C20{sameBlock: map[string]map[string]bool{}} })
}
func (c *C20) ID() string { return "C20" }

func (c *C20) AfterTx(w *World, t *TxCtx) {
	if w.ICA == nil {
		return
	}
	var subs []*intertxv1.MsgSubmitTx
	for _, m := range t.Msgs {
		if s, ok := m.(*intertxv1.MsgSubmitTx); ok {
			subs = append(subs, s)
		}
	}
	if len(subs) == 0 {
		return
	}
	if t.SigFail {
		// R1: the owner is the only required signer. A tx whose SubmitTx messages all name the tx signer as owner must pass the signature rule.
		all := true
		for _, s := range subs {
			if canonAddr(s.Owner) != t.Signer {
				all = false
			}
		}
		if all && len(subs) == len(t.Msgs) {
			w.Violate("R1", "owner-is-not-the-required-signer", "a tx signed by %s whose SubmitTx messages name it as owner is rejected by signature verification: GetSigners() is not exactly [owner]", t.Signer)
		}
		return
	}
	pk := w.ICA.LastPkts
	if !t.Res.OK {
		return // whatever a failing tx tried to send is rolled back with it (as IBC state would be)
	}
	if len(pk) != len(subs) {
		w.Violate("R2", "packet-count-differs", "an accepted tx with %d SubmitTx messages sent %d interchain-account packets", len(subs), len(pk))
		return
	}
	for i, s := range subs {
		p := pk[i]
		// the port derives from the owner string as the message spells it (an upper-case spelling of
		// the same address names another port, hence another interchain account of the same key holder)
		wantPort := ControllerPort(s.Owner)
		if canonAddr(s.Owner) != t.Signer {
			w.Violate("R1", "submit-for-foreign-owner-accepted", "SubmitTx naming owner %s was accepted in a tx signed by %s", s.Owner, t.Signer)
			return
		}
		if p.Port != wantPort {
			w.Violate("R1", "packet-sent-over-foreign-port", "SubmitTx by %s was sent over port %s, its own controller port is %s", t.Signer, p.Port, wantPort)
			return
		}
		if p.Conn != s.ConnectionId {
			w.Violate("R1", "packet-sent-over-other-connection", "SubmitTx for connection %s was sent over %s", s.ConnectionId, p.Conn)
			return
		}
		if p.Type != icatypes.EXECUTE_TX {
			w.Violate("R2", "packet-type-not-execute-tx", "packet type is %s", p.Type)
			return
		}
		msgs, err := icatypes.DeserializeCosmosTx(w.Chain.Enc.Cdc, p.Data)
		if err != nil {
			w.Violate("R2", "packet-not-decodable", "the host cannot decode the packet: %v", err)
			return
		}
		if len(msgs) != 1 {
			w.Violate("R2", "packet-message-count", "the packet carries %d messages, exactly the one submitted is expected", len(msgs))
			return
		}
		got, err := gogoproto.Marshal(msgs[0])
		if err != nil || !bytes.Equal(got, s.Msg.Value) || "/"+gogoproto.MessageName(msgs[0]) != s.Msg.TypeUrl {
			w.Violate("R2", "packet-message-modified", "the packet carries a %s message that is not byte-equal to the submitted %s", gogoproto.MessageName(msgs[0]), s.Msg.TypeUrl)
			return
		}
		if want := uint64(t.BlockTime.Add(time.Minute).UnixNano()); p.Timeout != want {
			w.Violate("R3", "timeout-not-one-minute-after-block-time", "packet timeout %d, block time %s + 1 minute = %d", p.Timeout, FmtTime(t.BlockTime), want)
			return
		}
		// R4: nothing is sent without an active channel (the fake controller refuses, as the real one does)
		// or without the module owning that channel's capability (only the module itself can know)
		if !p.CapOwned {
			w.Violate("R4", "sent-without-channel-capability", "a packet went out on %s over %s although the module does not own the capability %s", p.Conn, p.Port, p.CapName)
			return
		}
		if !strings.HasPrefix(p.CapName, "capabilities/ports/"+wantPort+"/channels/") {
			w.Violate("R4", "sent-with-foreign-capability", "packet authenticated with capability %s", p.CapName)
			return
		}
		// R5: the host attributes execution to the interchain account of (connection, port): its owner must be the signer
		if owner := strings.TrimPrefix(p.Port, "icacontroller-"); canonAddr(owner) != t.Signer {
			w.Violate("R5", "executed-through-foreign-interchain-account", "the host executes the message through the interchain account of %s, the submitting signer is %s", owner, t.Signer)
			return
		}
		k := fmt.Sprintf("%d|%d|%s", w.Epoch, w.curBlock.Height, p.Conn)
		if c.sameBlock[k] == nil {
			c.sameBlock[k] = map[string]bool{}
		}
		c.sameBlock[k][t.Signer] = true
		if len(c.sameBlock[k]) >= 2 {
			c.nt = true
		}
	}
	w.Probe("c20_submit_tx_checked")
}

func (c *C20) NonTrivial(w *World) bool { return c.nt }

// ---------------------------------------------------------------- generator side

func init() {
	regKind("ICARegister", false, func(g *Gen, a *Actor, v *Snapshot, mode int) sdk.Msg {
		if g.W.ICA == nil {
			return nil
		}
		conn := Pick(g.R, g.W.ICA.Cfg.Connections)
		if mode != ModeValid && g.R.Chance(0.3) {
			conn = "connection-99"
		}
		owner := a.Addr
		if mode == ModeHostile && g.R.Chance(0.5) {
			owner = g.otherUser(a).Addr // must be stopped by signature verification
		}
		return &intertxv1.MsgRegisterAccount{Owner: owner, ConnectionId: conn, Version: Pick(g.R, []string{"", "ics27-1"})}
	})
	regKind("ICASubmit", false, func(g *Gen, a *Actor, v *Snapshot, mode int) sdk.Msg {
		if g.W.ICA == nil {
			return nil
		}
		conn := Pick(g.R, g.W.ICA.Cfg.Connections)
		if mode != ModeValid && g.R.Chance(0.2) {
			conn = "connection-99"
		}
		// inner message: any registered message with arbitrary contents
		var inner sdk.Msg
		for try := 0; try < 8 && inner == nil; try++ {
			k := Kinds[g.R.Intn(len(Kinds))]
			if strings.HasPrefix(k.Name, "ICA") {
				continue
			}
			inner = k.Gen(g, Pick(g.R, g.Actors), v, Pick(g.R, []int{ModeValid, ModeNearMiss, ModeHostile}))
		}
		if inner == nil {
			return nil
		}
		owner := a.Addr
		if mode == ModeHostile && g.R.Chance(0.5) {
			owner = g.otherUser(a).Addr
		}
		if g.R.Chance(0.12) {
			// the submitted message is itself a SubmitTx (for the same owner, another owner, another
			// connection): it is a registered sdk.Msg like any other and must travel unmodified
			if innerAny, err := intertxv1.PackTxMsgAny(inner); err == nil {
				o2 := owner
				if g.R.Chance(0.3) {
					o2 = g.otherUser(a).Addr
				}
				inner = &intertxv1.MsgSubmitTx{Owner: o2, ConnectionId: Pick(g.R, append([]string{"connection-7"}, g.W.ICA.Cfg.Connections...)), Msg: innerAny}
				g.W.Probe("ica_nested_submit_tx")
			}
		}
		any, err := intertxv1.PackTxMsgAny(inner)
		if err != nil {
			return nil
		}
		return &intertxv1.MsgSubmitTx{Owner: owner, ConnectionId: conn, Msg: any}
	})
}

// icaEvents schedules channel lifecycle events (F12).
func (g *Gen) icaEvents() bool {
	if g.W.ICA == nil {
		return true
	}
	for _, k := range sortedKeys(g.W.ICA.Channels) {
		c := g.W.ICA.Channels[k]
		i := strings.IndexByte(k, '|')
		conn, owner := k[:i], strings.TrimPrefix(k[i+1:], "icacontroller-")
		var ev *ICAEvent
		_, hasCap := g.W.ICA.Caps[capName(k[i+1:], c.ID)]
		switch {
		case c.State == "INIT" && g.R.Chance(0.5):
			ev = &ICAEvent{Kind: "open", Conn: conn, Owner: owner}
		case c.State != "CLOSED" && !hasCap && g.R.Chance(0.5):
			ev = &ICAEvent{Kind: "claim", Conn: conn, Owner: owner}
		case c.State == "OPEN" && g.R.Chance(0.06):
			ev = &ICAEvent{Kind: "close", Conn: conn, Owner: owner}
		case hasCap && g.R.Chance(0.03):
			ev = &ICAEvent{Kind: "drop_cap", Conn: conn, Owner: owner}
		}
		if ev != nil {
			if !g.emit(&Step{Kind: KICA, ICA: ev}) {
				return false
			}
		}
	}
	return true
}
