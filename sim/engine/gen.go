package engine

import (
	"crypto/sha256"
	"encoding/json"
	"fmt"
	"math/big"
	"os"
	"reflect"
	"regexp"
	"sort"
	"strings"
	"time"

	sdk "github.com/cosmos/cosmos-sdk/types"

	markettypes "github.com/regen-network/regen-ledger/x/ecocredit/v3/marketplace/types/v1"
)

// Modes of message generation.
const (
	ModeValid = iota
	ModeNearMiss
	ModeHostile
)

// Profile is the per-run swarm configuration. Everything is drawn from the
// run's PRNG; it is recorded in the trace for information only.
type Profile struct {
	Name     string `json:"name"`
	Actors   int    `json:"actors"`
	AddrLens []int  `json:"addr_lens,omitempty"` // address length of the first actors (0 = 20 bytes)
	// AddrPrefixPairs: a longer address extends the bytes of another actor's 20-byte address
	AddrPrefixPairs bool               `json:"addr_prefix_pairs,omitempty"`
	MaxBlocks       int                `json:"max_blocks"`
	MaxTxs          int                `json:"max_txs"`
	MaxPerBlk       int                `json:"max_per_block"`
	Weights         map[string]float64 `json:"weights"`
	PStale          float64            `json:"p_stale"`
	PNearMiss       float64            `json:"p_nearmiss"`
	PHostile        float64            `json:"p_hostile"`
	PGas            float64            `json:"p_gas"`
	PBank           float64            `json:"p_bank"`
	PMulti          float64            `json:"p_multi"`
	// PChain: share of multi-message txs whose later messages are built from the predicted state after
	// the earlier ones (create a batch and put it into a basket in one tx, ...)
	PChain float64 `json:"p_chain,omitempty"`
	// PRetry: a tx that failed because of its gas limit or an injected bank error is submitted again
	// (ample gas, no fault) a little later
	PRetry float64 `json:"p_retry,omitempty"`
	PDelay          float64            `json:"p_delay"`
	PDup            float64            `json:"p_dup"`
	PDrop           float64            `json:"p_drop"`
	PCrash          float64            `json:"p_crash"`
	PTorn           float64            `json:"p_torn"`
	PRestart        float64            `json:"p_restart"`
	PGenesis        float64            `json:"p_genesis"`
	PQuery          float64            `json:"p_query"`
	PProbe          float64            `json:"p_probe"`
	StyleRate       float64            `json:"style_rate"`
	WideW           float64            `json:"wide_w"`
	GenesisK        string             `json:"genesis_kind"`
	DtMix           []float64          `json:"dt_mix"`
	Hasher          *HasherCfg         `json:"hasher,omitempty"`
	EndGenesis      bool               `json:"end_genesis"`
	AltSched        bool               `json:"alt_sched"`
	// AvoidKnown: do not generate the boundary inputs behind the open known
	// findings (start == end batches, public resolvers) so that the run can
	// explore past them; the other runs still generate them.
	AvoidKnown bool `json:"avoid_known"`
	// PTie: probability that a new batch copies the start date of an existing one.
	PTie float64 `json:"p_tie"`
}

var debugSteps = os.Getenv("VERIF_DEBUG_STEPS") != ""

var creatorKinds = map[string]bool{"CreateClass": true, "CreateProject": true, "CreateBatch": true, "BasketCreate": true, "Sell": true, "BridgeReceive": true}

// freshSet: what a predicted state holds that the state before it did not
type freshSet struct {
	names  map[string]bool // class ids, project ids, batch denoms, basket denoms
	orders map[uint64]bool
}

func freshOf(old, nv *Snapshot) *freshSet {
	f := &freshSet{map[string]bool{}, map[uint64]bool{}}
	for _, c := range nv.Classes {
		if old.ClassByKey(c.Key) == nil {
			f.names[c.Id] = true
		}
	}
	for _, p := range nv.Projects {
		if old.ProjectByKey(p.Key) == nil {
			f.names[p.Id] = true
		}
	}
	for _, b := range nv.Batches {
		if old.BatchByKey(b.Key) == nil {
			f.names[b.Denom] = true
		}
	}
	for _, b := range nv.Baskets {
		if old.BasketByID(b.Id) == nil {
			f.names[b.BasketDenom] = true
		}
	}
	for _, o := range nv.Orders {
		if old.OrderByID(o.Id) == nil {
			f.orders[o.Id] = true
		}
	}
	if len(f.names)+len(f.orders) == 0 {
		return nil
	}
	return f
}

// mentions: does the message name something of the fresh set?
func (f *freshSet) mentions(m sdk.Msg) bool {
	hit := false
	walkStrings(reflect.ValueOf(m), func(s string) string {
		if f.names[s] {
			hit = true
		}
		return s
	})
	if hit {
		return true
	}
	switch x := m.(type) {
	case *markettypes.MsgBuyDirect:
		for _, o := range x.Orders {
			if f.orders[o.SellOrderId] {
				return true
			}
		}
	case *markettypes.MsgCancelSellOrder:
		return f.orders[x.SellOrderId]
	case *markettypes.MsgUpdateSellOrders:
		for _, u := range x.Updates {
			if f.orders[u.SellOrderId] {
				return true
			}
		}
	}
	return false
}

type Actor struct {
	Addr string
	Acc  sdk.AccAddress
	Gov  bool
}

func actorAddr(i int) sdk.AccAddress { return actorAddrLen(i, 20) }

// actorAddrLen: account addresses are 20 bytes for key accounts, 32 bytes for
// module-derived and group-policy accounts, and anything from 1 to 255 bytes is
// a valid address format.
func actorAddrLen(i, n int) sdk.AccAddress {
	var out []byte
	for c := 0; len(out) < n; c++ {
		h := sha256.Sum256([]byte(fmt.Sprintf("simchain-actor-%d-%d", i, c)))
		if c == 0 {
			h = sha256.Sum256([]byte(fmt.Sprintf("simchain-actor-%d", i)))
		}
		out = append(out, h[:]...)
	}
	return sdk.AccAddress(out[:n])
}

type pendingTx struct {
	step *Step
	due  int
}

// Gen is the seeded scheduler + workload generator. Every decision comes from R.
type Gen struct {
	R       *PRNG
	P       *Profile
	W       *World
	Actors  []*Actor
	Gov     *Actor
	Trace   *Trace
	mempool []pendingTx
	blk     int
	txs     int
	uniq    int
	// data-module generator memory (content hashes seen, for near duplicates)
	hashes []hashSeed
	// recently delivered tx steps (candidates for duplication)
	recent []*Step
	// what the predicted state of a chained tx holds that the state before the tx did not
	fresh *freshSet
	// consumed origin txs (generator memory, for deliberate replays)
	origins []originSeed
	// resolver urls used
	urls         []string
	pendingProbe bool
	altR         *PRNG
	t0           time.Time // wall-clock start of the run (safety valve only)
}

func (g *Gen) next() int { g.uniq++; return g.uniq }

// view picks the snapshot an actor builds its tx against.
func (g *Gen) view() *Snapshot {
	vs := g.W.Views
	if len(vs) == 0 || !g.R.Chance(g.P.PStale) {
		return g.W.Cur
	}
	return vs[g.R.Intn(len(vs))]
}

func (g *Gen) user() *Actor { return g.Actors[g.R.Intn(len(g.Actors))] }

func (g *Gen) otherUser(a *Actor) *Actor {
	if len(g.Actors) < 2 {
		return a
	}
	for {
		b := g.user()
		if b != a {
			return b
		}
	}
}

// emit records the step in the trace and executes it.
func (g *Gen) emit(st *Step) bool {
	if g.P.AltSched && g.altR != nil {
		// replica Q's own crash/restart schedule, drawn from a forked stream
		switch st.Kind {
		case KTx:
			if g.altR.Chance(0.06) {
				st.Alt = &AltDirective{CrashAfter: true}
			}
		case KCommit:
			a := &AltDirective{}
			if g.altR.Chance(0.12) {
				a.Torn = &TornSpec{Mask: g.altR.Uint64() & 0x1f, WriteErr: g.altR.Chance(0.25)}
			}
			if g.altR.Chance(0.12) {
				a.RestartAfter = true
			}
			if a.Torn != nil || a.RestartAfter {
				st.Alt = a
			}
		}
	}
	if !g.t0.IsZero() && time.Since(g.t0) > 30*time.Second && (st.Kind == KTx || st.Kind == KSim || st.Kind == KQuery) {
		// the same safety valve, per step: no further txs once the run has become pathologically slow
		// (the step is neither recorded nor executed; the block is still closed by its commit)
		g.W.Probe("run_ended_early_by_the_wall_clock_safety_valve")
		g.txs = g.P.MaxTxs
		return true
	}
	g.Trace.Steps = append(g.Trace.Steps, st)
	if debugSteps {
		note := ""
		if st.Tx != nil {
			note = st.Tx.Note
		}
		fmt.Fprintf(os.Stderr, "step %d %s %s snap=%v\n", len(g.Trace.Steps)-1, st.Kind, note, st.SimSnap)
	}
	return g.W.Exec(st)
}

// Run generates and executes one whole run.
func (g *Gen) Run() {
	p := g.P
	// Safety valve, not a scheduling decision: a run whose steps have become pathologically
	// slow to execute and observe (state full of numbers of a hundred thousand digits) is ended
	// early. What was executed up to here has been judged and is in the trace; only how far the
	// run goes depends on the wall clock, never which steps it consists of.
	t0 := time.Now()
	g.t0 = t0
	for g.blk = 0; g.blk < p.MaxBlocks && g.txs < p.MaxTxs; g.blk++ {
		if time.Since(t0) > 30*time.Second {
			if g.W != nil {
				g.W.Probe("run_ended_early_by_the_wall_clock_safety_valve")
			}
			break
		}
		t := g.nextBlockTime()
		if !g.emit(&Step{Kind: KBegin, Time: FmtTime(t)}) {
			return
		}
		if !g.icaEvents() {
			return
		}
		n := 0
		if p.MaxPerBlk > 0 {
			n = g.R.Intn(p.MaxPerBlk + 1)
		}
		crashAt := -1
		if g.R.Chance(p.PCrash) && n > 0 {
			crashAt = g.R.Intn(n + 1)
		}
		for i := 0; i < n; i++ {
			if i == crashAt {
				if !g.emit(&Step{Kind: KCrash}) {
					return
				}
			}
			st := g.nextTx()
			if st == nil {
				continue
			}
			g.txs++
			if !g.emit(st) {
				return
			}
			if p.PProbe > 0 && st.Tx.Signer == g.Gov.Addr && g.W.curBlock != nil && len(g.W.curBlock.Txs) > 0 && g.W.curBlock.Txs[len(g.W.curBlock.Txs)-1].Res.OK {
				g.pendingProbe = true // an accepted parameter change: open a faults-stopped probe phase
			}
			if (st.Tx.Gas > 0 || st.Tx.BankFault != nil) && !st.Tx.Probe && g.W.curBlock != nil && len(g.W.curBlock.Txs) > 0 && !g.W.curBlock.Txs[len(g.W.curBlock.Txs)-1].Res.OK && g.R.Chance(p.PRetry) {
				// the client submits its failed tx again, with ample gas (and the fault is gone)
				cp := *st
				txc := *st.Tx
				txc.Gas, txc.BankFault = 0, nil
				txc.Note = st.Tx.Note + "+retry"
				cp.Tx, cp.Alt = &txc, nil
				g.mempool = append(g.mempool, pendingTx{&cp, g.blk + g.R.Range(0, 2)})
				g.W.Fault("F5_retry_after_failure")
			}
			g.recent = append(g.recent, st)
			if len(g.recent) > 16 {
				g.recent = g.recent[1:]
			}
			if g.R.Chance(p.PQuery * 0.3) {
				if !g.genQueries(true) {
					return
				}
			}
		}
		if crashAt == n && n > 0 {
			if !g.emit(&Step{Kind: KCrash}) {
				return
			}
		}
		if g.R.Chance(p.PProbe) || g.pendingProbe || (g.blk == 0 && p.PProbe > 0) {
			g.pendingProbe = false
			if !g.probePhase() {
				return
			}
		}
		cs := &Step{Kind: KCommit}
		if g.R.Chance(p.PTorn) {
			cs.Torn = &TornSpec{Mask: g.R.Uint64() & 0x1f, WriteErr: g.R.Chance(0.25)}
		}
		if !g.emit(cs) {
			return
		}
		if g.R.Chance(p.PRestart) {
			if !g.emit(&Step{Kind: KRestart}) {
				return
			}
		}
		if g.R.Chance(p.PGenesis) {
			if !g.emit(&Step{Kind: KGenesis, Continue: g.R.Chance(0.5)}) {
				return
			}
		}
		if g.R.Chance(p.PQuery) {
			if !g.genQueries(false) {
				return
			}
		}
	}
	if p.EndGenesis {
		g.emit(&Step{Kind: KGenesis, Continue: false})
	}
}

// nextTx takes a due tx from the mempool or builds a new one and decides its fate.
func (g *Gen) nextTx() *Step {
	// due mempool entries first (in PRNG-chosen order = reordering)
	var due []int
	for i, p := range g.mempool {
		if p.due <= g.blk {
			due = append(due, i)
		}
	}
	if len(due) > 0 && g.R.Chance(0.7) {
		i := due[g.R.Intn(len(due))]
		st := g.mempool[i].step
		g.mempool = append(g.mempool[:i], g.mempool[i+1:]...)
		g.W.Fault("F5_delayed_delivery")
		return st
	}
	st := g.buildTx()
	if st == nil {
		return nil
	}
	p := g.P
	switch {
	case g.R.Chance(p.PDrop):
		g.W.Fault("F5_drop")
		return nil
	case g.R.Chance(p.PDelay):
		g.mempool = append(g.mempool, pendingTx{st, g.blk + g.R.Range(1, 4)})
		if len(g.mempool) > 40 {
			g.mempool = g.mempool[1:]
		}
		return nil
	case g.R.Chance(p.PDup):
		// the identical tx is delivered again later (same signer re-submits)
		cp := *st
		txc := *st.Tx
		txc.Note = st.Tx.Note + "+dup"
		txc.Probe = false
		cp.Tx = &txc
		g.mempool = append(g.mempool, pendingTx{&cp, g.blk + g.R.Range(0, 3)})
		g.W.Fault("F5_duplicate")
	}
	return st
}

// buildTx builds a new tx step from an actor's (possibly stale) view.
func (g *Gen) buildTx() *Step {
	p := g.P
	var a *Actor
	if g.R.Chance(0.12) {
		a = g.Gov
	} else {
		a = g.user()
	}
	v := g.view()
	stale := v != g.W.Cur
	mode := ModeValid
	switch r := g.R.Float(); {
	case r < p.PHostile:
		mode = ModeHostile
	case r < p.PHostile+p.PNearMiss:
		mode = ModeNearMiss
	}
	nm := 1
	if g.R.Chance(p.PMulti) {
		nm = g.R.Range(2, 3)
	}
	var msgs []sdk.Msg
	note := ""
	// impersonation: the messages are what another account could rightfully send (built as that
	// account, from its view of the state), but the tx is signed by this one. Signature
	// verification is what stops it - unless a message's GetSigners names somebody else than the
	// account its handler acts for. Half of the time the victim's address is spelled in upper case.
	signer := a
	impersonate := mode == ModeHostile && !a.Gov && g.R.Chance(0.15)
	if impersonate {
		a = g.otherUser(a)
		mode = ModeValid
	}
	// several messages of one kind built from the same view: each is fine alone, together they
	// compete for the same balance / fee / order / sequence number
	sameKind := nm > 1 && g.R.Chance(0.4)
	// chained: each later message is built from the client's prediction of the state after the earlier
	// ones and prefers what they created
	chained := nm > 1 && !sameKind && !stale && !impersonate && g.W.inBlock && g.R.Chance(p.PChain)
	defer func() { g.fresh = nil }()
	first := ""
	for i := 0; i < nm; i++ {
		if chained && i > 0 && len(msgs) > 0 {
			pre := &TxStep{Signer: a.Addr, Note: note + "/prefix"}
			okEnc := true
			for _, m := range msgs {
				bz, err := EncodeMsg(m)
				if err != nil {
					okEnc = false
					break
				}
				pre.Msgs = append(pre.Msgs, bz)
			}
			if okEnc {
				if !g.emit(&Step{Kind: KSim, Tx: pre, SimSnap: true}) {
					return nil
				}
				if nv := g.W.LastSimSnap; nv != nil {
					g.fresh = freshOf(v, nv)
					v = nv
					g.W.Probe("chained_tx_message_built_from_predicted_state")
				}
			}
		}
		var kind string
		var m sdk.Msg
		if sameKind && first != "" {
			for _, k := range Kinds {
				if k.Name == first {
					kind, m = first, k.Gen(g, a, v, mode)
				}
			}
		} else {
			kind, m = g.genMsg(a, v, mode)
			// a chained tx is meant to begin with a message that creates something
			for try := 0; chained && i == 0 && try < 6 && !creatorKinds[kind]; try++ {
				kind, m = g.genMsg(a, v, mode)
			}
			// a chained message is meant to use what the earlier messages of the tx created
			for try := 0; g.fresh != nil && try < 10 && (m == nil || !g.fresh.mentions(m)); try++ {
				kind, m = g.genMsg(a, v, mode)
			}
			if g.fresh != nil && m != nil && g.fresh.mentions(m) {
				g.W.Probe("chained_tx_message_uses_what_the_tx_created")
			}
		}
		if m == nil {
			continue
		}
		if first == "" {
			first = kind
		}
		if impersonate {
			g.W.Probe("hostile_impersonation_tx")
			if g.R.Chance(0.5) {
				up := strings.ToUpper(a.Addr)
				walkStrings(reflect.ValueOf(m), func(s string) string {
					if s == a.Addr {
						return up
					}
					return s
				})
			}
		} else if g.R.Chance(p.StyleRate * 0.4) {
			g.spellOneAddressUpper(m)
		}
		if mode != ModeValid && g.R.Chance(0.12) {
			g.misdirectOneID(m)
		}
		if !strings.HasPrefix(kind, "ICA") && g.R.Chance(0.04) {
			g.duplicateOneListEntry(m) // the same issuer / class / credit entry / hash / update twice in one list
		}
		if mode == ModeHostile && !strings.HasPrefix(kind, "ICA") && g.R.Chance(0.2) {
			g.malformOneField(m)
		}
		msgs = append(msgs, m)
		if note != "" {
			note += "+"
		}
		note += kind
	}
	if len(msgs) == 0 {
		return nil
	}
	switch mode {
	case ModeNearMiss:
		note += "/near"
	case ModeHostile:
		note += "/hostile"
	}
	if stale {
		note += "/stale"
	}
	if impersonate {
		note += "/impersonating"
		a = signer
	}
	ts := &TxStep{Signer: a.Addr, Note: note}
	for _, m := range msgs {
		bz, err := EncodeMsg(m)
		if err != nil {
			return nil
		}
		ts.Msgs = append(ts.Msgs, bz)
	}
	if g.R.Chance(p.PGas) && g.W.inBlock {
		// the client estimates gas first (a recorded step), then the scheduler draws a limit around it
		sim := *ts
		if !g.emit(&Step{Kind: KSim, Tx: &sim}) {
			return nil
		}
		if gas := g.W.LastSimGas; gas > 0 {
			ts.Gas = uint64(g.R.Int63n(int64(gas)+int64(gas)/10+1)) + 1
		}
	}
	if g.R.Chance(p.PBank) {
		// aim the fault at a bank call the messages actually make (most of the time)
		methods := BankFaultMethods
		if g.R.Chance(0.8) {
			var aimed []string
			for _, k := range strings.Split(strings.Split(note, "/")[0], "+") {
				aimed = append(aimed, bankCallsOf[k]...)
			}
			if len(aimed) > 0 {
				methods = aimed
			}
		}
		ts.BankFault = &BankFaultSpec{Method: Pick(g.R, methods), Nth: g.R.Weighted([]float64{0, 4, 1, 0.5})}
	}
	return &Step{Kind: KTx, Tx: ts}
}

// spellOneAddressUpper rewrites one address of the message into the all-upper-case
// bech32 spelling (a valid spelling of the same address).
func (g *Gen) spellOneAddressUpper(m sdk.Msg) {
	n := 0
	isAddr := func(s string) bool {
		if !strings.HasPrefix(s, "regen1") {
			return false
		}
		_, err := sdk.AccAddressFromBech32(s)
		return err == nil
	}
	walkStrings(reflect.ValueOf(m), func(s string) string {
		if isAddr(s) {
			n++
		}
		return s
	})
	if n == 0 {
		return
	}
	k, i := g.R.Intn(n), 0
	walkStrings(reflect.ValueOf(m), func(s string) string {
		if isAddr(s) {
			if i++; i-1 == k {
				g.W.Probe("address_spelled_upper_case")
				return strings.ToUpper(s)
			}
		}
		return s
	})
}

var (
	reGenBatchDenom  = regexp.MustCompile(`^[A-Z]{1,3}[0-9]{2,}-[0-9]{3,}-[0-9]{8}-[0-9]{8}-[0-9]{3,}$`)
	reGenProjectID   = regexp.MustCompile(`^[A-Z]{1,3}[0-9]{2,}-[0-9]{3,}$`)
	reGenClassID     = regexp.MustCompile(`^[A-Z]{1,3}[0-9]{2,}$`)
	reGenBasketDenom = regexp.MustCompile(`^eco\.[a-zA-Z]?[A-Z]{1,3}\.[a-zA-Z0-9]{3,8}$`)
)

// misdirectOneID rewrites one identifier of the message into a well-formed identifier of
// something that does not exist (or, for a prefix-extended id, of a different thing).
func (g *Gen) misdirectOneID(m sdk.Msg) {
	alt := func(s string) (string, bool) {
		switch {
		case reGenBatchDenom.MatchString(s):
			return s[:len(s)-3] + Pick(g.R, []string{"999", "000", "0010"}), true
		case reGenProjectID.MatchString(s):
			return s[:strings.LastIndex(s, "-")+1] + Pick(g.R, []string{"999", "0001", "000"}), true
		case reGenClassID.MatchString(s):
			return s + Pick(g.R, []string{"0", "9", "99"}), true
		case reGenBasketDenom.MatchString(s):
			return s[:strings.LastIndex(s, ".")+1] + Pick(g.R, []string{"NOPE", "Zzz9"}), true
		}
		return "", false
	}
	n := 0
	walkStrings(reflect.ValueOf(m), func(s string) string {
		if _, ok := alt(s); ok {
			n++
		}
		return s
	})
	if n == 0 {
		return
	}
	k, i := g.R.Intn(n), 0
	walkStrings(reflect.ValueOf(m), func(s string) string {
		if a, ok := alt(s); ok {
			if i++; i-1 == k {
				g.W.Probe("identifier_misdirected_to_nonexistent")
				return a
			}
		}
		return s
	})
}

// malformOneField damages one field of the message in a way stateless validation is there to
// catch: an address that is not one, an identifier in the wrong shape, an emptied list, a
// missing sub-message. (What a keeper does with such a message only matters if validation lets
// it through - which is exactly what a weakened validation rule does.)
func (g *Gen) malformOneField(m sdk.Msg) {
	switch g.R.Intn(5) {
	case 4: // white space: instead of, before or after the value of some text field
		n, k, i := 0, 0, 0
		walkStrings(reflect.ValueOf(m), func(s string) string { n++; return s })
		if n == 0 {
			return
		}
		k = g.R.Intn(n)
		walkStrings(reflect.ValueOf(m), func(s string) string {
			if i++; i-1 == k {
				g.W.Probe("hostile_white_space_in_text_field")
				switch g.R.Intn(4) {
				case 0:
					return "  "
				case 1:
					return " " + s
				case 2:
					return s + "\t"
				default:
					return "\n"
				}
			}
			return s
		})
	case 0: // an address
		n, k, i := 0, 0, 0
		isAddr := func(s string) bool {
			if !strings.HasPrefix(s, "regen1") {
				return false
			}
			_, err := sdk.AccAddressFromBech32(s)
			return err == nil
		}
		walkStrings(reflect.ValueOf(m), func(s string) string {
			if isAddr(s) {
				n++
			}
			return s
		})
		if n == 0 {
			return
		}
		k = g.R.Intn(n)
		walkStrings(reflect.ValueOf(m), func(s string) string {
			if isAddr(s) {
				if i++; i-1 == k {
					g.W.Probe("hostile_malformed_address")
					switch g.R.Intn(5) {
					case 0:
						return ""
					case 1:
						return "cosmos1" + s[6:] // another prefix, checksum now wrong
					case 2:
						return s[:len(s)-1] // truncated
					case 3:
						return strings.ToUpper(s[:8]) + s[8:] // mixed case
					default:
						return s + " "
					}
				}
			}
			return s
		})
	case 1: // an identifier
		n, k, i := 0, 0, 0
		isID := func(s string) bool {
			return reGenBatchDenom.MatchString(s) || reGenProjectID.MatchString(s) || reGenClassID.MatchString(s) || reGenBasketDenom.MatchString(s)
		}
		walkStrings(reflect.ValueOf(m), func(s string) string {
			if isID(s) {
				n++
			}
			return s
		})
		if n == 0 {
			return
		}
		k = g.R.Intn(n)
		walkStrings(reflect.ValueOf(m), func(s string) string {
			if isID(s) {
				if i++; i-1 == k {
					g.W.Probe("hostile_malformed_identifier")
					switch g.R.Intn(5) {
					case 0:
						return ""
					case 1:
						return strings.ToLower(s)
					case 2:
						return s + " "
					case 3:
						return " " + s
					default:
						return s[:len(s)-1] + "x"
					}
				}
			}
			return s
		})
	case 2: // empty a list
		g.mutateAggregate(reflect.ValueOf(m), true)
	default: // drop a sub-message
		g.mutateAggregate(reflect.ValueOf(m), false)
	}
}

// duplicateOneListEntry appends a copy of one element to one non-empty list of the message
// (which validation accepts for some lists and rejects for others).
func (g *Gen) duplicateOneListEntry(m sdk.Msg) {
	v := reflect.ValueOf(m)
	for v.Kind() == reflect.Ptr || v.Kind() == reflect.Interface {
		if v.IsNil() {
			return
		}
		v = v.Elem()
	}
	if v.Kind() != reflect.Struct {
		return
	}
	var cands []reflect.Value
	for i := 0; i < v.NumField(); i++ {
		f := v.Field(i)
		if v.Type().Field(i).PkgPath != "" || !f.CanSet() {
			continue
		}
		if f.Kind() == reflect.Slice && f.Type().Elem().Kind() != reflect.Uint8 && f.Len() > 0 && f.Len() < 40 {
			cands = append(cands, f)
		}
	}
	if len(cands) == 0 {
		return
	}
	f := cands[g.R.Intn(len(cands))]
	e := f.Index(g.R.Intn(f.Len()))
	f.Set(reflect.Append(f, e))
	g.W.Probe("list_entry_duplicated")
}

// mutateAggregate empties one non-empty slice (list=true) or nils one non-nil message pointer
// (list=false) among the exported fields of the top-level message.
func (g *Gen) mutateAggregate(v reflect.Value, list bool) {
	for v.Kind() == reflect.Ptr || v.Kind() == reflect.Interface {
		if v.IsNil() {
			return
		}
		v = v.Elem()
	}
	if v.Kind() != reflect.Struct {
		return
	}
	var cands []reflect.Value
	for i := 0; i < v.NumField(); i++ {
		f := v.Field(i)
		if v.Type().Field(i).PkgPath != "" || !f.CanSet() {
			continue
		}
		switch {
		case list && f.Kind() == reflect.Slice && f.Type().Elem().Kind() != reflect.Uint8 && f.Len() > 0:
			cands = append(cands, f)
		case !list && f.Kind() == reflect.Ptr && !f.IsNil() && f.Type().Elem().Kind() == reflect.Struct:
			cands = append(cands, f)
		}
	}
	if len(cands) == 0 {
		return
	}
	f := cands[g.R.Intn(len(cands))]
	f.Set(reflect.Zero(f.Type()))
	if list {
		g.W.Probe("hostile_emptied_list")
	} else {
		g.W.Probe("hostile_missing_sub_message")
	}
}

// txStep wraps messages into a fault-free, fresh tx step (used by probes).
func txStep(signer string, note string, probe bool, msgs ...sdk.Msg) *Step {
	ts := &TxStep{Signer: signer, Note: note, Probe: probe}
	for _, m := range msgs {
		bz, err := EncodeMsg(m)
		if err != nil {
			return nil
		}
		ts.Msgs = append(ts.Msgs, bz)
	}
	return &Step{Kind: KTx, Tx: ts}
}

// bankCallsOf: which bank keeper methods a message kind calls (for aiming F2).
var bankCallsOf = map[string][]string{
	"CreateClass":     {"SendCoinsFromAccountToModule", "BurnCoins"},
	"BasketCreate":    {"SendCoinsFromAccountToModule", "BurnCoins"},
	"BurnRegen":       {"SendCoinsFromAccountToModule", "BurnCoins"},
	"Put":             {"MintCoins", "SendCoinsFromModuleToAccount"},
	"Take":            {"SendCoinsFromAccountToModule", "BurnCoins"},
	"Buy":             {"SendCoinsFromAccountToModule", "BurnCoins", "SendCoins"},
	"SendFromFeePool": {"SendCoinsFromModuleToAccount"},
}

var dtChoices = []time.Duration{time.Nanosecond, time.Millisecond, time.Second, 6 * time.Second, 3 * time.Minute, 5 * time.Hour, 9 * 24 * time.Hour, 400 * 24 * time.Hour}

// nextBlockTime draws the block clock advance, sometimes targeted at state.
func (g *Gen) nextBlockTime() time.Time {
	last := g.W.LastTime
	// targeted: land on / next to the earliest pending order expiration
	if g.R.Chance(0.25) {
		var exps []time.Time
		for _, o := range g.W.Cur.Orders {
			if o.Expiration != nil {
				e := TsTime(o.Expiration)
				if e.After(last) && e.Sub(last) < 30*365*24*time.Hour {
					exps = append(exps, e)
				}
			}
		}
		if len(exps) > 0 {
			sort.Slice(exps, func(i, j int) bool { return exps[i].Before(exps[j]) })
			e := exps[g.R.Intn(min(len(exps), 3))]
			var t time.Time
			switch g.R.Intn(3) {
			case 0:
				t = e
			case 1:
				t = e.Add(-time.Nanosecond)
			default:
				t = e.Add(time.Nanosecond)
			}
			if t.After(last) {
				g.W.Probe("clock_targeted_expiry")
				return t
			}
		}
	}
	// targeted: basket date-window edge relative to some batch start date
	if g.R.Chance(0.1) {
		if t, ok := g.windowEdgeTime(last); ok {
			g.W.Probe("clock_targeted_window_edge")
			return t
		}
	}
	if g.R.Chance(0.03) {
		// cross a 1 January
		t := date(last.Year()+1, 1, 1).Add(time.Duration(g.R.Intn(3)-1) * time.Nanosecond)
		if t.After(last) {
			return t
		}
	}
	i := g.R.Weighted(g.P.DtMix)
	d := dtChoices[i]
	if d > time.Second {
		d += time.Duration(g.R.Int63n(int64(d)))
	}
	if d > time.Hour {
		g.W.Fault("F6_clock_jump")
	}
	return last.Add(d)
}

func (g *Gen) windowEdgeTime(last time.Time) (time.Time, bool) {
	s := g.W.Cur
	for _, b := range s.Baskets {
		dc := b.DateCriteria
		if dc == nil || dc.StartDateWindow == nil || len(s.Batches) == 0 {
			continue
		}
		bt := s.Batches[g.R.Intn(len(s.Batches))]
		win := dc.StartDateWindow.AsDuration()
		edge := TsTime(bt.StartDate).Add(win) // block time at which start == block - window
		t := edge.Add(time.Duration(g.R.Intn(3)-1) * time.Nanosecond)
		if t.After(last) && t.Sub(last) < 30*365*24*time.Hour {
			return t, true
		}
	}
	return time.Time{}, false
}

func min(a, b int) int {
	if a < b {
		return a
	}
	return b
}

// NewGen prepares a run: profile, actors, genesis, world.
func NewGen(property string, tier string, vseed, runIdx uint64, ck Checker) (*Gen, error) {
	seed := RunSeed(vseed, property, runIdx)
	r := NewPRNG(seed)
	p := DrawProfile(property, tier, r)
	g := &Gen{R: r, P: p}
	for i := 0; i < p.Actors; i++ {
		acc := actorAddr(i)
		if i < len(p.AddrLens) && p.AddrLens[i] > 0 {
			acc = actorAddrLen(i, p.AddrLens[i])
			if p.AddrPrefixPairs && p.AddrLens[i] > 20 && i+1 < p.Actors {
				// this longer address starts with the 20 bytes of the next actor's address
				acc = append(append(sdk.AccAddress{}, actorAddr(i+1)...), acc[20:]...)
			}
		}
		g.Actors = append(g.Actors, &Actor{Addr: acc.String(), Acc: acc})
	}
	gov := sdk.AccAddress(govAddr())
	g.Gov = &Actor{Addr: gov.String(), Acc: gov, Gov: true}
	gen := g.buildGenesis()
	exported := false
	if p.GenesisK == "exported" && property != "C20" {
		// the chain starts from the exported state of an earlier chain (an upgrade by export/import),
		// possibly at a later genesis time: classes, batches, balances, baskets, open orders, data
		// entries and sequences are there from block one
		if doc := g.preHistory(gen, ChainOpts{Hasher: p.Hasher}); doc != nil {
			gen = doc
			exported = true
		}
	}
	pj, _ := json.Marshal(p)
	g.Trace = &Trace{Version: 1, Property: property, Seed: seed, VSeed: vseed, Run: runIdx, Tier: tier, Profile: pj, World: "chain", Hasher: p.Hasher, Genesis: gen}
	for _, a := range g.Actors {
		g.Trace.Actors = append(g.Trace.Actors, a.Addr)
	}
	opts := ChainOpts{Hasher: p.Hasher}
	if property == "C20" {
		cfg := ICAWorldCfg{}
		for i := 0; i < r.Range(1, 3); i++ {
			cfg.Connections = append(cfg.Connections, fmt.Sprintf("connection-%d", i))
		}
		g.Trace.ICA = &cfg
		opts.ICA = NewICAWorld(cfg)
	}
	w, err := NewWorld(property, gen, opts, ck)
	if err != nil {
		return nil, err
	}
	g.W = w
	w.Generating = true
	w.Trace = g.Trace
	if exported {
		w.Probe("genesis_exported_from_an_earlier_chain")
		for _, o := range w.Cur.Orders {
			if o.Expiration != nil && !TsTime(o.Expiration).After(gen.Time) {
				w.Probe("genesis_holds_orders_expired_before_genesis_time")
				break
			}
		}
	}
	if p.AltSched {
		g.altR = r.Fork()
	}
	return g, nil
}

func bigStr(i *big.Int) string { return i.String() }

// preHistory runs a short fault-free history on a scratch chain started from base and returns
// its exported genesis (nil if that export is not a valid genesis: the known findings).
func (g *Gen) preHistory(base *GenesisDoc, opts ChainOpts) *GenesisDoc {
	w, err := NewWorld("pre", base, opts, nil)
	if err != nil || w.Aborted {
		return nil
	}
	saved := g.P
	q := *g.P
	q.Weights = map[string]float64{}
	for k, v := range saved.Weights {
		q.Weights[k] = v
	}
	q.MaxBlocks, q.MaxTxs, q.MaxPerBlk = g.R.Range(3, 9), g.R.Range(25, 80), g.R.Range(4, 12)
	q.PChain, q.PRetry = 0, 0
	q.PGas, q.PBank, q.PMulti, q.PDelay, q.PDup, q.PDrop, q.PCrash, q.PTorn, q.PRestart, q.PGenesis, q.PQuery, q.PProbe = 0, 0, 0, 0, 0, 0, 0, 0, 0, 0, 0, 0
	q.EndGenesis, q.AltSched, q.AvoidKnown, q.PStale = false, false, true, 0
	q.DtMix = []float64{0, 0, 1, 4, 2, 1, 0.5, 0} // blocks minutes to days apart: open orders stay open
	g.P, g.W, g.Trace = &q, w, &Trace{}
	g.Run()
	var doc *GenesisDoc
	if !w.inBlock && !w.Aborted && len(w.Harness) == 0 {
		if d, err := w.Chain.ExportGenesis(w.Chain.WorkCtx()); err == nil {
			enc := w.Chain.Enc
			ok := safeErr(func() error { return w.Chain.Eco.ValidateGenesis(enc.Cdc, enc.TxCfg, d.Eco) }) == nil &&
				safeErr(func() error { return w.Chain.Dat.ValidateGenesis(enc.Cdc, enc.TxCfg, d.Data) }) == nil
			if ok {
				delay := Pick(g.R, []time.Duration{0, time.Second, 36 * time.Hour, 20 * 24 * time.Hour, 400 * 24 * time.Hour, 3 * 365 * 24 * time.Hour})
				d.Time = w.LastTime.Add(delay)
				doc = d
			}
		}
	}
	g.P, g.W, g.Trace = saved, nil, nil
	g.mempool, g.recent, g.blk, g.txs, g.pendingProbe = nil, nil, 0, 0, false
	return doc
}
