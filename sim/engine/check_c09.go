package engine

import (
	"bytes"
	"encoding/json"
	"strings"
	"time"
)

// C09 — genesis round trip. The round trip itself is executed by the world
// (F10); this checker judges its outcome.
type C09 struct {
	BaseChecker
	nt bool
}

func init()               { RegisterChecker("C09", func() Checker { return &C09{} }) }
func (c *C09) ID() string { return "C09" }

// stateFeatures names boundary features present in the exported state; used
// only to give violations a specific signature.
func stateFeatures(s *Snapshot) []string {
	var out []string
	for _, b := range s.Batches {
		if b.StartDate != nil && b.EndDate != nil && b.StartDate.Seconds == b.EndDate.Seconds && b.StartDate.Nanos == b.EndDate.Nanos {
			out = append(out, "batch-start-equals-end")
			break
		}
	}
	for _, bb := range s.BasketBals {
		if bb.BatchStartDate != nil && bb.BatchStartDate.Seconds == 0 && bb.BatchStartDate.Nanos == 0 {
			out = append(out, "basket-balance-epoch-start-date")
			break
		}
	}
	for _, r := range s.Resolvers {
		if len(r.Manager) == 0 {
			out = append(out, "public-resolver")
			break
		}
	}
	return out
}

func (c *C09) AfterRestart(w *World, r *RestartCtx) {
	if r.Kind != "genesis" || r.Gen == nil {
		return
	}
	g := r.Gen
	if g.ExportErr != "" {
		sig := "export-fails"
		if strings.Contains(g.ExportErr, "invalid UTF-8") {
			sig = "export-fails/invalid-utf8-string"
		}
		w.Violate("R1", sig, "exporting the state at height %d fails: %s", r.Pre.Height, firstLine(g.ExportErr))
		return
	}
	if g.ValidateEco != "" {
		w.Violate("R1", "ecocredit-export-rejected-by-own-validation/"+attributeEco(w, g.Export.Eco), "the ecocredit genesis exported at height %d is rejected by the module's own ValidateGenesis: %s", r.Pre.Height, firstLine(g.ValidateEco))
		return
	}
	if g.ValidateData != "" {
		w.Violate("R1", "data-export-rejected-by-own-validation/"+attributeData(w, g.Export.Data), "the data genesis exported at height %d is rejected by the module's own ValidateGenesis: %s", r.Pre.Height, firstLine(g.ValidateData))
		return
	}
	if g.InitErr != "" {
		w.Violate("R2", "import-into-empty-chain-fails", "importing the exported genesis into an empty chain fails: %s", firstLine(g.InitErr))
		return
	}
	if g.ReExportErr != "" || g.ReExport == nil {
		w.Violate("R3", "re-export-fails", "re-exporting from the imported chain fails: %s", firstLine(g.ReExportErr))
		return
	}
	if a, b := CanonJSON(g.Export.Eco), CanonJSON(g.ReExport.Eco); !bytes.Equal(a, b) {
		w.Violate("R3", "ecocredit-re-export-differs", "ecocredit genesis differs after import and re-export: %s", jsonDiffHint(a, b))
		return
	}
	if a, b := CanonJSON(g.Export.Data), CanonJSON(g.ReExport.Data); !bytes.Equal(a, b) {
		w.Violate("R3", "data-re-export-differs", "data genesis differs after import and re-export: %s", jsonDiffHint(a, b))
		return
	}
	if len(g.InvBroken) > 0 {
		w.Violate("R4", "invariant-broken-after-import", "after importing the exported genesis: %s", firstLine(g.InvBroken[0]))
		return
	}
	// the imported state must be the state (decoded row by row)
	if g.NewSnap != nil {
		for _, d := range DiffRows(r.Pre, g.NewSnap) {
			w.Violate("R3", "imported-state-differs/"+d.Table, "row %s[%s] differs between the exporting and the importing chain", d.Table, d.Key)
			return
		}
	}
	// ... and so must everything else the modules keep in their stores (index entries, the
	// auto-increment sequences that decide which ids are handed out next)
	if g.RawDiff != "" {
		w.Violate("R3", "imported-store-differs", "the modules' stores differ between the exporting and the importing chain although rows and re-export agree: %s", g.RawDiff)
		return
	}
	n := 0
	for _, t := range r.Pre.TableNames {
		if len(r.Pre.Rows[t]) > 0 {
			n++
		}
	}
	if n >= 10 {
		c.nt = true
	}
	w.Probe("c09_round_trip_ok")
}

// Attribution by counterfactual: the exported document is patched so that one
// named boundary feature disappears (and nothing else changes) and validated
// again. Only if the patched document passes is the rejection attributed to
// that feature; anything else is reported under its own signature, so a
// different defect is never hidden behind a known one.

func patchRows(doc json.RawMessage, table string, f func(row map[string]interface{}) bool) (json.RawMessage, bool) {
	var m map[string]json.RawMessage
	if err := json.Unmarshal(doc, &m); err != nil {
		return nil, false
	}
	var rows []json.RawMessage
	if err := json.Unmarshal(m[table], &rows); err != nil {
		return nil, false
	}
	changed := false
	for i, raw := range rows {
		var row map[string]interface{}
		if err := json.Unmarshal(raw, &row); err != nil {
			continue // the leading sequence number of auto-increment tables
		}
		if f(row) {
			changed = true
			bz, _ := json.Marshal(row)
			rows[i] = bz
		}
	}
	if !changed {
		return nil, false
	}
	bz, _ := json.Marshal(rows)
	m[table] = bz
	out, _ := json.Marshal(m)
	return out, true
}

func bumpTime(v interface{}, d time.Duration) (string, bool) {
	s, ok := v.(string)
	if !ok {
		return "", false
	}
	t, err := time.Parse(time.RFC3339Nano, s)
	if err != nil {
		return "", false
	}
	return t.Add(d).UTC().Format(time.RFC3339Nano), true
}

func attributeEco(w *World, doc json.RawMessage) string {
	enc := w.Chain.Enc
	valid := func(d json.RawMessage) bool {
		return safeErr(func() error { return w.Chain.Eco.ValidateGenesis(enc.Cdc, enc.TxCfg, d) }) == nil
	}
	type cf struct {
		name  string
		patch func(json.RawMessage) (json.RawMessage, bool)
	}
	cfs := []cf{
		{"batch-start-equals-end", func(d json.RawMessage) (json.RawMessage, bool) {
			return patchRows(d, "regen.ecocredit.v1.Batch", func(row map[string]interface{}) bool {
				if row["start_date"] != nil && row["start_date"] == row["end_date"] {
					if nv, ok := bumpTime(row["end_date"], time.Nanosecond); ok {
						row["end_date"] = nv
						return true
					}
				}
				return false
			})
		}},
		{"basket-balance-epoch-start-date", func(d json.RawMessage) (json.RawMessage, bool) {
			return patchRows(d, "regen.ecocredit.basket.v1.BasketBalance", func(row map[string]interface{}) bool {
				if s, _ := row["batch_start_date"].(string); s == "1970-01-01T00:00:00Z" {
					row["batch_start_date"] = "1970-01-01T00:00:00.000000001Z"
					return true
				}
				return false
			})
		}},
	}
	// single features first, then all together
	for _, c := range cfs {
		if d, ok := c.patch(doc); ok && valid(d) {
			return c.name
		}
	}
	d, names := doc, ""
	for _, c := range cfs {
		if nd, ok := c.patch(d); ok {
			d = nd
			if names != "" {
				names += "+"
			}
			names += c.name
		}
	}
	if names != "" && strings.Contains(names, "+") && valid(d) {
		return names
	}
	return "unattributed"
}

func attributeData(w *World, doc json.RawMessage) string {
	enc := w.Chain.Enc
	d, ok := patchRows(doc, "regen.data.v1.Resolver", func(row map[string]interface{}) bool {
		if m, has := row["manager"]; !has || m == nil || m == "" {
			row["manager"] = "BTZfSbi0JKqguZ/tIAPUIhdAa7Y="
			return true
		}
		return false
	})
	if ok && safeErr(func() error { return w.Chain.Dat.ValidateGenesis(enc.Cdc, enc.TxCfg, d) }) == nil {
		return "public-resolver"
	}
	return "unattributed"
}

func jsonDiffHint(a, b []byte) string {
	n := len(a)
	if len(b) < n {
		n = len(b)
	}
	i := 0
	for i < n && a[i] == b[i] {
		i++
	}
	lo := i - 60
	if lo < 0 {
		lo = 0
	}
	ha, hb := i+60, i+60
	if ha > len(a) {
		ha = len(a)
	}
	if hb > len(b) {
		hb = len(b)
	}
	return "…" + string(a[lo:ha]) + "…  vs  …" + string(b[lo:hb]) + "…"
}

func (c *C09) NonTrivial(w *World) bool { return c.nt }
