package engine

import (
	"fmt"

	sdk "github.com/cosmos/cosmos-sdk/types"
	bankkeeper "github.com/cosmos/cosmos-sdk/x/bank/keeper"
	banktypes "github.com/cosmos/cosmos-sdk/x/bank/types"
)

// BankFaultSpec: fail the Nth (1-based) call of Method inside one tx with an
// ordinary error, without performing it.
type BankFaultSpec struct {
	Method string `json:"method"`
	Nth    int    `json:"nth"`
}

var BankFaultMethods = []string{"SendCoins", "SendCoinsFromAccountToModule", "SendCoinsFromModuleToAccount", "MintCoins", "BurnCoins"}

// FaultBank decorates the real bank keeper (F2). It is what the regen modules
// receive as their BankKeeper.
type FaultBank struct {
	K      bankkeeper.BaseKeeper
	spec   *BankFaultSpec
	counts map[string]int
	Fired  bool
	Calls  map[string]int // per-tx call counts (all methods), for reach probes
}

func (f *FaultBank) Arm(s *BankFaultSpec) {
	f.spec = s
	f.counts = map[string]int{}
	f.Calls = map[string]int{}
	f.Fired = false
}
func (f *FaultBank) Disarm() { f.spec = nil }

func (f *FaultBank) hit(m string) error {
	if f.Calls != nil {
		f.Calls[m]++
	}
	if f.spec == nil || f.spec.Method != m {
		return nil
	}
	f.counts[m]++
	if f.counts[m] == f.spec.Nth {
		f.Fired = true
		return fmt.Errorf("injected bank fault: %s call %d", m, f.spec.Nth)
	}
	return nil
}

func (f *FaultBank) MintCoins(ctx sdk.Context, moduleName string, amt sdk.Coins) error {
	if err := f.hit("MintCoins"); err != nil {
		return err
	}
	return f.K.MintCoins(ctx, moduleName, amt)
}
func (f *FaultBank) BurnCoins(ctx sdk.Context, moduleName string, amt sdk.Coins) error {
	if err := f.hit("BurnCoins"); err != nil {
		return err
	}
	return f.K.BurnCoins(ctx, moduleName, amt)
}
func (f *FaultBank) SendCoinsFromAccountToModule(ctx sdk.Context, a sdk.AccAddress, m string, amt sdk.Coins) error {
	if err := f.hit("SendCoinsFromAccountToModule"); err != nil {
		return err
	}
	return f.K.SendCoinsFromAccountToModule(ctx, a, m, amt)
}
func (f *FaultBank) SendCoinsFromModuleToAccount(ctx sdk.Context, m string, a sdk.AccAddress, amt sdk.Coins) error {
	if err := f.hit("SendCoinsFromModuleToAccount"); err != nil {
		return err
	}
	return f.K.SendCoinsFromModuleToAccount(ctx, m, a, amt)
}
func (f *FaultBank) SendCoins(ctx sdk.Context, from, to sdk.AccAddress, amt sdk.Coins) error {
	if err := f.hit("SendCoins"); err != nil {
		return err
	}
	return f.K.SendCoins(ctx, from, to, amt)
}
func (f *FaultBank) SpendableCoins(ctx sdk.Context, addr sdk.AccAddress) sdk.Coins {
	return f.K.SpendableCoins(ctx, addr)
}
func (f *FaultBank) SetDenomMetaData(ctx sdk.Context, md banktypes.Metadata) {
	f.K.SetDenomMetaData(ctx, md)
}
func (f *FaultBank) GetSupply(ctx sdk.Context, denom string) sdk.Coin {
	return f.K.GetSupply(ctx, denom)
}
func (f *FaultBank) GetBalance(ctx sdk.Context, addr sdk.AccAddress, denom string) sdk.Coin {
	return f.K.GetBalance(ctx, addr, denom)
}
