package engine

import (
	"bytes"
	"fmt"
	"math/big"
	"strings"
	"time"

	sdkmath "cosmossdk.io/math"
	sdk "github.com/cosmos/cosmos-sdk/types"
	banktypes "github.com/cosmos/cosmos-sdk/x/bank/types"
	gogotypes "github.com/cosmos/gogoproto/types"

	basketv1 "github.com/regen-network/regen-ledger/api/v2/regen/ecocredit/basket/v1"
	marketv1 "github.com/regen-network/regen-ledger/api/v2/regen/ecocredit/marketplace/v1"
	basev1 "github.com/regen-network/regen-ledger/api/v2/regen/ecocredit/v1"
	"github.com/regen-network/regen-ledger/x/data/v3"
	basetypes "github.com/regen-network/regen-ledger/x/ecocredit/v3/base/types/v1"
	baskettypes "github.com/regen-network/regen-ledger/x/ecocredit/v3/basket/types/v1"
	markettypes "github.com/regen-network/regen-ledger/x/ecocredit/v3/marketplace/types/v1"
)

type msgGen func(g *Gen, a *Actor, v *Snapshot, mode int) sdk.Msg

type kindDef struct {
	Name string
	Gov  bool // authority message
	Gen  msgGen
}

var Kinds []kindDef
var kindIdx = map[string]int{}

func regKind(name string, gov bool, f msgGen) {
	kindIdx[name] = len(Kinds)
	Kinds = append(Kinds, kindDef{name, gov, f})
}

// genMsg picks a message kind by profile weight and generates it.
func (g *Gen) genMsg(a *Actor, v *Snapshot, mode int) (string, sdk.Msg) {
	w := make([]float64, len(Kinds))
	for i, k := range Kinds {
		x := g.P.Weights[k.Name]
		switch {
		case a.Gov && !k.Gov:
			x = 0
		case !a.Gov && k.Gov:
			// a user sending an authority message is hostile behaviour
			if mode == ModeHostile {
				x *= 0.5
			} else {
				x = 0
			}
		}
		w[i] = x
	}
	for try := 0; try < 6; try++ {
		i := g.R.Weighted(w)
		if w[i] <= 0 {
			continue
		}
		m := Kinds[i].Gen(g, a, v, mode)
		if m != nil {
			return Kinds[i].Name, m
		}
	}
	return "", nil
}

func coin(denom string, amt *big.Int) sdk.Coin {
	if amt.BitLen() > 250 {
		amt = new(big.Int).Lsh(big.NewInt(1), 250)
	}
	return sdk.Coin{Denom: denom, Amount: sdkmath.NewIntFromBigInt(amt)}
}
func coinP(denom string, amt *big.Int) *sdk.Coin { c := coin(denom, amt); return &c }

// ---- selection helpers -------------------------------------------------

// otherOrSelf: another account, or (rarely) the account itself under another valid spelling of
// its address - what string-level "must differ" validations let through.
func (g *Gen) otherOrSelf(a *Actor) string {
	if g.R.Chance(0.05) {
		g.W.Probe("counterparty_is_self_spelled_upper_case")
		return strings.ToUpper(a.Addr)
	}
	return g.otherUser(a).Addr
}

func (g *Gen) anyClass(v *Snapshot) *basev1.Class {
	if len(v.Classes) == 0 {
		return nil
	}
	return v.Classes[g.R.Intn(len(v.Classes))]
}
func (g *Gen) classAdminOf(v *Snapshot, a *Actor) *basev1.Class {
	var xs []*basev1.Class
	for _, c := range v.Classes {
		if AddrStr(c.Admin) == a.Addr {
			xs = append(xs, c)
		}
	}
	if len(xs) == 0 {
		return nil
	}
	return xs[g.R.Intn(len(xs))]
}
func (g *Gen) classIssuedBy(v *Snapshot, a *Actor) *basev1.Class {
	var xs []*basev1.Class
	for _, is := range v.Issuers {
		if AddrStr(is.Issuer) == a.Addr {
			if c := v.ClassByKey(is.ClassKey); c != nil {
				xs = append(xs, c)
			}
		}
	}
	if len(xs) == 0 {
		return nil
	}
	return xs[g.R.Intn(len(xs))]
}
func (g *Gen) anyProject(v *Snapshot) *basev1.Project {
	if len(v.Projects) == 0 {
		return nil
	}
	return v.Projects[g.R.Intn(len(v.Projects))]
}
func (g *Gen) projectForIssuer(v *Snapshot, a *Actor) *basev1.Project {
	var xs []*basev1.Project
	for _, p := range v.Projects {
		if v.IsIssuer(p.ClassKey, a.Addr) {
			xs = append(xs, p)
		}
	}
	if len(xs) == 0 {
		return nil
	}
	return xs[g.R.Intn(len(xs))]
}
func (g *Gen) projectAdminOf(v *Snapshot, a *Actor) *basev1.Project {
	var xs []*basev1.Project
	for _, p := range v.Projects {
		if AddrStr(p.Admin) == a.Addr {
			xs = append(xs, p)
		}
	}
	if len(xs) == 0 {
		return nil
	}
	return xs[g.R.Intn(len(xs))]
}
func (g *Gen) anyBatch(v *Snapshot) *basev1.Batch {
	if len(v.Batches) == 0 {
		return nil
	}
	return v.Batches[g.R.Intn(len(v.Batches))]
}
func (g *Gen) batchIssuedBy(v *Snapshot, a *Actor, openOnly bool) *basev1.Batch {
	var xs []*basev1.Batch
	for _, b := range v.Batches {
		if AddrStr(b.Issuer) == a.Addr && (!openOnly || b.Open) {
			xs = append(xs, b)
		}
	}
	if len(xs) == 0 {
		return nil
	}
	return xs[g.R.Intn(len(xs))]
}

// heldBatch returns a batch in which a holds tradable credits, with the amount.
func (g *Gen) heldBatch(v *Snapshot, a *Actor) (*basev1.Batch, *big.Rat) {
	var xs []*basev1.BatchBalance
	for _, b := range v.Balances {
		if AddrStr(b.Address) == a.Addr {
			if t, ok := DecOrZero(b.TradableAmount); ok && t.Sign() > 0 {
				xs = append(xs, b)
			}
		}
	}
	if len(xs) == 0 {
		return nil, nil
	}
	bb := xs[g.R.Intn(len(xs))]
	// a holding of astronomic size (hundreds of digits) is the interesting one to act on
	for _, x := range xs {
		if len(x.TradableAmount) > 300 && g.R.Chance(0.7) {
			bb = x
			break
		}
	}
	t, _ := DecOrZero(bb.TradableAmount)
	return v.BatchByKey(bb.BatchKey), t
}

// targetBatch: valid -> a batch the actor holds; hostile -> any batch.
func (g *Gen) targetBatch(v *Snapshot, a *Actor, mode int) (*basev1.Batch, *big.Rat) {
	if mode == ModeHostile && g.R.Chance(0.6) {
		// a theft attempt: a batch the signer holds nothing of, sized to what somebody else holds -
		// preferably somebody whose address starts with the signer's address bytes
		type victim struct {
			b   *basev1.Batch
			bal *big.Rat
			ext bool
		}
		var vs []victim
		ext := 0
		for _, r := range v.Balances {
			o := AddrStr(r.Address)
			tr, ok := DecOrZero(r.TradableAmount)
			if o == a.Addr || !ok || tr.Sign() <= 0 {
				continue
			}
			if mine := v.Balance(a.Addr, r.BatchKey); mine != nil {
				continue
			}
			if b := v.BatchByKey(r.BatchKey); b != nil {
				e := len(r.Address) > len(a.Acc) && bytes.Equal(r.Address[:len(a.Acc)], a.Acc)
				if e {
					ext++
				}
				vs = append(vs, victim{b, tr, e})
			}
		}
		if len(vs) > 0 {
			x := vs[g.R.Intn(len(vs))]
			for try := 0; try < 8 && ext > 0 && !x.ext; try++ {
				x = vs[g.R.Intn(len(vs))]
			}
			g.W.Probe("hostile_spend_of_a_batch_only_others_hold")
			if x.ext {
				g.W.Probe("hostile_spend_against_address_extending_the_signers")
			}
			return x.b, x.bal
		}
	}
	if mode == ModeHostile {
		b := g.anyBatch(v)
		if b == nil {
			return nil, nil
		}
		bal := new(big.Rat)
		if r := v.Balance(a.Addr, b.Key); r != nil {
			bal, _ = DecOrZero(r.TradableAmount)
		}
		return b, bal
	}
	return g.heldBatch(v, a)
}

func (g *Gen) precOf(v *Snapshot, b *basev1.Batch) int {
	p := v.PrecisionOfBatch(b)
	if p < 0 {
		return 6
	}
	return p
}

// creditAmount chooses an amount for spending from balance bal according to mode.
func (g *Gen) creditAmount(bal *big.Rat, p int, mode int) string {
	switch mode {
	case ModeNearMiss:
		if g.R.Chance(0.6) {
			return FmtDec(RatAdd(bal, unit(p)), p) // one unit too much
		}
		return g.badAmount(p)
	case ModeHostile:
		if g.R.Chance(0.3) {
			return g.badAmount(p)
		}
		if g.R.Chance(0.4) {
			return g.issueAmount(p)
		}
	}
	return g.amountLE(bal, p)
}

func (g *Gen) creditTypeAbbrev(v *Snapshot, mode int) string {
	if mode != ModeValid && g.R.Chance(0.5) {
		return Pick(g.R, []string{"", "c", "XYZ", "CARB", "C1", "BIO"})
	}
	if len(v.CreditTypes) == 0 {
		return "C"
	}
	return v.CreditTypes[g.R.Intn(len(v.CreditTypes))].Abbreviation
}

// oneAspect implements "near miss = exactly one precondition broken": in near-miss mode one of
// the named aspects is chosen and only that one is generated in near-miss mode; the others are
// generated valid. In the other modes every aspect gets the message's mode.
func (g *Gen) oneAspect(mode int, aspects ...string) func(string) int {
	if mode != ModeNearMiss {
		return func(string) int { return mode }
	}
	chosen := aspects[g.R.Intn(len(aspects))]
	return func(a string) int {
		if a == chosen {
			return ModeNearMiss
		}
		return ModeValid
	}
}

func neighbourID(r *PRNG, id string) string {
	switch r.Intn(5) {
	case 0:
		return id + "0"
	case 1:
		return id + "1"
	case 2:
		if len(id) > 1 {
			return id[:len(id)-1]
		}
		return id
	case 3:
		return strings.ToLower(id)
	default:
		return id + " "
	}
}

// ---- ecocredit base ------------------------------------------------------

func init() {
	regKind("CreateClass", false, func(g *Gen, a *Actor, v *Snapshot, mode int) sdk.Msg {
		m := &basetypes.MsgCreateClass{Admin: a.Addr, Metadata: g.metadata(), CreditTypeAbbrev: g.creditTypeAbbrev(v, mode)}
		n := g.R.Range(1, 3)
		seen := map[string]bool{}
		for i := 0; i < n; i++ {
			is := g.user()
			if i == 0 && g.R.Chance(0.8) {
				is = a
			}
			if seen[is.Addr] {
				continue
			}
			seen[is.Addr] = true
			m.Issuers = append(m.Issuers, is.Addr)
		}
		if v.ClassFee != nil && v.ClassFee.Fee != nil {
			fee, _ := new(big.Int).SetString(v.ClassFee.Fee.Amount, 10)
			if fee == nil {
				fee = big.NewInt(0)
			}
			switch {
			case mode == ModeNearMiss && fee.Sign() > 0:
				switch g.R.Intn(3) {
				case 0:
					m.Fee = coinP(v.ClassFee.Fee.Denom, new(big.Int).Sub(fee, big.NewInt(1)))
				case 1:
					m.Fee = coinP(Pick(g.R, workDenoms), fee)
				default:
					m.Fee = nil
				}
			case g.R.Chance(0.3):
				m.Fee = coinP(v.ClassFee.Fee.Denom, new(big.Int).Add(fee, big.NewInt(int64(g.R.Range(1, 1000))))) // over-offer
			default:
				m.Fee = coinP(v.ClassFee.Fee.Denom, fee)
			}
		} else if g.R.Chance(0.3) {
			m.Fee = coinP(Pick(g.R, workDenoms), big.NewInt(int64(g.R.Range(1, 100))))
		}
		return m
	})
	regKind("CreateProject", false, func(g *Gen, a *Actor, v *Snapshot, mode int) sdk.Msg {
		var c *basev1.Class
		if mode == ModeValid {
			c = g.classIssuedBy(v, a)
		} else {
			c = g.anyClass(v)
		}
		if c == nil {
			return nil
		}
		m := &basetypes.MsgCreateProject{Admin: a.Addr, ClassId: c.Id, Metadata: g.metadata(), Jurisdiction: g.jurisdiction()}
		if g.R.Chance(0.5) {
			m.ReferenceId = Pick(g.R, append([]string{"ref" + fmt.Sprint(g.R.Intn(6))}, refIDs...))
		}
		if mode == ModeHostile && g.R.Chance(0.4) {
			m.ClassId = neighbourID(g.R, c.Id)
		}
		return m
	})
	regKind("CreateBatch", false, func(g *Gen, a *Actor, v *Snapshot, mode int) sdk.Msg {
		var p *basev1.Project
		if mode == ModeValid {
			p = g.projectForIssuer(v, a)
		} else {
			p = g.anyProject(v)
		}
		if p == nil {
			return nil
		}
		s, e := g.batchDates(v.Time)
		if t, ok := g.criterionDate(v); ok && g.R.Chance(g.P.Weights["_criterion_dates"]) {
			s = t
			e = s.AddDate(0, g.R.Range(0, 14), g.R.Range(0, 20))
			if g.P.AvoidKnown && !e.After(s) {
				e = s.Add(time.Nanosecond)
			}
		}
		if mode == ModeNearMiss && g.R.Chance(0.3) {
			e = s.Add(-time.Nanosecond)
		}
		m := &basetypes.MsgCreateBatch{Issuer: a.Addr, ProjectId: p.Id, Metadata: "batch-" + g.metadata(), StartDate: &s, EndDate: &e, Open: g.R.Chance(0.6)}
		m.Issuance = g.issuances(6, mode)
		if g.R.Chance(0.35) {
			m.OriginTx = g.originTx(mode, false)
		}
		if mode == ModeHostile && g.R.Chance(0.3) {
			m.ProjectId = neighbourID(g.R, p.Id)
		}
		return m
	})
	regKind("Mint", false, func(g *Gen, a *Actor, v *Snapshot, mode int) sdk.Msg {
		var b *basev1.Batch
		switch mode {
		case ModeValid:
			b = g.batchIssuedBy(v, a, true)
		case ModeNearMiss:
			b = g.batchIssuedBy(v, a, false) // maybe sealed
		default:
			b = g.anyBatch(v)
		}
		if b == nil {
			return nil
		}
		m := &basetypes.MsgMintBatchCredits{Issuer: a.Addr, BatchDenom: b.Denom, Issuance: g.issuances(g.precOf(v, b), mode)}
		m.OriginTx = g.originTx(mode, false)
		if mode == ModeNearMiss && g.R.Chance(0.3) {
			m.OriginTx = nil
		}
		return m
	})
	regKind("Seal", false, func(g *Gen, a *Actor, v *Snapshot, mode int) sdk.Msg {
		var b *basev1.Batch
		if mode == ModeValid {
			b = g.batchIssuedBy(v, a, g.R.Chance(0.8))
		} else {
			b = g.anyBatch(v)
		}
		if b == nil {
			return nil
		}
		return &basetypes.MsgSealBatch{Issuer: a.Addr, BatchDenom: b.Denom}
	})
	regKind("Send", false, func(g *Gen, a *Actor, v *Snapshot, mode int) sdk.Msg {
		m := &basetypes.MsgSend{Sender: a.Addr, Recipient: g.otherOrSelf(a)}
		if mode == ModeNearMiss && g.R.Chance(0.2) {
			m.Recipient = a.Addr
		}
		n := g.R.Range(1, 3)
		for i := 0; i < n; i++ {
			b, bal := g.targetBatch(v, a, mode)
			if b == nil {
				break
			}
			p := g.precOf(v, b)
			c := &basetypes.MsgSend_SendCredits{BatchDenom: b.Denom}
			switch g.R.Intn(3) {
			case 0:
				c.TradableAmount = g.creditAmount(bal, p, mode)
			case 1:
				c.RetiredAmount = g.creditAmount(bal, p, mode)
				c.RetirementJurisdiction = g.jurisdiction()
				c.RetirementReason = g.reason()
			default:
				half := truncTo(new(big.Rat).Quo(bal, RatI64(2)), p)
				c.TradableAmount = g.creditAmount(half, p, mode)
				c.RetiredAmount = g.creditAmount(half, p, mode)
				c.RetirementJurisdiction = g.jurisdiction()
			}
			m.Credits = append(m.Credits, c)
		}
		if len(m.Credits) == 0 {
			return nil
		}
		return m
	})
	creditsList := func(g *Gen, a *Actor, v *Snapshot, mode int) []*basetypes.Credits {
		var out []*basetypes.Credits
		n := g.R.Range(1, 3)
		for i := 0; i < n; i++ {
			b, bal := g.targetBatch(v, a, mode)
			if b == nil {
				break
			}
			out = append(out, &basetypes.Credits{BatchDenom: b.Denom, Amount: g.creditAmount(bal, g.precOf(v, b), mode)})
		}
		return out
	}
	regKind("Retire", false, func(g *Gen, a *Actor, v *Snapshot, mode int) sdk.Msg {
		cs := creditsList(g, a, v, mode)
		if len(cs) == 0 {
			return nil
		}
		return &basetypes.MsgRetire{Owner: a.Addr, Credits: cs, Jurisdiction: g.jurisdiction(), Reason: g.reason()}
	})
	regKind("Cancel", false, func(g *Gen, a *Actor, v *Snapshot, mode int) sdk.Msg {
		cs := creditsList(g, a, v, mode)
		if len(cs) == 0 {
			return nil
		}
		return &basetypes.MsgCancel{Owner: a.Addr, Credits: cs, Reason: "cancel " + fmt.Sprint(g.R.Intn(9))}
	})
	regKind("UpdClassAdmin", false, func(g *Gen, a *Actor, v *Snapshot, mode int) sdk.Msg {
		c := g.classAdminOf(v, a)
		if mode != ModeValid || c == nil {
			c = g.anyClass(v)
		}
		if c == nil {
			return nil
		}
		return &basetypes.MsgUpdateClassAdmin{Admin: a.Addr, ClassId: c.Id, NewAdmin: g.otherOrSelf(a)}
	})
	regKind("UpdClassIssuers", false, func(g *Gen, a *Actor, v *Snapshot, mode int) sdk.Msg {
		c := g.classAdminOf(v, a)
		if mode != ModeValid || c == nil {
			c = g.anyClass(v)
		}
		if c == nil {
			return nil
		}
		m := &basetypes.MsgUpdateClassIssuers{Admin: a.Addr, ClassId: c.Id}
		for _, u := range g.Actors {
			is := v.IsIssuer(c.Key, u.Addr)
			if (mode != ModeValid && g.R.Chance(0.3)) || g.R.Chance(0.12) {
				is = !is // also by the rightful admin: removing a non-issuer, adding an issuer again
			}
			if is && g.R.Chance(0.35) {
				m.RemoveIssuers = append(m.RemoveIssuers, u.Addr)
			} else if !is && g.R.Chance(0.35) {
				m.AddIssuers = append(m.AddIssuers, u.Addr)
			}
		}
		if len(m.AddIssuers)+len(m.RemoveIssuers) == 0 {
			m.AddIssuers = []string{g.user().Addr}
		}
		return m
	})
	regKind("UpdClassMeta", false, func(g *Gen, a *Actor, v *Snapshot, mode int) sdk.Msg {
		c := g.classAdminOf(v, a)
		if mode != ModeValid || c == nil {
			c = g.anyClass(v)
		}
		if c == nil {
			return nil
		}
		return &basetypes.MsgUpdateClassMetadata{Admin: a.Addr, ClassId: c.Id, NewMetadata: "cm" + fmt.Sprint(g.next())}
	})
	regKind("UpdProjAdmin", false, func(g *Gen, a *Actor, v *Snapshot, mode int) sdk.Msg {
		p := g.projectAdminOf(v, a)
		if mode != ModeValid || p == nil {
			p = g.anyProject(v)
		}
		if p == nil {
			return nil
		}
		return &basetypes.MsgUpdateProjectAdmin{Admin: a.Addr, ProjectId: p.Id, NewAdmin: g.otherOrSelf(a)}
	})
	regKind("UpdProjMeta", false, func(g *Gen, a *Actor, v *Snapshot, mode int) sdk.Msg {
		p := g.projectAdminOf(v, a)
		if mode != ModeValid || p == nil {
			p = g.anyProject(v)
		}
		if p == nil {
			return nil
		}
		return &basetypes.MsgUpdateProjectMetadata{Admin: a.Addr, ProjectId: p.Id, NewMetadata: "pm" + fmt.Sprint(g.next())}
	})
	regKind("UpdBatchMeta", false, func(g *Gen, a *Actor, v *Snapshot, mode int) sdk.Msg {
		b := g.batchIssuedBy(v, a, mode == ModeValid)
		if mode == ModeHostile || b == nil {
			b = g.anyBatch(v)
		}
		if b == nil {
			return nil
		}
		return &basetypes.MsgUpdateBatchMetadata{Issuer: a.Addr, BatchDenom: b.Denom, NewMetadata: "bm" + fmt.Sprint(g.next())}
	})
	regKind("Bridge", false, func(g *Gen, a *Actor, v *Snapshot, mode int) sdk.Msg {
		m := &basetypes.MsgBridge{Owner: a.Addr, Target: g.chainName(v, mode), Recipient: ethAddr(g.R.Intn(4))}
		n := g.R.Range(1, 2)
		for i := 0; i < n; i++ {
			var b *basev1.Batch
			var bal *big.Rat
			// prefer held batches that have a contract
			for try := 0; try < 4; try++ {
				b, bal = g.targetBatch(v, a, mode)
				if b == nil || v.ContractOf(b.Key) != nil || mode != ModeValid {
					break
				}
			}
			if b == nil {
				break
			}
			m.Credits = append(m.Credits, &basetypes.Credits{BatchDenom: b.Denom, Amount: g.creditAmount(bal, g.precOf(v, b), mode)})
		}
		if len(m.Credits) == 0 {
			return nil
		}
		return m
	})
	regKind("BridgeReceive", false, func(g *Gen, a *Actor, v *Snapshot, mode int) sdk.Msg {
		var c *basev1.Class
		if mode == ModeValid {
			c = g.classIssuedBy(v, a)
		} else {
			c = g.anyClass(v)
		}
		if c == nil {
			return nil
		}
		s, e := g.batchDates(v.Time)
		ot := g.originTx(mode, true)
		// sometimes reuse a contract bound in this class (mint path)
		if len(v.Contracts) > 0 && g.R.Chance(0.5) {
			bc := v.Contracts[g.R.Intn(len(v.Contracts))]
			ot.Contract = bc.Contract
			if mode == ModeValid {
				if cl := v.ClassByKey(bc.ClassKey); cl != nil {
					c = cl
				}
			}
		}
		if ot.Contract == "" {
			ot.Contract = ethAddr(g.R.Intn(4))
		}
		if mode == ModeNearMiss && g.R.Chance(0.35) {
			// everything as a rightful issuer would send it - except the contract, which is no address
			if own := g.classIssuedBy(v, a); own != nil {
				c = own
			}
			ot.Contract = Pick(g.R, []string{"  ", "", " " + ot.Contract, ot.Contract + " ", "\t", "0x123", strings.ToUpper(ot.Contract)})
			g.W.Probe("bridge_receive_with_damaged_contract")
		}
		m := &basetypes.MsgBridgeReceive{Issuer: a.Addr, ClassId: c.Id,
			Project:  &basetypes.MsgBridgeReceive_Project{ReferenceId: Pick(g.R, refIDs), Jurisdiction: g.jurisdiction(), Metadata: "bridged project"},
			Batch:    &basetypes.MsgBridgeReceive_Batch{Recipient: g.user().Addr, Amount: g.issueAmount(6), StartDate: &s, EndDate: &e, Metadata: "bridged batch"},
			OriginTx: ot}
		if mode == ModeValid && (m.Batch.Amount == "0" || m.Batch.Amount == "") {
			m.Batch.Amount = "1"
		}
		return m
	})
	regKind("BurnRegen", false, func(g *Gen, a *Actor, v *Snapshot, mode int) sdk.Msg {
		bal := v.BankBal(a.Addr, "uregen")
		amt := g.intLE(bal).String()
		if mode == ModeNearMiss {
			amt = new(big.Int).Add(bal, big.NewInt(1)).String()
		} else if mode == ModeHostile {
			amt = Pick(g.R, []string{"0", "-5", "1.5", "", amt})
		}
		return &basetypes.MsgBurnRegen{Burner: a.Addr, Amount: amt, Reason: g.reason()}
	})
	regKind("Unimplemented", false, func(g *Gen, a *Actor, v *Snapshot, mode int) sdk.Msg {
		pid, cid := "C01-001", "C01"
		if p := g.anyProject(v); p != nil {
			pid = p.Id
		}
		if c := g.anyClass(v); c != nil {
			cid = c.Id
		}
		switch g.R.Intn(3) {
		case 0:
			return &basetypes.MsgCreateUnregisteredProject{Admin: a.Addr, Metadata: "m", Jurisdiction: "US", ReferenceId: "u1"}
		case 1:
			return &basetypes.MsgCreateOrUpdateApplication{ProjectAdmin: a.Addr, ProjectId: pid, ClassId: cid, Metadata: "app"}
		default:
			return &basetypes.MsgUpdateProjectEnrollment{Issuer: a.Addr, ProjectId: pid, ClassId: cid, NewStatus: basetypes.ProjectEnrollmentStatus_PROJECT_ENROLLMENT_STATUS_ACCEPTED, Metadata: "x"}
		}
	})

	// ---- governance (base) ----
	auth := func(a *Actor) string { return a.Addr } // users put their own address: must be rejected
	regKind("AddCreditType", true, func(g *Gen, a *Actor, v *Snapshot, mode int) sdk.Msg {
		// incl. abbreviations that are prefixes of one another (C / CA / CAB, B / BI / BIO, K / KSH)
		ab := Pick(g.R, []string{"BIO", "KSH", "AB", "Z", "XYZ", "CA", "CAB", "B", "BI", "K", "C"})
		if mode != ModeValid && g.R.Chance(0.6) {
			// not an abbreviation: other alphabets, case, digits, length, white space
			ab = Pick(g.R, []string{"\u03a9", "\u00c9", "K\u00d8", "Ab", "c", "ABCD", "A1", "", "A ", " A", "A-B", "\u0410\u0411", "I\u0307"})
		}
		prec := uint32(6)
		if mode != ModeValid && g.R.Chance(0.5) {
			prec = uint32(g.R.Range(0, 9))
		}
		return &basetypes.MsgAddCreditType{Authority: auth(a), CreditType: &basetypes.CreditType{Abbreviation: ab, Name: "type-" + strings.ToLower(ab) + Pick(g.R, []string{"", "2"}), Unit: "unit", Precision: prec}}
	})
	regKind("SetAllowlist", true, func(g *Gen, a *Actor, v *Snapshot, mode int) sdk.Msg {
		return &basetypes.MsgSetClassCreatorAllowlist{Authority: auth(a), Enabled: g.R.Chance(0.5)}
	})
	regKind("AddCreator", true, func(g *Gen, a *Actor, v *Snapshot, mode int) sdk.Msg {
		return &basetypes.MsgAddClassCreator{Authority: auth(a), Creator: g.user().Addr}
	})
	regKind("RemoveCreator", true, func(g *Gen, a *Actor, v *Snapshot, mode int) sdk.Msg {
		return &basetypes.MsgRemoveClassCreator{Authority: auth(a), Creator: g.user().Addr}
	})
	regKind("UpdClassFee", true, func(g *Gen, a *Actor, v *Snapshot, mode int) sdk.Msg {
		m := &basetypes.MsgUpdateClassFee{Authority: auth(a)}
		switch g.R.Intn(4) {
		case 0: // unset
		case 1:
			m.Fee = coinP(Pick(g.R, workDenoms), big.NewInt(0))
		default:
			m.Fee = coinP(Pick(g.R, workDenoms), big.NewInt(int64(Pick(g.R, []int{1, 1000, 20000000}))))
			if len(v.Baskets) > 0 && g.R.Chance(0.12) {
				// any valid denomination may be chosen - also the token of a basket
				g.W.Probe("creation_fee_set_in_a_basket_token")
				m.Fee = coinP(v.Baskets[g.R.Intn(len(v.Baskets))].BasketDenom, big.NewInt(int64(Pick(g.R, []int{1, 7, 1000}))))
			}
		}
		return m
	})
	regKind("UpdProjectFee", true, func(g *Gen, a *Actor, v *Snapshot, mode int) sdk.Msg {
		return &basetypes.MsgUpdateProjectFee{Authority: auth(a), Fee: coinP("uregen", big.NewInt(5))}
	})
	regKind("AddBridgeChain", true, func(g *Gen, a *Actor, v *Snapshot, mode int) sdk.Msg {
		if g.R.Chance(0.25) {
			// the message only asks for a non-empty name
			return &basetypes.MsgAddAllowedBridgeChain{Authority: auth(a), ChainName: Pick(g.R, oddChainNames)}
		}
		return &basetypes.MsgAddAllowedBridgeChain{Authority: auth(a), ChainName: Pick(g.R, chainSpellings)}
	})
	regKind("RemoveBridgeChain", true, func(g *Gen, a *Actor, v *Snapshot, mode int) sdk.Msg {
		return &basetypes.MsgRemoveAllowedBridgeChain{Authority: auth(a), ChainName: Pick(g.R, chainSpellings)}
	})

	// ---- basket ----
	regKind("BasketCreate", false, func(g *Gen, a *Actor, v *Snapshot, mode int) sdk.Msg {
		ab := g.creditTypeAbbrev(v, mode)
		m := &baskettypes.MsgCreate{Curator: a.Addr, Name: Pick(g.R, []string{"NCT", "BCT", "ECO", "XB1", "Abc", "Abcd", "abc", "NCT1", "ABCDEFGH", "N" + fmt.Sprint(g.R.Intn(50))}), Description: "basket", DisableAutoRetire: g.R.Chance(0.5), CreditTypeAbbrev: ab,
			Exponent: Pick(g.R, []uint32{0, 0, 0, 6, 3, 9, 18, 1, 4294967295})} // deprecated, documented as unused: any value is valid
		for _, c := range v.Classes {
			if (c.CreditTypeAbbrev == ab || mode != ModeValid) && g.R.Chance(0.7) {
				m.AllowedClasses = append(m.AllowedClasses, c.Id)
			}
		}
		if len(m.AllowedClasses) == 0 {
			if c := g.anyClass(v); c != nil && (c.CreditTypeAbbrev == ab || mode != ModeValid) {
				m.AllowedClasses = []string{c.Id}
			} else {
				return nil
			}
		}
		m.DateCriteria = g.dateCriteria(v, mode)
		if v.BasketFee != nil && v.BasketFee.Fee != nil {
			fee, _ := new(big.Int).SetString(v.BasketFee.Fee.Amount, 10)
			if fee == nil {
				fee = big.NewInt(0)
			}
			switch {
			case mode == ModeNearMiss && fee.Sign() > 0:
				switch g.R.Intn(3) {
				case 0:
					m.Fee = sdk.Coins{coin(v.BasketFee.Fee.Denom, new(big.Int).Sub(fee, big.NewInt(1)))}
				case 1:
					m.Fee = sdk.Coins{coin(Pick(g.R, workDenoms), fee)}
				}
			case g.R.Chance(0.3):
				m.Fee = sdk.Coins{coin(v.BasketFee.Fee.Denom, new(big.Int).Add(fee, big.NewInt(int64(g.R.Range(1, 1000)))))}
			case fee.Sign() > 0:
				m.Fee = sdk.Coins{coin(v.BasketFee.Fee.Denom, fee)}
			}
		}
		return m
	})
	regKind("Put", false, func(g *Gen, a *Actor, v *Snapshot, mode int) sdk.Msg {
		if len(v.Baskets) == 0 {
			return nil
		}
		bk := v.Baskets[g.R.Intn(len(v.Baskets))]
		md := g.oneAspect(mode, "amount", "admission")
		// admissible (basket, batch) pairs for this owner, as the view sees them
		type pair struct {
			bk  *basketv1.Basket
			b   *basev1.Batch
			bal *big.Rat
		}
		var adm []pair
		{
			for _, bb := range v.Balances {
				if AddrStr(bb.Address) != a.Addr {
					continue
				}
				tr, ok := DecOrZero(bb.TradableAmount)
				b := v.BatchByKey(bb.BatchKey)
				if !ok || tr.Sign() <= 0 || b == nil {
					continue
				}
				for _, k := range v.Baskets {
					if ok, _ := putAdmissible(v, k, b, v.Time); ok {
						adm = append(adm, pair{k, b, tr})
					}
				}
			}
			if len(adm) > 0 && g.R.Chance(0.85) {
				bk = adm[g.R.Intn(len(adm))].bk
			}
		}
		// a near miss in admission: a list whose first entries are admissible and a later one is not
		mixed := md("admission") != ModeValid && g.R.Chance(0.6)
		if md("admission") != ModeValid && !mixed {
			adm = nil
		}
		m := &baskettypes.MsgPut{Owner: a.Addr, BasketDenom: bk.BasketDenom}
		n := g.R.Range(1, 3)
		if mixed {
			n = g.R.Range(2, 3)
		}
		for i := 0; i < n; i++ {
			var b *basev1.Batch
			var bal *big.Rat
			var mine []pair
			for _, p := range adm {
				if p.bk.Id == bk.Id {
					mine = append(mine, p)
				}
			}
			if len(mine) > 0 && g.R.Chance(0.9) && !(mixed && i == n-1) {
				p := mine[g.R.Intn(len(mine))]
				b, bal = p.b, p.bal
			} else {
				for try := 0; try < 5; try++ {
					b, bal = g.targetBatch(v, a, mode)
					if b == nil || md("admission") != ModeValid || g.basketAllowsClass(v, bk, b) {
						break
					}
				}
			}
			if b == nil {
				break
			}
			p := g.precOf(v, b)
			m.Credits = append(m.Credits, &baskettypes.BasketCredit{BatchDenom: b.Denom, Amount: g.creditAmount(truncTo(new(big.Rat).Quo(bal, RatI64(int64(n))), p), p, md("amount"))})
		}
		if len(m.Credits) == 0 {
			return nil
		}
		return m
	})
	regKind("Take", false, func(g *Gen, a *Actor, v *Snapshot, mode int) sdk.Msg {
		var cands []*basketv1.Basket
		for _, bk := range v.Baskets {
			if v.BankBal(a.Addr, bk.BasketDenom).Sign() > 0 || mode == ModeHostile {
				cands = append(cands, bk)
			}
		}
		if len(cands) == 0 {
			return nil
		}
		bk := cands[g.R.Intn(len(cands))]
		bal := v.BankBal(a.Addr, bk.BasketDenom)
		amt := g.intLE(bal)
		// bias: whole credits, or exactly what drains the first batch(es)
		if g.R.Chance(0.3) {
			var bbs []*basketv1.BasketBalance
			for _, bb := range v.BasketBals {
				if bb.BasketId == bk.Id {
					bbs = append(bbs, bb)
				}
			}
			if len(bbs) > 0 {
				sum := new(big.Rat)
				k := g.R.Range(1, len(bbs))
				for i := 0; i < k; i++ {
					x, _ := DecOrZero(bbs[g.R.Intn(len(bbs))].Balance)
					sum.Add(sum, x)
				}
				x := RatFloor(RatMul(sum, RatInt(pow10(6))))
				if x.Sign() > 0 && x.Cmp(bal) <= 0 {
					amt = x
				}
			}
		}
		as := g.styleInt(amt)
		switch mode {
		case ModeNearMiss:
			as = new(big.Int).Add(bal, big.NewInt(1)).String()
		case ModeHostile:
			as = Pick(g.R, []string{"0", "-1", "1.5", as, "999999999999999999999"})
		}
		retire := !bk.DisableAutoRetire || g.R.Chance(0.4)
		if mode != ModeValid && g.R.Chance(0.5) {
			retire = !retire
		}
		m := &baskettypes.MsgTake{Owner: a.Addr, BasketDenom: bk.BasketDenom, Amount: as, RetireOnTake: retire}
		if retire || g.R.Chance(0.3) {
			if g.R.Chance(0.15) {
				m.RetirementLocation = g.jurisdiction()
			} else {
				m.RetirementJurisdiction = g.jurisdiction()
			}
			m.RetirementReason = g.reason()
		}
		return m
	})
	regKind("UpdCurator", false, func(g *Gen, a *Actor, v *Snapshot, mode int) sdk.Msg {
		var cands []*basketv1.Basket
		for _, bk := range v.Baskets {
			if AddrStr(bk.Curator) == a.Addr || mode != ModeValid {
				cands = append(cands, bk)
			}
		}
		if len(cands) == 0 {
			return nil
		}
		bk := cands[g.R.Intn(len(cands))]
		return &baskettypes.MsgUpdateCurator{Curator: a.Addr, Denom: bk.BasketDenom, NewCurator: g.otherOrSelf(a)}
	})
	regKind("UpdBasketFee", true, func(g *Gen, a *Actor, v *Snapshot, mode int) sdk.Msg {
		m := &baskettypes.MsgUpdateBasketFee{Authority: auth(a)}
		switch g.R.Intn(4) {
		case 0:
		case 1:
			m.Fee = coinP(Pick(g.R, workDenoms), big.NewInt(0))
		default:
			m.Fee = coinP(Pick(g.R, workDenoms), big.NewInt(int64(Pick(g.R, []int{1, 1000, 20000000}))))
			if len(v.Baskets) > 0 && g.R.Chance(0.12) {
				g.W.Probe("creation_fee_set_in_a_basket_token")
				m.Fee = coinP(v.Baskets[g.R.Intn(len(v.Baskets))].BasketDenom, big.NewInt(int64(Pick(g.R, []int{1, 7, 1000}))))
			}
		}
		return m
	})
	regKind("UpdDateCriteria", true, func(g *Gen, a *Actor, v *Snapshot, mode int) sdk.Msg {
		if len(v.Baskets) == 0 {
			return nil
		}
		bk := v.Baskets[g.R.Intn(len(v.Baskets))]
		return &baskettypes.MsgUpdateDateCriteria{Authority: auth(a), Denom: bk.BasketDenom, NewDateCriteria: g.dateCriteria(v, mode)}
	})

	// ---- marketplace ----
	regKind("Sell", false, func(g *Gen, a *Actor, v *Snapshot, mode int) sdk.Msg {
		m := &markettypes.MsgSell{Seller: a.Addr}
		n := g.R.Range(1, 3)
		md := g.oneAspect(mode, "amount", "denom", "expiration", "price")
		if mode == ModeValid && g.R.Chance(0.04) {
			// bulk listing: dozens of small orders that expire within days of each other, so that
			// one later block has many orders (of one or several batches) to expire at once
			if b, bal := g.targetBatch(v, a, mode); b != nil {
				p := g.precOf(v, b)
				k := g.R.Range(20, 75)
				q := truncTo(new(big.Rat).Quo(bal, RatI64(int64(k+1))), p)
				if q.Sign() > 0 && len(FmtDec(q, p)) <= 20 {
					den := g.askDenom(v, ModeValid)
					for i := 0; i < k; i++ {
						t := v.Time.Add(time.Duration(g.R.Range(1, 700000)) * time.Second)
						m.Orders = append(m.Orders, &markettypes.MsgSell_Order{BatchDenom: b.Denom, Quantity: FmtDec(q, p), AskPrice: coinP(den, g.price()), DisableAutoRetire: g.R.Chance(0.5), Expiration: &t})
					}
					g.W.Probe("bulk_sell_generated")
					return m
				}
			}
		}
		for i := 0; i < n; i++ {
			b, bal := g.targetBatch(v, a, mode)
			if b == nil {
				break
			}
			p := g.precOf(v, b)
			o := &markettypes.MsgSell_Order{BatchDenom: b.Denom, Quantity: g.creditAmount(truncTo(new(big.Rat).Quo(bal, RatI64(int64(n))), p), p, md("amount")),
				AskPrice: coinP(g.askDenom(v, md("denom")), g.price()), DisableAutoRetire: g.R.Chance(0.5), Expiration: g.expiration(v, md("expiration"))}
			if len(o.Quantity) < 40 && len(FmtDec(bal, p)) > 300 {
				g.W.Probe("sell_of_astronomic_quantity_spelled_with_exponent")
			}
			if len(o.Quantity) < 40 && len(FmtDec(bal, p)) > 300 && o.Expiration == nil {
				t := v.Time.Add(time.Duration(g.R.Range(1, 700000)) * time.Second)
				o.Expiration = &t
			}
			if md("price") != ModeValid && g.R.Chance(0.3) {
				o.AskPrice = coinP(g.askDenom(v, md("denom")), big.NewInt(0))
			}
			m.Orders = append(m.Orders, o)
		}
		if len(m.Orders) == 0 {
			return nil
		}
		return m
	})
	regKind("UpdSell", false, func(g *Gen, a *Actor, v *Snapshot, mode int) sdk.Msg {
		var cands []*marketv1.SellOrder
		for _, o := range v.Orders {
			if AddrStr(o.Seller) == a.Addr || mode == ModeHostile {
				cands = append(cands, o)
			}
		}
		if len(cands) == 0 {
			return nil
		}
		m := &markettypes.MsgUpdateSellOrders{Seller: a.Addr}
		md := g.oneAspect(mode, "amount", "denom", "expiration")
		n := g.R.Range(1, 3)
		for i := 0; i < n; i++ {
			o := cands[g.R.Intn(len(cands))]
			if i > 0 && g.R.Chance(0.25) {
				o = v.OrderByID(m.Updates[0].SellOrderId) // the same order twice in one message
				if o == nil {
					o = cands[g.R.Intn(len(cands))]
				}
			}
			u := &markettypes.MsgUpdateSellOrders_Update{SellOrderId: o.Id, DisableAutoRetire: g.R.Chance(0.5)}
			b := v.BatchByKey(o.BatchKey)
			p := 6
			if b != nil {
				p = g.precOf(v, b)
			}
			if g.R.Chance(0.6) {
				q, _ := DecOrZero(o.Quantity)
				tr := new(big.Rat)
				if bb := v.Balance(a.Addr, o.BatchKey); bb != nil {
					tr, _ = DecOrZero(bb.TradableAmount)
				}
				if g.R.Chance(0.5) {
					u.NewQuantity = g.creditAmount(q, p, md("amount")) // decrease (or same)
				} else {
					u.NewQuantity = g.creditAmount(RatAdd(q, tr), p, md("amount")) // up to everything
				}
			}
			if g.R.Chance(0.5) {
				den := g.askDenom(v, md("denom"))
				if mk := v.MarketByID(o.MarketId); mk != nil && g.R.Chance(0.5) {
					den = mk.BankDenom // a price-only update: same denomination as before (allowed or not by now)
				}
				u.NewAskPrice = coinP(den, g.price())
			}
			if g.R.Chance(0.4) {
				u.NewExpiration = g.expiration(v, md("expiration"))
			}
			m.Updates = append(m.Updates, u)
		}
		return m
	})
	regKind("CancelSell", false, func(g *Gen, a *Actor, v *Snapshot, mode int) sdk.Msg {
		var cands []*marketv1.SellOrder
		for _, o := range v.Orders {
			if AddrStr(o.Seller) == a.Addr || mode != ModeValid {
				cands = append(cands, o)
			}
		}
		id := uint64(g.R.Range(1, 30))
		if len(cands) > 0 {
			id = cands[g.R.Intn(len(cands))].Id
		} else if mode == ModeValid {
			return nil
		}
		return &markettypes.MsgCancelSellOrder{Seller: a.Addr, SellOrderId: id}
	})
	regKind("Buy", false, func(g *Gen, a *Actor, v *Snapshot, mode int) sdk.Msg {
		var cands []*marketv1.SellOrder
		for _, o := range v.Orders {
			if AddrStr(o.Seller) != a.Addr || mode != ModeValid {
				cands = append(cands, o)
			}
		}
		if len(cands) == 0 {
			return nil
		}
		m := &markettypes.MsgBuyDirect{Buyer: a.Addr}
		n := g.R.Weighted([]float64{0, 6, 2, 1})
		var first *marketv1.SellOrder
		for i := 0; i < n; i++ {
			o := cands[g.R.Intn(len(cands))]
			if first != nil && g.R.Chance(0.6) {
				// prefer another order of the same batch, ideally asking in another denom
				var same, cross []*marketv1.SellOrder
				for _, c := range cands {
					if c.BatchKey == first.BatchKey && c.Id != first.Id {
						same = append(same, c)
						if c.MarketId != first.MarketId {
							cross = append(cross, c)
						}
					}
				}
				if len(cross) > 0 {
					o = cross[g.R.Intn(len(cross))]
					g.W.Probe("buy_same_batch_across_markets")
				} else if len(same) > 0 {
					o = same[g.R.Intn(len(same))]
				}
			}
			bo := g.buyOrder(a, v, o, mode)
			if first != nil && o.MarketId != first.MarketId && g.R.Chance(0.3) && len(m.Orders) > 0 && m.Orders[0].BidPrice != nil {
				// a sloppy client bids every order in the first order's denom (everything else as generated):
				// must be rejected, the order asks in another denom
				d := m.Orders[0].BidPrice.Denom
				bo.BidPrice.Denom = d
				if bo.MaxFeeAmount != nil {
					bo.MaxFeeAmount.Denom = d
				}
				g.W.Probe("buy_later_order_bid_in_first_orders_denom")
			}
			if first == nil {
				first = o
			}
			m.Orders = append(m.Orders, bo)
		}
		return m
	})
	regKind("AddDenom", true, func(g *Gen, a *Actor, v *Snapshot, mode int) sdk.Msg {
		d := g.anyDenom()
		disp := strings.TrimPrefix(d, "u")
		if strings.HasPrefix(d, "ibc/") {
			disp = "usdc.axl"
		}
		return &markettypes.MsgAddAllowedDenom{Authority: auth(a), BankDenom: d, DisplayDenom: disp + Pick(g.R, []string{"", "", "x"}), Exponent: 6}
	})
	regKind("RemoveDenom", true, func(g *Gen, a *Actor, v *Snapshot, mode int) sdk.Msg {
		d := g.anyDenom()
		if len(v.AllowedDenoms) > 0 && g.R.Chance(0.7) {
			d = v.AllowedDenoms[g.R.Intn(len(v.AllowedDenoms))].BankDenom // one that is allowed (and may have markets and open orders)
		}
		return &markettypes.MsgRemoveAllowedDenom{Authority: auth(a), Denom: d}
	})
	regKind("SetFeeParams", true, func(g *Gen, a *Actor, v *Snapshot, mode int) sdk.Msg {
		vals := g.P.feeRateValues()
		return &markettypes.MsgGovSetFeeParams{Authority: auth(a), Fees: &markettypes.FeeParams{BuyerPercentageFee: Pick(g.R, vals), SellerPercentageFee: Pick(g.R, vals)}}
	})
	regKind("SendFromFeePool", true, func(g *Gen, a *Actor, v *Snapshot, mode int) sdk.Msg {
		pool := AddrStr(feePoolAddr())
		d := Pick(g.R, workDenoms)
		if held := sortedKeys(v.Bank[pool]); len(held) > 0 && g.R.Chance(0.8) {
			d = held[g.R.Intn(len(held))] // what the pool actually holds
		}
		bal := v.BankBal(pool, d)
		amt := g.intLE(bal)
		if mode == ModeNearMiss {
			amt = new(big.Int).Add(bal, big.NewInt(1))
		}
		rcpt := g.user().Addr
		if g.R.Chance(0.5) {
			rcpt = a.Addr // the sender pays itself (a user doing so is the obvious theft attempt)
		}
		return &markettypes.MsgGovSendFromFeePool{Authority: auth(a), Recipient: rcpt, Coins: sdk.Coins{coin(d, amt)}}
	})

	// ---- bank ----
	regKind("BankSend", false, func(g *Gen, a *Actor, v *Snapshot, mode int) sdk.Msg {
		ds := sortedKeys(v.Bank[a.Addr])
		if len(ds) == 0 {
			return nil
		}
		// prefer basket denoms so that basket tokens move between parties
		d := ds[g.R.Intn(len(ds))]
		for try := 0; try < 3 && !strings.HasPrefix(d, "eco."); try++ {
			d = ds[g.R.Intn(len(ds))]
		}
		bal := v.BankBal(a.Addr, d)
		amt := g.intLE(bal)
		if mode == ModeNearMiss {
			amt = new(big.Int).Add(bal, big.NewInt(1))
		}
		return &banktypes.MsgSend{FromAddress: a.Addr, ToAddress: g.otherOrSelf(a), Amount: sdk.Coins{coin(d, amt)}}
	})

	// ---- data ----
	regKind("Anchor", false, func(g *Gen, a *Actor, v *Snapshot, mode int) sdk.Msg {
		return &data.MsgAnchor{Sender: a.Addr, ContentHash: g.contentHash(mode, false)}
	})
	regKind("Attest", false, func(g *Gen, a *Actor, v *Snapshot, mode int) sdk.Msg {
		m := &data.MsgAttest{Attestor: a.Addr}
		n := g.R.Range(1, 3)
		for i := 0; i < n; i++ {
			m.ContentHashes = append(m.ContentHashes, g.contentHash(mode, true).Graph)
		}
		return m
	})
	regKind("DefineResolver", false, func(g *Gen, a *Actor, v *Snapshot, mode int) sdk.Msg {
		url := Pick(g.R, []string{"https://foo.bar", "https://foo.bar/a", "http://r.example", "https://res.regen.network", "https://x.y/" + fmt.Sprint(g.R.Intn(5))})
		if g.R.Chance(0.35) {
			// everything else a request URI may be: no host, opaque, user info, ports, IPv6, escapes, other schemes, long
			url = Pick(g.R, []string{"/ipfs/QmYwAPJzv5CZsnA625s3Xf2nemtYgPpHdWEz79ojWnPbdG", "urn:uuid:6e8bc430-9c3a-11d9-9669-0800200c9a66", "file:///var/data/x",
				"ipfs://bafybeigdyrzt5sfp7udm7hu76uh7y26nf3efuylqabf3oclgtqy55fbzdi", "https://user:pw@host.example:8443/p?q=1&r=%7E#frag", "HTTP://UPPER.EXAMPLE/PATH",
				"https://[2001:db8::1]:9090/", "https://xn--bcher-kva.example/ä", "mailto:registry@example.org", "https://127.0.0.1", "/", "a:b", "https://foo.bar/" + strings.Repeat("seg/", g.R.Range(20, 300)),
				"https://foo.bar/?u=" + fmt.Sprint(g.next())})
		}
		if g.R.Chance(0.02) && !g.P.AvoidKnown {
			g.W.Probe("text_field_with_invalid_utf8")
			url = "https://foo.bar/\xff\xfe"
		}
		if len(v.Resolvers) > 0 && g.R.Chance(0.3) {
			// the URL of an existing resolver: several resolvers (public and managed) may share one URL
			url = v.Resolvers[g.R.Intn(len(v.Resolvers))].Url
		}
		if mode != ModeValid && g.R.Chance(0.4) {
			url = Pick(g.R, []string{"", "foo", "://", "ftp//x"})
		}
		return &data.MsgDefineResolver{Definer: a.Addr, ResolverUrl: url, Public: g.R.Chance(0.3) && !g.P.AvoidKnown}
	})
	regKind("RegisterResolver", false, func(g *Gen, a *Actor, v *Snapshot, mode int) sdk.Msg {
		var id uint64
		var cands []uint64
		for _, r := range v.Resolvers {
			if len(r.Manager) == 0 || AddrStr(r.Manager) == a.Addr || mode != ModeValid || g.R.Chance(0.15) {
				cands = append(cands, r.Id)
			}
		}
		if len(cands) > 0 {
			id = cands[g.R.Intn(len(cands))]
		} else if mode == ModeValid {
			return nil
		} else {
			id = uint64(g.R.Range(0, 5))
		}
		m := &data.MsgRegisterResolver{Signer: a.Addr, ResolverId: id}
		n := g.R.Range(1, 3)
		for i := 0; i < n; i++ {
			m.ContentHashes = append(m.ContentHashes, g.contentHash(mode, false))
		}
		return m
	})
}

// issuances builds a list of batch issuances.
func (g *Gen) issuances(p int, mode int) []*basetypes.BatchIssuance {
	var out []*basetypes.BatchIssuance
	n := g.R.Range(1, 3)
	for i := 0; i < n; i++ {
		is := &basetypes.BatchIssuance{Recipient: g.user().Addr}
		switch g.R.Intn(3) {
		case 0:
			is.TradableAmount = g.issueAmount(p)
		case 1:
			is.RetiredAmount = g.issueAmount(p)
			is.RetirementJurisdiction = g.jurisdiction()
			is.RetirementReason = g.reason()
		default:
			is.TradableAmount = g.issueAmount(p)
			is.RetiredAmount = g.issueAmount(p)
			is.RetirementJurisdiction = g.jurisdiction()
		}
		if mode != ModeValid && g.R.Chance(0.3) {
			is.TradableAmount = g.badAmount(p)
		}
		out = append(out, is)
	}
	return out
}

type originSeed struct{ id, source, contract string }

// reference ids: any string up to 32 bytes; some are prefixes / case variants of others
var refIDs = []string{"VCS-001", "VCS-002", "R1", "BR-7", "R10", "r1", "VCS-0010", "Ünï 1", "R1 ", "0123456789abcdef0123456789abcdef"}

var chainSpellings = []string{"polygon", "Polygon", "POLYGON", "ethereum", "Ethereum", "celo", "kava", "Kava", "Osmosis-link"}

var oddChainNames = []string{"Polygon.PoS", "axelar/eth", "\u00fcn\u00ef-chain", "a-chain-name-that-is-longer-than-32-bytes", " leading", "-dash", "x"}

func ethAddr(i int) string   { return fmt.Sprintf("0x%040x", 0xabc000+i) }
func ethTxHash(i int) string { return fmt.Sprintf("0x%064x", 0x7a0000+i) }

// lookalike: a name that is NOT a letter-case variant of n but that Unicode lower-casing folds onto it
// (U+212A KELVIN SIGN -> k, U+0130 LATIN CAPITAL LETTER I WITH DOT ABOVE -> i)
func lookalike(n string) (string, bool) {
	for i, c := range n {
		switch c {
		case 'k', 'K':
			return n[:i] + "\u212a" + n[i+1:], true
		case 'i', 'I':
			return n[:i] + "\u0130" + n[i+1:], true
		}
	}
	return n, false
}

func (g *Gen) chainName(v *Snapshot, mode int) string {
	if len(v.BridgeChains) > 0 && ((mode != ModeValid && g.R.Chance(0.3)) || g.R.Chance(0.14)) {
		if l, ok := lookalike(v.BridgeChains[g.R.Intn(len(v.BridgeChains))].ChainName); ok {
			g.W.Probe("chain_name_unicode_lookalike")
			return l
		}
	}
	if mode == ModeValid && len(v.BridgeChains) > 0 && g.R.Chance(0.8) {
		n := v.BridgeChains[g.R.Intn(len(v.BridgeChains))].ChainName
		if g.R.Chance(0.3) {
			return strings.ToUpper(n[:1]) + n[1:]
		}
		return n
	}
	return Pick(g.R, chainSpellings)
}

// originTx builds an origin tx; with some probability it deliberately reuses
// one that the generator has used before (replay through any entry point).
func (g *Gen) originTx(mode int, bridge bool) *basetypes.OriginTx {
	if len(g.origins) > 0 && g.R.Chance(0.35) {
		o := g.origins[g.R.Intn(len(g.origins))]
		ot := &basetypes.OriginTx{Id: o.id, Source: o.source, Contract: o.contract}
		if g.R.Chance(0.3) && !(g.P.AvoidKnown && g.W.Property == "C13") {
			// letter-case variant of the source
			if ot.Source == strings.ToLower(ot.Source) {
				ot.Source = strings.ToUpper(ot.Source[:1]) + ot.Source[1:]
			} else {
				ot.Source = strings.ToLower(ot.Source)
			}
		}
		if len(ot.Contract) > 2 && g.R.Chance(0.2) && !(g.P.AvoidKnown && g.W.Property == "C13") {
			// the same Ethereum address with its hexadecimal digits in the other letter case
			if h := ot.Contract[2:]; h == strings.ToLower(h) {
				ot.Contract = "0x" + strings.ToUpper(h)
			} else {
				ot.Contract = "0x" + strings.ToLower(h)
			}
			g.W.Probe("origin_contract_in_other_letter_case")
		}
		if !bridge && g.R.Chance(0.3) {
			ot.Contract = ""
		}
		return ot
	}
	o := originSeed{id: ethTxHash(g.R.Intn(12)), source: Pick(g.R, chainSpellings)}
	if g.P.AvoidKnown && g.W.Property == "C13" {
		o.source = strings.ToLower(o.source) // one spelling per chain: stays clear of the open known finding
	}
	if bridge || g.R.Chance(0.4) {
		o.contract = ethAddr(g.R.Intn(4))
	}
	if !bridge && g.R.Chance(0.3) {
		o.id = "tx-" + fmt.Sprint(g.R.Intn(8))
	}
	g.origins = append(g.origins, o)
	if len(g.origins) > 12 {
		g.origins = g.origins[1:]
	}
	ot := &basetypes.OriginTx{Id: o.id, Source: o.source, Contract: o.contract}
	if g.R.Chance(0.2) {
		ot.Note = "note"
	}
	return ot
}

func (g *Gen) basketAllowsClass(v *Snapshot, bk *basketv1.Basket, b *basev1.Batch) bool {
	cl := v.ClassOfBatch(b)
	if cl == nil {
		return false
	}
	for _, bc := range v.BasketClasses {
		if bc.BasketId == bk.Id && bc.ClassId == cl.Id {
			return true
		}
	}
	return false
}

func (g *Gen) dateCriteria(v *Snapshot, mode int) *baskettypes.DateCriteria {
	switch g.R.Weighted([]float64{3, 3, 3, 3}) {
	case 0:
		return nil
	case 1:
		if g.R.Chance(0.07) {
			// what the wire format can carry beyond what a calendar can: any seconds, any nanos
			g.W.Probe("date_criterion_beyond_calendar_range")
			return &baskettypes.DateCriteria{MinStartDate: &gogotypes.Timestamp{
				Seconds: Pick(g.R, []int64{253402300800, 1000000000000, 1 << 62, -2208992400, 0, 4102444800}),
				Nanos:   Pick(g.R, []int32{0, 0, -5, 999999999, 1000000000, -2147483648})}}
		}
		var t time.Time
		if len(v.Batches) > 0 && g.R.Chance(0.6) {
			t = TsTime(v.Batches[g.R.Intn(len(v.Batches))].StartDate).Add(time.Duration(g.R.Intn(3)-1) * time.Nanosecond)
		} else {
			t, _ = g.batchDates(v.Time)
		}
		ts, err := gogotypes.TimestampProto(t)
		if err != nil {
			return nil
		}
		return &baskettypes.DateCriteria{MinStartDate: ts}
	case 2:
		if g.R.Chance(0.07) {
			g.W.Probe("date_criterion_beyond_calendar_range")
			return &baskettypes.DateCriteria{StartDateWindow: &gogotypes.Duration{
				Seconds: Pick(g.R, []int64{86400, 86400, 315576000000, 315576000001, 1 << 62, 100000}),
				Nanos:   Pick(g.R, []int32{0, -5, 999999999, 1000000000, -2147483648, 7})}}
		}
		if g.R.Chance(0.06) {
			// a window longer than a time.Duration can express (about 292 years), up to the
			// 10000 years a protobuf Duration may span
			g.W.Probe("date_window_longer_than_292_years")
			return &baskettypes.DateCriteria{StartDateWindow: &gogotypes.Duration{Seconds: int64(g.R.Range(293, 10000)) * 31557600, Nanos: int32(g.R.Intn(2) * g.R.Intn(1000000000))}}
		}
		var d time.Duration
		if len(v.Batches) > 0 && g.R.Chance(0.6) {
			d = v.Time.Sub(TsTime(v.Batches[g.R.Intn(len(v.Batches))].StartDate)) + time.Duration(g.R.Intn(20))*time.Second
			if d <= 0 {
				d = time.Hour
			}
		} else {
			d = time.Duration(g.R.Int63n(int64(200 * 365 * 24 * time.Hour)))
			if d < 24*time.Hour {
				d = 24 * time.Hour
			}
		}
		if mode != ModeValid && g.R.Chance(0.3) {
			d = -d
		}
		return &baskettypes.DateCriteria{StartDateWindow: gogotypes.DurationProto(d)}
	default:
		y := uint32(g.R.Range(1, 12))
		if g.R.Chance(0.1) {
			y = uint32(g.R.Range(12, 200))
		}
		if mode != ModeValid && g.R.Chance(0.3) {
			y = 0
		}
		return &baskettypes.DateCriteria{YearsInThePast: y}
	}
}

// criterionDate returns a start date exactly on / next to the criterion of
// some basket as it evaluates at (about) the view's time.
func (g *Gen) criterionDate(v *Snapshot) (time.Time, bool) {
	if len(v.Baskets) == 0 {
		return time.Time{}, false
	}
	bk := v.Baskets[g.R.Intn(len(v.Baskets))]
	dc := bk.DateCriteria
	if dc == nil {
		return time.Time{}, false
	}
	var t time.Time
	switch {
	case dc.MinStartDate != nil:
		t = TsTime(dc.MinStartDate)
	case dc.StartDateWindow != nil:
		t = v.Time.Add(-dc.StartDateWindow.AsDuration())
	case dc.YearsInThePast != 0:
		t = date(v.Time.Year()-int(dc.YearsInThePast), 1, 1)
	default:
		return time.Time{}, false
	}
	t = t.Add(time.Duration(g.R.Intn(3)-1) * time.Nanosecond)
	if t.Year() < 1 || t.Year() > 9000 {
		return time.Time{}, false
	}
	return t.UTC(), true
}

func (g *Gen) askDenom(v *Snapshot, mode int) string {
	if len(v.Markets) > 0 && g.R.Chance(0.2) {
		// a denom that has (had) a market: it may have been removed from the allowed list since
		return v.Markets[g.R.Intn(len(v.Markets))].BankDenom
	}
	if mode == ModeValid && len(v.AllowedDenoms) > 0 {
		return v.AllowedDenoms[g.R.Intn(len(v.AllowedDenoms))].BankDenom
	}
	return Pick(g.R, workDenoms)
}

func (g *Gen) expiration(v *Snapshot, mode int) *time.Time {
	now := v.Time
	var t time.Time
	switch g.R.Weighted([]float64{4, 2, 2, 2, 1}) {
	case 0:
		return nil
	case 1:
		t = now.Add(time.Duration(g.R.Range(1, 40)) * time.Second)
	case 2:
		t = now.Add(time.Duration(g.R.Range(1, 72)) * time.Hour)
	case 3:
		t = now.Add(time.Duration(g.R.Range(1, 3)) * time.Nanosecond)
	default:
		t = now.Add(time.Duration(g.R.Range(1, 10)) * 6 * time.Second)
	}
	if mode == ModeValid && g.R.Chance(0.08) {
		t = date(Pick(g.R, []int{2263, 2300, 2554, 5000, 9000}), 6, 15) // far future, valid
	}
	if (mode == ModeNearMiss) || (mode == ModeHostile && g.R.Chance(0.4)) {
		t = now.Add(-time.Duration(g.R.Range(0, 5)) * time.Second) // already passed / equal to block time
		if g.R.Chance(0.4) {
			// long passed: the whole valid timestamp range below the block time
			t = date(Pick(g.R, []int{1, 300, 500, 900, 1000, 1500, 1600, 1677, 1700, 1900, 1969, 1970, 2000}), time.Month(g.R.Range(1, 12)), g.R.Range(1, 28))
		}
	}
	return &t
}

func (g *Gen) buyOrder(a *Actor, v *Snapshot, o *marketv1.SellOrder, mode int) *markettypes.MsgBuyDirect_Order {
	q, _ := DecOrZero(o.Quantity)
	ask, _ := new(big.Int).SetString(o.AskAmount, 10)
	if ask == nil {
		ask = big.NewInt(1)
	}
	denom := "uregen"
	if mk := v.MarketByID(o.MarketId); mk != nil {
		denom = mk.BankDenom
	}
	p := 6
	if b := v.BatchByKey(o.BatchKey); b != nil {
		p = g.precOf(v, b)
	}
	bo := &markettypes.MsgBuyDirect_Order{SellOrderId: o.Id, Quantity: g.creditAmount(q, p, mode), RetirementJurisdiction: g.jurisdiction(), RetirementReason: g.reason()}
	bid := new(big.Int).Set(ask)
	if g.R.Chance(0.3) {
		bid.Add(bid, big.NewInt(int64(g.R.Range(1, 1000)))) // over-asking
	}
	if mode == ModeNearMiss && g.R.Chance(0.3) && ask.Sign() > 0 {
		bid = new(big.Int).Sub(ask, big.NewInt(1))
	}
	if mode != ModeValid && g.R.Chance(0.2) {
		denom = Pick(g.R, workDenoms)
	}
	bo.BidPrice = coinP(denom, bid)
	bo.DisableAutoRetire = o.DisableAutoRetire && g.R.Chance(0.6)
	if mode != ModeValid && g.R.Chance(0.3) {
		bo.DisableAutoRetire = !bo.DisableAutoRetire
	}
	// max fee: exact floor of the buyer fee, one less, ample, or absent
	fee := new(big.Int)
	if v.FeeParams != nil {
		if rate, ok := DecOrZero(v.FeeParams.BuyerPercentageFee); ok {
			if bq, ok := ParseDec(bo.Quantity); ok {
				fee = RatFloor(RatMul(RatMul(bq, RatInt(ask)), rate))
			}
		}
	}
	switch g.R.Weighted([]float64{3, 3, 2, 1}) {
	case 0:
		bo.MaxFeeAmount = coinP(denom, fee)
	case 1:
		bo.MaxFeeAmount = coinP(denom, new(big.Int).Add(fee, big.NewInt(int64(g.R.Range(1, 100000)))))
	case 2:
		if fee.Sign() == 0 || mode != ModeValid {
			bo.MaxFeeAmount = nil
		} else {
			bo.MaxFeeAmount = coinP(denom, fee)
		}
	default:
		if mode != ModeValid && fee.Sign() > 0 {
			bo.MaxFeeAmount = coinP(denom, new(big.Int).Sub(fee, big.NewInt(1)))
		} else {
			bo.MaxFeeAmount = coinP(denom, new(big.Int).Mul(fee, big.NewInt(2)))
		}
	}
	return bo
}

// ---- data values -------------------------------------------------------

type hashSeed struct {
	graph                 bool
	hash                  []byte
	digest, canon, merkle uint32
	ext                   string
}

var algoValues = []uint32{1, 1, 1, 1, 2, 3, 7, 128, 254, 255, 255, 256, 257, 1 << 31, 1<<32 - 1}

func (g *Gen) contentHash(mode int, graphOnly bool) *data.ContentHash {
	var h hashSeed
	if len(g.hashes) > 0 && g.R.Chance(0.55) {
		h = g.hashes[g.R.Intn(len(g.hashes))]
		h.hash = append([]byte(nil), h.hash...)
		// near duplicate: change exactly one aspect (or none = repeat)
		switch g.R.Intn(7) {
		case 0:
			if g.R.Chance(0.3) {
				h.digest += 256
			} else {
				h.digest = h.digest%255 + 1
			}
		case 1:
			if h.graph {
				if g.R.Chance(0.3) {
					h.canon += 256
				} else {
					h.canon = h.canon%255 + 1
				}
			} else {
				h.ext = Pick(g.R, []string{"pdf", "csv", "json", "ab", "abcdef", "rdf"})
			}
		case 2:
			if h.graph {
				h.merkle = Pick(g.R, []uint32{0, 1, 256})
			} else {
				h.digest = Pick(g.R, algoValues)
			}
		case 3:
			h.hash[len(h.hash)-1] ^= 1
		case 4:
			h.graph = !h.graph
			if h.graph {
				h.canon, h.ext = 1, ""
			} else {
				h.ext = Pick(g.R, []string{"bin", "rdf"})
			}
		default: // exact repeat
		}
	} else {
		h = hashSeed{graph: g.R.Chance(0.5), hash: g.R.Bytes(Pick(g.R, []int{32, 32, 32, 20, 64, 33})), digest: Pick(g.R, algoValues)}
		if g.P.Hasher != nil && g.P.Hasher.Kind == "weak" || g.R.Chance(0.5) {
			// few distinct hashes so that repeats and collisions happen
			h.hash = make([]byte, 32)
			h.hash[0] = byte(g.R.Intn(24))
		}
		if h.graph {
			h.canon = Pick(g.R, algoValues)
			h.merkle = Pick(g.R, []uint32{0, 0, 0, 1, 256})
		} else {
			h.ext = Pick(g.R, []string{"pdf", "csv", "json", "jpg", "ab", "abcdef", "rdf", "rdf", "ttl", "jsonld", "7z", "00"})
		}
	}
	if graphOnly && !h.graph {
		h.graph = true
		h.canon = 1
		h.ext = ""
	}
	if mode != ModeValid && g.R.Chance(0.4) {
		switch g.R.Intn(4) {
		case 0:
			h.digest = 0
		case 1:
			h.hash = h.hash[:g.R.Intn(len(h.hash))]
		case 2:
			h.ext = Pick(g.R, []string{"", "a", "toolongext", "p.f", "PDF", ".rdf", ".tar.gz", "-a.b", ".a.b", "!jpg", "jp!g", "jpg!", "r df", "rdf ", "\u00e9t\u00e9", "a.b", "..", "a/b"})
		default:
			h.canon = 0
		}
	} else {
		g.hashes = append(g.hashes, h)
		if len(g.hashes) > 24 {
			g.hashes = g.hashes[1:]
		}
	}
	if h.graph {
		return &data.ContentHash{Graph: &data.ContentHash_Graph{Hash: h.hash, DigestAlgorithm: h.digest, CanonicalizationAlgorithm: h.canon, MerkleTree: h.merkle}}
	}
	return &data.ContentHash{Raw: &data.ContentHash_Raw{Hash: h.hash, DigestAlgorithm: h.digest, FileExtension: h.ext}}
}
