package engine

import "math/bits"

// Own xoshiro256** so that streams never change with the Go release.
type PRNG struct{ s [4]uint64 }

func splitmix64(x *uint64) uint64 {
	*x += 0x9e3779b97f4a7c15
	z := *x
	z = (z ^ (z >> 30)) * 0xbf58476d1ce4e5b9
	z = (z ^ (z >> 27)) * 0x94d049bb133111eb
	return z ^ (z >> 31)
}

func NewPRNG(seed uint64) *PRNG {
	p := &PRNG{}
	x := seed
	for i := range p.s {
		p.s[i] = splitmix64(&x)
	}
	return p
}

// RunSeed derives the seed of run i of property prop under VERIF_SEED.
func RunSeed(verifSeed uint64, prop string, i uint64) uint64 {
	h := uint64(14695981039346656037)
	for _, c := range []byte(prop) {
		h ^= uint64(c)
		h *= 1099511628211
	}
	x := verifSeed*0x9e3779b97f4a7c15 ^ h
	a := splitmix64(&x)
	x = a ^ (i+1)*0xd1342543de82ef95
	return splitmix64(&x)
}

func (p *PRNG) Uint64() uint64 {
	s := &p.s
	r := bits.RotateLeft64(s[1]*5, 7) * 9
	t := s[1] << 17
	s[2] ^= s[0]
	s[3] ^= s[1]
	s[1] ^= s[2]
	s[0] ^= s[3]
	s[2] ^= t
	s[3] = bits.RotateLeft64(s[3], 45)
	return r
}

// Intn returns a value in [0,n). n must be > 0.
func (p *PRNG) Intn(n int) int {
	if n <= 0 {
		panic("Intn: n<=0")
	}
	return int(p.Uint64() % uint64(n))
}

func (p *PRNG) Int63n(n int64) int64 {
	if n <= 0 {
		panic("Int63n: n<=0")
	}
	return int64(p.Uint64() % uint64(n))
}

func (p *PRNG) Float() float64 { return float64(p.Uint64()>>11) / (1 << 53) }

// Chance returns true with probability pr.
func (p *PRNG) Chance(pr float64) bool { return p.Float() < pr }

// Range returns a value in [lo,hi] inclusive.
func (p *PRNG) Range(lo, hi int) int {
	if hi < lo {
		lo, hi = hi, lo
	}
	return lo + p.Intn(hi-lo+1)
}

// Weighted picks an index according to non-negative weights (at least one > 0).
func (p *PRNG) Weighted(w []float64) int {
	t := 0.0
	for _, x := range w {
		t += x
	}
	if t <= 0 {
		return p.Intn(len(w))
	}
	r := p.Float() * t
	for i, x := range w {
		if r < x {
			return i
		}
		r -= x
	}
	return len(w) - 1
}

func Pick[T any](p *PRNG, xs []T) T { return xs[p.Intn(len(xs))] }

func (p *PRNG) Bytes(n int) []byte {
	b := make([]byte, n)
	for i := 0; i < n; i += 8 {
		v := p.Uint64()
		for j := 0; j < 8 && i+j < n; j++ {
			b[i+j] = byte(v >> (8 * j))
		}
	}
	return b
}

// Fork derives an independent stream (used for alternative schedules) without
// disturbing the position of the parent more than one draw.
func (p *PRNG) Fork() *PRNG { return NewPRNG(p.Uint64()) }
