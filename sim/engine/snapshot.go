package engine

import (
	"bytes"
	"crypto/sha256"
	"encoding/binary"
	"fmt"
	"math/big"
	"sort"
	"time"

	ormv1 "cosmossdk.io/api/cosmos/orm/v1"
	ormv1alpha1 "cosmossdk.io/api/cosmos/orm/v1alpha1"
	"github.com/cosmos/cosmos-sdk/orm/model/ormdb"
	"github.com/cosmos/cosmos-sdk/orm/model/ormtable"
	storetypes "github.com/cosmos/cosmos-sdk/store/types"
	sdk "github.com/cosmos/cosmos-sdk/types"
	banktypes "github.com/cosmos/cosmos-sdk/x/bank/types"
	"google.golang.org/protobuf/proto"
	"google.golang.org/protobuf/reflect/protoreflect"
	"google.golang.org/protobuf/reflect/protoregistry"
	"google.golang.org/protobuf/types/known/timestamppb"

	datav1 "github.com/regen-network/regen-ledger/api/v2/regen/data/v1"
	basketv1 "github.com/regen-network/regen-ledger/api/v2/regen/ecocredit/basket/v1"
	marketv1 "github.com/regen-network/regen-ledger/api/v2/regen/ecocredit/marketplace/v1"
	basev1 "github.com/regen-network/regen-ledger/api/v2/regen/ecocredit/v1"
	"github.com/regen-network/regen-ledger/types/v2/ormstore"
	"github.com/regen-network/regen-ledger/x/data/v3"
	"github.com/regen-network/regen-ledger/x/ecocredit/v3"
)

// tableHandle is one ORM table reachable through a read handle.
type tableHandle struct {
	Name  string // full proto name
	Table ormtable.Table
}

// Observer holds read handles over the module schemas, built generically from
// the schema descriptors so that new tables are picked up without changes.
type Observer struct {
	tables []tableHandle
}

func tablesOf(schema *ormv1alpha1.ModuleSchemaDescriptor, key storetypes.StoreKey) []tableHandle {
	db, err := ormstore.NewStoreKeyDB(schema, key, ormdb.ModuleDBOptions{})
	if err != nil {
		panic(err)
	}
	var out []tableHandle
	for _, fe := range schema.SchemaFile {
		fd, err := protoregistry.GlobalFiles.FindFileByPath(fe.ProtoFileName)
		if err != nil {
			panic(err)
		}
		msgs := fd.Messages()
		for i := 0; i < msgs.Len(); i++ {
			md := msgs.Get(i)
			mt, err := protoregistry.GlobalTypes.FindMessageByName(md.FullName())
			if err != nil {
				continue
			}
			tb := db.GetTable(mt.New().Interface())
			if tb == nil {
				continue
			}
			out = append(out, tableHandle{string(md.FullName()), tb})
		}
	}
	return out
}

func NewObserver(c *Chain) *Observer {
	o := &Observer{}
	o.tables = append(o.tables, tablesOf(&ecocredit.ModuleSchema, c.Keys[ecocredit.ModuleName])...)
	o.tables = append(o.tables, tablesOf(&data.ModuleSchema, c.Keys[data.ModuleName])...)
	sort.Slice(o.tables, func(i, j int) bool { return o.tables[i].Name < o.tables[j].Name })
	return o
}

// Snapshot is the decoded state: every ORM row of both modules, all bank
// balances and supplies.
type Snapshot struct {
	Height int64
	Time   time.Time

	TableNames []string
	Rows       map[string][]proto.Message

	CreditTypes   []*basev1.CreditType
	Classes       []*basev1.Class
	Issuers       []*basev1.ClassIssuer
	Projects      []*basev1.Project
	Batches       []*basev1.Batch
	ClassSeqs     []*basev1.ClassSequence
	ProjectSeqs   []*basev1.ProjectSequence
	BatchSeqs     []*basev1.BatchSequence
	Balances      []*basev1.BatchBalance
	Supplies      []*basev1.BatchSupply
	OriginTxs     []*basev1.OriginTxIndex
	Contracts     []*basev1.BatchContract
	Allowlist     *basev1.ClassCreatorAllowlist
	Creators      []*basev1.AllowedClassCreator
	ClassFee      *basev1.ClassFee
	BridgeChains  []*basev1.AllowedBridgeChain
	Baskets       []*basketv1.Basket
	BasketClasses []*basketv1.BasketClass
	BasketBals    []*basketv1.BasketBalance
	BasketFee     *basketv1.BasketFee
	Orders        []*marketv1.SellOrder
	AllowedDenoms []*marketv1.AllowedDenom
	Markets       []*marketv1.Market
	FeeParams     *marketv1.FeeParams
	DataIDs       []*datav1.DataID
	Anchors       []*datav1.DataAnchor
	Attestors     []*datav1.DataAttestor
	Resolvers     []*datav1.Resolver
	DataResolvers []*datav1.DataResolver

	Bank      map[string]map[string]*big.Int // address -> denom -> amount
	BankAddrs []string                       // sorted
	Supply    map[string]*big.Int
	Denoms    []string // sorted supply denoms
	Metadata  []banktypes.Metadata

	digest  []byte
	idx     *snapIndex
	rowKeys map[string]map[string]proto.Message
}

func (o *Observer) Take(c *Chain) *Snapshot {
	ctx := c.WorkCtx()
	return o.TakeCtx(c, ctx)
}

func (o *Observer) TakeCtx(c *Chain, ctx sdk.Context) *Snapshot {
	s := &Snapshot{Height: ctx.BlockHeight(), Time: ctx.BlockTime(), Rows: map[string][]proto.Message{}}
	gctx := sdk.WrapSDKContext(ctx)
	for _, th := range o.tables {
		s.TableNames = append(s.TableNames, th.Name)
		it, err := th.Table.List(gctx, nil)
		if err != nil {
			panic(fmt.Errorf("snapshot list %s: %w", th.Name, err))
		}
		var rows []proto.Message
		for it.Next() {
			m, err := it.GetMessage()
			if err != nil {
				it.Close()
				panic(fmt.Errorf("snapshot decode %s: %w", th.Name, err))
			}
			rows = append(rows, m)
			s.addTyped(m)
		}
		it.Close()
		s.Rows[th.Name] = rows
	}
	s.Bank = map[string]map[string]*big.Int{}
	c.BK.IterateAllBalances(ctx, func(a sdk.AccAddress, coin sdk.Coin) bool {
		as := a.String()
		m := s.Bank[as]
		if m == nil {
			m = map[string]*big.Int{}
			s.Bank[as] = m
		}
		m[coin.Denom] = new(big.Int).Set(coin.Amount.BigInt())
		return false
	})
	s.BankAddrs = sortedKeys(s.Bank)
	s.Supply = map[string]*big.Int{}
	c.BK.IterateTotalSupply(ctx, func(coin sdk.Coin) bool {
		s.Supply[coin.Denom] = new(big.Int).Set(coin.Amount.BigInt())
		return false
	})
	s.Denoms = sortedKeys(s.Supply)
	s.Metadata = c.BK.GetAllDenomMetaData(ctx)
	return s
}

func (s *Snapshot) addTyped(m proto.Message) {
	switch r := m.(type) {
	case *basev1.CreditType:
		s.CreditTypes = append(s.CreditTypes, r)
	case *basev1.Class:
		s.Classes = append(s.Classes, r)
	case *basev1.ClassIssuer:
		s.Issuers = append(s.Issuers, r)
	case *basev1.Project:
		s.Projects = append(s.Projects, r)
	case *basev1.Batch:
		s.Batches = append(s.Batches, r)
	case *basev1.ClassSequence:
		s.ClassSeqs = append(s.ClassSeqs, r)
	case *basev1.ProjectSequence:
		s.ProjectSeqs = append(s.ProjectSeqs, r)
	case *basev1.BatchSequence:
		s.BatchSeqs = append(s.BatchSeqs, r)
	case *basev1.BatchBalance:
		s.Balances = append(s.Balances, r)
	case *basev1.BatchSupply:
		s.Supplies = append(s.Supplies, r)
	case *basev1.OriginTxIndex:
		s.OriginTxs = append(s.OriginTxs, r)
	case *basev1.BatchContract:
		s.Contracts = append(s.Contracts, r)
	case *basev1.ClassCreatorAllowlist:
		s.Allowlist = r
	case *basev1.AllowedClassCreator:
		s.Creators = append(s.Creators, r)
	case *basev1.ClassFee:
		s.ClassFee = r
	case *basev1.AllowedBridgeChain:
		s.BridgeChains = append(s.BridgeChains, r)
	case *basketv1.Basket:
		s.Baskets = append(s.Baskets, r)
	case *basketv1.BasketClass:
		s.BasketClasses = append(s.BasketClasses, r)
	case *basketv1.BasketBalance:
		s.BasketBals = append(s.BasketBals, r)
	case *basketv1.BasketFee:
		s.BasketFee = r
	case *marketv1.SellOrder:
		s.Orders = append(s.Orders, r)
	case *marketv1.AllowedDenom:
		s.AllowedDenoms = append(s.AllowedDenoms, r)
	case *marketv1.Market:
		s.Markets = append(s.Markets, r)
	case *marketv1.FeeParams:
		s.FeeParams = r
	case *datav1.DataID:
		s.DataIDs = append(s.DataIDs, r)
	case *datav1.DataAnchor:
		s.Anchors = append(s.Anchors, r)
	case *datav1.DataAttestor:
		s.Attestors = append(s.Attestors, r)
	case *datav1.Resolver:
		s.Resolvers = append(s.Resolvers, r)
	case *datav1.DataResolver:
		s.DataResolvers = append(s.DataResolvers, r)
	}
}

var detMarshal = proto.MarshalOptions{Deterministic: true}

// Digest is a hash of the canonicalised decoded state.
func (s *Snapshot) Digest() []byte {
	if s.digest != nil {
		return s.digest
	}
	h := sha256.New()
	var lb [8]byte
	w := func(b []byte) {
		binary.BigEndian.PutUint64(lb[:], uint64(len(b)))
		h.Write(lb[:])
		h.Write(b)
	}
	for _, n := range s.TableNames {
		w([]byte(n))
		for _, r := range s.Rows[n] {
			bz, err := detMarshal.Marshal(r)
			if err != nil {
				panic(err)
			}
			w(bz)
		}
	}
	for _, a := range s.BankAddrs {
		w([]byte(a))
		for _, d := range sortedKeys(s.Bank[a]) {
			w([]byte(d))
			w([]byte(s.Bank[a][d].String()))
		}
	}
	for _, d := range s.Denoms {
		w([]byte(d))
		w([]byte(s.Supply[d].String()))
	}
	s.digest = h.Sum(nil)
	return s.digest
}

// ---- helpers ----------------------------------------------------------

func AddrStr(b []byte) string {
	if len(b) == 0 {
		return ""
	}
	return sdk.AccAddress(b).String()
}

func TsTime(t *timestamppb.Timestamp) time.Time {
	if t == nil {
		return time.Time{}
	}
	return time.Unix(t.Seconds, int64(t.Nanos)).UTC()
}

// BankBal returns the balance (zero if absent).
func (s *Snapshot) BankBal(addr, denom string) *big.Int {
	if m := s.Bank[addr]; m != nil {
		if v := m[denom]; v != nil {
			return v
		}
	}
	return new(big.Int)
}

func (s *Snapshot) SupplyOf(denom string) *big.Int {
	if v := s.Supply[denom]; v != nil {
		return v
	}
	return new(big.Int)
}

type balKey struct {
	Addr  string
	Batch uint64
}

type snapIndex struct {
	classByKey    map[uint64]*basev1.Class
	classByID     map[string]*basev1.Class
	projectByKey  map[uint64]*basev1.Project
	projectByID   map[string]*basev1.Project
	batchByKey    map[uint64]*basev1.Batch
	batchByDenom  map[string]*basev1.Batch
	ctByAbbrev    map[string]*basev1.CreditType
	bal           map[balKey]*basev1.BatchBalance
	supply        map[uint64]*basev1.BatchSupply
	basketByDenom map[string]*basketv1.Basket
	basketByID    map[uint64]*basketv1.Basket
	orderByID     map[uint64]*marketv1.SellOrder
	marketByID    map[uint64]*marketv1.Market
	contractByBat map[uint64]*basev1.BatchContract
}

func (s *Snapshot) ix() *snapIndex {
	if s.idx != nil {
		return s.idx
	}
	x := &snapIndex{
		classByKey: map[uint64]*basev1.Class{}, classByID: map[string]*basev1.Class{},
		projectByKey: map[uint64]*basev1.Project{}, projectByID: map[string]*basev1.Project{},
		batchByKey: map[uint64]*basev1.Batch{}, batchByDenom: map[string]*basev1.Batch{},
		ctByAbbrev: map[string]*basev1.CreditType{}, bal: map[balKey]*basev1.BatchBalance{},
		supply: map[uint64]*basev1.BatchSupply{}, basketByDenom: map[string]*basketv1.Basket{},
		basketByID: map[uint64]*basketv1.Basket{}, orderByID: map[uint64]*marketv1.SellOrder{},
		marketByID: map[uint64]*marketv1.Market{}, contractByBat: map[uint64]*basev1.BatchContract{},
	}
	for _, r := range s.Classes {
		x.classByKey[r.Key] = r
		x.classByID[r.Id] = r
	}
	for _, r := range s.Projects {
		x.projectByKey[r.Key] = r
		x.projectByID[r.Id] = r
	}
	for _, r := range s.Batches {
		x.batchByKey[r.Key] = r
		x.batchByDenom[r.Denom] = r
	}
	for _, r := range s.CreditTypes {
		x.ctByAbbrev[r.Abbreviation] = r
	}
	for _, r := range s.Balances {
		x.bal[balKey{AddrStr(r.Address), r.BatchKey}] = r
	}
	for _, r := range s.Supplies {
		x.supply[r.BatchKey] = r
	}
	for _, r := range s.Baskets {
		x.basketByDenom[r.BasketDenom] = r
		x.basketByID[r.Id] = r
	}
	for _, r := range s.Orders {
		x.orderByID[r.Id] = r
	}
	for _, r := range s.Markets {
		x.marketByID[r.Id] = r
	}
	for _, r := range s.Contracts {
		x.contractByBat[r.BatchKey] = r
	}
	s.idx = x
	return x
}

func (s *Snapshot) ClassByKey(k uint64) *basev1.Class       { return s.ix().classByKey[k] }
func (s *Snapshot) ClassByID(id string) *basev1.Class       { return s.ix().classByID[id] }
func (s *Snapshot) ProjectByKey(k uint64) *basev1.Project   { return s.ix().projectByKey[k] }
func (s *Snapshot) ProjectByID(id string) *basev1.Project   { return s.ix().projectByID[id] }
func (s *Snapshot) BatchByKey(k uint64) *basev1.Batch       { return s.ix().batchByKey[k] }
func (s *Snapshot) BatchByDenom(d string) *basev1.Batch     { return s.ix().batchByDenom[d] }
func (s *Snapshot) CreditType(a string) *basev1.CreditType  { return s.ix().ctByAbbrev[a] }
func (s *Snapshot) SupplyRow(k uint64) *basev1.BatchSupply  { return s.ix().supply[k] }
func (s *Snapshot) BasketByDenom(d string) *basketv1.Basket { return s.ix().basketByDenom[d] }
func (s *Snapshot) BasketByID(id uint64) *basketv1.Basket   { return s.ix().basketByID[id] }
func (s *Snapshot) OrderByID(id uint64) *marketv1.SellOrder { return s.ix().orderByID[id] }
func (s *Snapshot) MarketByID(id uint64) *marketv1.Market   { return s.ix().marketByID[id] }
func (s *Snapshot) ContractOf(batch uint64) *basev1.BatchContract {
	return s.ix().contractByBat[batch]
}
func (s *Snapshot) Balance(addr string, batch uint64) *basev1.BatchBalance {
	return s.ix().bal[balKey{addr, batch}]
}

// ClassOfBatch resolves batch -> project -> class (Batch.class_key is not
// populated by CreateBatch, so it is not used).
func (s *Snapshot) ClassOfBatch(b *basev1.Batch) *basev1.Class {
	p := s.ProjectByKey(b.ProjectKey)
	if p == nil {
		return nil
	}
	return s.ClassByKey(p.ClassKey)
}

// PrecisionOfBatch returns the precision of the credit type of the batch's class (or -1).
func (s *Snapshot) PrecisionOfBatch(b *basev1.Batch) int {
	cl := s.ClassOfBatch(b)
	if cl == nil {
		return -1
	}
	ct := s.CreditType(cl.CreditTypeAbbrev)
	if ct == nil {
		return -1
	}
	return int(ct.Precision)
}

func (s *Snapshot) IsIssuer(classKey uint64, addr string) bool {
	for _, r := range s.Issuers {
		if r.ClassKey == classKey && AddrStr(r.Issuer) == addr {
			return true
		}
	}
	return false
}

// RowMap returns rows of a table keyed by their deterministic encoding with
// non-key fields cleared. Keys are computed by table-specific primary key
// extraction through protoreflect on the ORM table descriptor.
func (s *Snapshot) RowMap(table string) map[string]proto.Message {
	if s.rowKeys == nil {
		s.rowKeys = map[string]map[string]proto.Message{}
	}
	if m, ok := s.rowKeys[table]; ok {
		return m
	}
	m := map[string]proto.Message{}
	for _, r := range s.Rows[table] {
		m[PrimaryKeyString(r)] = r
	}
	s.rowKeys[table] = m
	return m
}

var pkFieldsCache = map[protoreflect.FullName][]protoreflect.FieldDescriptor{}

// PrimaryKeyString renders the primary key of an ORM row as a string (for
// singletons: the empty string).
func PrimaryKeyString(m proto.Message) string {
	md := m.ProtoReflect().Descriptor()
	fds, ok := pkFieldsCache[md.FullName()]
	if !ok {
		fds = primaryKeyFields(md)
		pkFieldsCache[md.FullName()] = fds
	}
	var buf bytes.Buffer
	for i, fd := range fds {
		if i > 0 {
			buf.WriteByte('|')
		}
		v := m.ProtoReflect().Get(fd)
		switch fd.Kind() {
		case protoreflect.BytesKind:
			fmt.Fprintf(&buf, "%x", v.Bytes())
		case protoreflect.MessageKind:
			bz, _ := detMarshal.Marshal(v.Message().Interface())
			fmt.Fprintf(&buf, "%x", bz)
		default:
			fmt.Fprintf(&buf, "%v", v.Interface())
		}
	}
	return buf.String()
}

func primaryKeyFields(md protoreflect.MessageDescriptor) []protoreflect.FieldDescriptor {
	opts := md.Options()
	if opts == nil {
		return nil
	}
	td, _ := proto.GetExtension(opts, ormv1.E_Table).(*ormv1.TableDescriptor)
	if td == nil || td.PrimaryKey == nil {
		return nil
	}
	var out []protoreflect.FieldDescriptor
	for _, f := range splitComma(td.PrimaryKey.Fields) {
		fd := md.Fields().ByName(protoreflect.Name(f))
		if fd != nil {
			out = append(out, fd)
		}
	}
	return out
}

func splitComma(s string) []string {
	var out []string
	cur := ""
	for _, c := range s {
		if c == ',' {
			out = append(out, cur)
			cur = ""
		} else if c != ' ' {
			cur += string(c)
		}
	}
	if cur != "" {
		out = append(out, cur)
	}
	return out
}

// RowDiff describes one changed row between two snapshots.
type RowDiff struct {
	Table  string
	Key    string
	Before proto.Message // nil = inserted
	After  proto.Message // nil = deleted
}

// DiffRows lists all ORM row differences between a and b in table-name, key order.
func DiffRows(a, b *Snapshot) []RowDiff {
	var out []RowDiff
	for _, t := range a.TableNames {
		ra, rb := a.Rows[t], b.Rows[t]
		if len(ra) == len(rb) {
			same := true
			for i := range ra {
				if !proto.Equal(ra[i], rb[i]) {
					same = false
					break
				}
			}
			if same {
				continue
			}
		}
		ma, mb := a.RowMap(t), b.RowMap(t)
		for _, k := range sortedKeys(ma) {
			if vb, ok := mb[k]; !ok {
				out = append(out, RowDiff{t, k, ma[k], nil})
			} else if !proto.Equal(ma[k], vb) {
				out = append(out, RowDiff{t, k, ma[k], vb})
			}
		}
		for _, k := range sortedKeys(mb) {
			if _, ok := ma[k]; !ok {
				out = append(out, RowDiff{t, k, nil, mb[k]})
			}
		}
	}
	return out
}

// BankDiff is one changed bank balance (Addr set) or supply (Addr == "").
type BankDiff struct {
	Addr, Denom string
	Delta       *big.Int
}

func DiffBank(a, b *Snapshot) []BankDiff {
	var out []BankDiff
	addrs := map[string]bool{}
	for _, x := range a.BankAddrs {
		addrs[x] = true
	}
	for _, x := range b.BankAddrs {
		addrs[x] = true
	}
	for _, ad := range sortedKeys(addrs) {
		ds := map[string]bool{}
		for d := range a.Bank[ad] {
			ds[d] = true
		}
		for d := range b.Bank[ad] {
			ds[d] = true
		}
		for _, d := range sortedKeys(ds) {
			delta := new(big.Int).Sub(b.BankBal(ad, d), a.BankBal(ad, d))
			if delta.Sign() != 0 {
				out = append(out, BankDiff{ad, d, delta})
			}
		}
	}
	ds := map[string]bool{}
	for _, d := range a.Denoms {
		ds[d] = true
	}
	for _, d := range b.Denoms {
		ds[d] = true
	}
	for _, d := range sortedKeys(ds) {
		delta := new(big.Int).Sub(b.SupplyOf(d), a.SupplyOf(d))
		if delta.Sign() != 0 {
			out = append(out, BankDiff{"", d, delta})
		}
	}
	return out
}

// RawEqual compares two raw dumps; returns a description of the first difference.
func RawEqual(a, b []KV) (bool, string) {
	n := len(a)
	if len(b) < n {
		n = len(b)
	}
	for i := 0; i < n; i++ {
		if a[i].Store != b[i].Store || !bytes.Equal(a[i].K, b[i].K) {
			return false, fmt.Sprintf("key set differs at #%d: %s/%x vs %s/%x", i, a[i].Store, a[i].K, b[i].Store, b[i].K)
		}
		if !bytes.Equal(a[i].V, b[i].V) {
			return false, fmt.Sprintf("value differs at %s/%x: %x vs %x", a[i].Store, a[i].K, a[i].V, b[i].V)
		}
	}
	if len(a) != len(b) {
		return false, fmt.Sprintf("number of keys differs: %d vs %d", len(a), len(b))
	}
	return true, ""
}
