package engine

import (
	"bytes"
	"errors"
	"strings"

	dbm "github.com/cometbft/cometbft-db"
)

// SimDB is the simulated disk: an in-memory dbm.DB whose content is the
// durable image. Everything the SDK persists goes through batches written at
// Commit; SimDB can be armed so that the next commit is torn: only a chosen
// subset of the per-store batches reaches the image, the commit-info batch is
// lost, and the process "crashes" (panic with a private token).
type SimDB struct {
	*dbm.MemDB
	armed     *TornSpec
	batchIdx  int
	Applied   []string // owners of batches applied during the torn commit
	Dropped   []string
	Writes    int // total batch writes ever
	CrashFire int
	// OpenIterators: database iterators handed out and not (yet) closed
	OpenIterators int
}

// TornSpec describes a crash inside Commit.
type TornSpec struct {
	// Mask bit i set = the i-th per-store batch of the commit is applied.
	Mask uint64 `json:"mask"`
	// WriteErr: the failing write returns an error (disk full) instead of the
	// process dying on the spot; the SDK turns that into a panic.
	WriteErr bool `json:"write_err,omitempty"`
}

type crashToken struct{ what string }

func (c crashToken) Error() string { return "simulated crash: " + c.what }

// IsCrash tells whether a recovered panic value is the simulator's crash.
func IsCrash(r interface{}) bool {
	switch v := r.(type) {
	case crashToken:
		return true
	case error:
		var ct crashToken
		if errors.As(v, &ct) {
			return true
		}
		return strings.Contains(v.Error(), "simulated crash")
	case string:
		return strings.Contains(v, "simulated crash")
	}
	return false
}

func NewSimDB() *SimDB { return &SimDB{MemDB: dbm.NewMemDB()} }

func (d *SimDB) Arm(t *TornSpec) {
	d.armed = t
	d.batchIdx = 0
	d.Applied, d.Dropped = nil, nil
}
func (d *SimDB) Disarm() { d.armed = nil }

func (d *SimDB) NewBatch() dbm.Batch { return &simBatch{db: d} }

// Close is a no-op: the image must survive teardown of the app object graph.
func (d *SimDB) Close() error { return nil }

type batchOp struct {
	del  bool
	k, v []byte
}

type simBatch struct {
	db   *SimDB
	ops  []batchOp
	done bool
}

func (b *simBatch) Set(k, v []byte) error {
	if len(k) == 0 {
		return errors.New("empty key")
	}
	if v == nil {
		return errors.New("nil value")
	}
	b.ops = append(b.ops, batchOp{false, append([]byte{}, k...), append([]byte{}, v...)})
	return nil
}
func (b *simBatch) Delete(k []byte) error {
	if len(k) == 0 {
		return errors.New("empty key")
	}
	b.ops = append(b.ops, batchOp{true, append([]byte(nil), k...), nil})
	return nil
}

// owner classifies a batch: "store:<name>" for an IAVL store batch, "meta" for
// the rootmulti commit-info batch, "" for an empty batch.
func (b *simBatch) owner() string {
	if len(b.ops) == 0 {
		return ""
	}
	k := b.ops[0].k
	if bytes.HasPrefix(k, []byte("s/k:")) {
		rest := k[len("s/k:"):]
		if i := bytes.IndexByte(rest, '/'); i >= 0 {
			return "store:" + string(rest[:i])
		}
	}
	return "meta"
}

func (b *simBatch) apply() error {
	for _, op := range b.ops {
		if op.del {
			if err := b.db.MemDB.Delete(op.k); err != nil {
				return err
			}
		} else if err := b.db.MemDB.Set(op.k, op.v); err != nil {
			return err
		}
	}
	return nil
}

func (b *simBatch) Write() error {
	if b.done {
		return errors.New("batch already written")
	}
	b.done = true
	d := b.db
	d.Writes++
	if d.armed == nil {
		return b.apply()
	}
	own := b.owner()
	if own == "" {
		return nil
	}
	if own == "meta" {
		// the commit-info record never makes it: crash here.
		d.Dropped = append(d.Dropped, own)
		spec := d.armed
		d.armed = nil
		d.CrashFire++
		if spec.WriteErr {
			return crashToken{"disk write error at commit-info batch"}
		}
		panic(crashToken{"torn commit"})
	}
	i := d.batchIdx
	d.batchIdx++
	if d.armed.Mask&(1<<uint(i)) != 0 {
		d.Applied = append(d.Applied, own)
		return b.apply()
	}
	d.Dropped = append(d.Dropped, own)
	return nil
}

func (b *simBatch) WriteSync() error { return b.Write() }
func (b *simBatch) Close() error     { b.ops = nil; return nil }

// Clone copies the durable image (used to give replicas identical disks).
func (d *SimDB) Clone() *SimDB {
	n := NewSimDB()
	it, err := d.MemDB.Iterator(nil, nil)
	if err != nil {
		panic(err)
	}
	defer it.Close()
	for ; it.Valid(); it.Next() {
		_ = n.MemDB.Set(append([]byte{}, it.Key()...), append([]byte{}, it.Value()...))
	}
	return n
}

// Iterators. A MemDB iterator holds the database's read lock until it is closed, so one iterator
// that code under test forgets to close (a handler or an invariant that returns early) would block
// the next Commit forever — on a real disk it is a resource leak, not a deadlock. The simulated disk
// therefore hands out iterators over a copy of the range taken at creation time (the same snapshot
// semantics, no lock held afterwards). LeakedIterators counts those that were never closed.
type drainedIter struct {
	start, end []byte
	ks, vs     [][]byte
	i          int
	closed     *int
}

func (d *SimDB) drain(it dbm.Iterator, err error, start, end []byte) (dbm.Iterator, error) {
	if err != nil {
		return nil, err
	}
	di := &drainedIter{start: start, end: end, closed: &d.OpenIterators}
	for ; it.Valid(); it.Next() {
		di.ks = append(di.ks, append([]byte(nil), it.Key()...))
		di.vs = append(di.vs, append([]byte(nil), it.Value()...))
	}
	if e := it.Error(); e != nil {
		it.Close()
		return nil, e
	}
	it.Close()
	d.OpenIterators++
	return di, nil
}

func (d *SimDB) Iterator(start, end []byte) (dbm.Iterator, error) {
	it, err := d.MemDB.Iterator(start, end)
	return d.drain(it, err, start, end)
}

func (d *SimDB) ReverseIterator(start, end []byte) (dbm.Iterator, error) {
	it, err := d.MemDB.ReverseIterator(start, end)
	return d.drain(it, err, start, end)
}

func (it *drainedIter) Domain() ([]byte, []byte) { return it.start, it.end }
func (it *drainedIter) Valid() bool              { return it.i < len(it.ks) }
func (it *drainedIter) Next() {
	if !it.Valid() {
		panic("iterator is invalid")
	}
	it.i++
}
func (it *drainedIter) Key() []byte {
	if !it.Valid() {
		panic("iterator is invalid")
	}
	return it.ks[it.i]
}
func (it *drainedIter) Value() []byte {
	if !it.Valid() {
		panic("iterator is invalid")
	}
	return it.vs[it.i]
}
func (it *drainedIter) Error() error { return nil }
func (it *drainedIter) Close() error {
	if it.closed != nil {
		*it.closed--
		it.closed = nil
	}
	return nil
}
