package engine

import (
	"encoding/json"
	"fmt"
	"math/big"
	"strings"
	"time"

	abci "github.com/cometbft/cometbft/abci/types"

	basev1 "github.com/regen-network/regen-ledger/api/v2/regen/ecocredit/v1"
	"github.com/regen-network/regen-ledger/x/ecocredit/v3/base"
	basetypes "github.com/regen-network/regen-ledger/x/ecocredit/v3/base/types/v1"
	"github.com/regen-network/regen-ledger/x/ecocredit/v3/basket"
	baskettypes "github.com/regen-network/regen-ledger/x/ecocredit/v3/basket/types/v1"
)

// ---------------------------------------------------------------- C13

type originKey struct {
	Class      uint64
	ID, Source string
}
type contractKey struct {
	Class    uint64
	Contract string
}

type C13 struct {
	BaseChecker
	consumed map[originKey]string // -> entry point that consumed it
	// the same, with the source name lower-cased
	consumedFold map[originKey]foldSeen
	bound        map[contractKey]uint64
	// the same, with the hexadecimal digits of the contract address lower-cased (an Ethereum
	// address is a number: 0xABC… and 0xabc… name one contract)
	boundFold map[contractKey]foldBound
	nt        bool
}

type foldBound struct {
	batch    uint64
	spelling string
}

// bind records contract -> batch; false (after a violation) if the same contract under another
// letter case of its hexadecimal digits is already bound to another batch of the class.
func (c *C13) bind(w *World, k contractKey, batch uint64, via string) bool {
	fk := contractKey{k.Class, strings.ToLower(k.Contract)}
	if p, ok := c.boundFold[fk]; ok && p.spelling != k.Contract && p.batch != batch {
		w.Violate("R3", "contract-bound-to-two-batches/contract-differs-in-letter-case-only", "contract %s in class key %d is bound to batch key %d under the spelling %s, and %s binds it to batch key %d as well", k.Contract, k.Class, p.batch, p.spelling, via, batch)
		return false
	}
	c.bound[k] = batch
	if _, ok := c.boundFold[fk]; !ok {
		c.boundFold[fk] = foldBound{batch, k.Contract}
	}
	return true
}

func init() {
	RegisterChecker("C13", func() Checker {
		return &C13{consumed: map[originKey]string{}, consumedFold: map[originKey]foldSeen{}, bound: map[contractKey]uint64{}, boundFold: map[contractKey]foldBound{}}
	})
}
func (c *C13) ID() string { return "C13" }

type foldSeen struct{ via, source string }

func (c *C13) Init(w *World) {
	for _, o := range w.Cur.OriginTxs {
		c.consumed[originKey{o.ClassKey, o.Id, o.Source}] = "genesis"
		c.consumedFold[originKey{o.ClassKey, o.Id, strings.ToLower(o.Source)}] = foldSeen{"genesis", o.Source}
	}
	for _, bc := range w.Cur.Contracts {
		c.bound[contractKey{bc.ClassKey, bc.Contract}] = bc.BatchKey
		fk := contractKey{bc.ClassKey, strings.ToLower(bc.Contract)}
		if _, ok := c.boundFold[fk]; !ok {
			c.boundFold[fk] = foldBound{bc.BatchKey, bc.Contract}
		}
	}
}

// asciiFold lower-cases the 26 ASCII capitals and nothing else: "letter-case variants of chain names"
// are spellings of the same letters; what Unicode lower-casing additionally folds onto ASCII letters
// (KELVIN SIGN, dotted capital I) are other characters, not letter-case variants.
func asciiFold(s string) string {
	b := []byte(s)
	for i, c := range b {
		if c >= 'A' && c <= 'Z' {
			b[i] = c + 'a' - 'A'
		}
	}
	return string(b)
}

func chainAllowed(s *Snapshot, name string) bool {
	ln := asciiFold(name)
	for _, c := range s.BridgeChains {
		if c.ChainName == ln {
			return true
		}
	}
	return false
}

func classKeyOfBatch(s *Snapshot, b *basev1.Batch) (uint64, bool) {
	p := s.ProjectByKey(b.ProjectKey)
	if p == nil {
		return 0, false
	}
	return p.ClassKey, true
}

func (c *C13) consume(w *World, k originKey, via string) bool {
	if prev, dup := c.consumed[k]; dup {
		w.Violate("R1", "origin-tx-issued-twice", "origin tx (id %q, source %q) in class key %d was already used for issuance through %s and is accepted again through %s", k.ID, k.Source, k.Class, prev, via)
		return false
	}
	// The same transaction of the same chain under another letter case of the chain's name. For
	// bridged receipts the chain itself treats chain names case-insensitively (the allow-list
	// lookup lower-cases them), so "polygon" and "Polygon" are one source.
	fold := originKey{k.Class, k.ID, strings.ToLower(k.Source)}
	if p, dup := c.consumedFold[fold]; dup && p.source != k.Source && (via == "BridgeReceive" || p.via == "BridgeReceive") {
		w.Violate("R1", "origin-tx-issued-twice/source-differs-in-letter-case-only", "origin tx id %q of source chain %q in class key %d was already used for issuance through %s under the spelling %q and is accepted again through %s", k.ID, k.Source, k.Class, p.via, p.source, via)
		return false
	}
	c.consumed[k] = via
	c.consumedFold[fold] = foldSeen{via, k.Source}
	return true
}

func (c *C13) AfterTx(w *World, t *TxCtx) {
	if !t.Res.OK {
		// bookkeeping for non-triviality: a rejected replay through a different entry point
		for _, m := range t.Msgs {
			var ot *basetypes.OriginTx
			var via string
			var classKey uint64
			ok := false
			switch msg := m.(type) {
			case *basetypes.MsgCreateBatch:
				ot, via = msg.OriginTx, "CreateBatch"
				if p := t.Pre.ProjectByID(msg.ProjectId); p != nil {
					classKey, ok = p.ClassKey, true
				}
			case *basetypes.MsgMintBatchCredits:
				ot, via = msg.OriginTx, "MintBatchCredits"
				if b := t.Pre.BatchByDenom(msg.BatchDenom); b != nil {
					classKey, ok = classKeyOfBatch(t.Pre, b)
				}
			case *basetypes.MsgBridgeReceive:
				ot, via = msg.OriginTx, "BridgeReceive"
				if cl := t.Pre.ClassByID(msg.ClassId); cl != nil {
					classKey, ok = cl.Key, true
				}
			}
			if ot != nil && ok {
				if prev, dup := c.consumed[originKey{classKey, ot.Id, ot.Source}]; dup && prev != via && prev != "genesis" {
					c.nt = true
					w.Probe("c13_replay_rejected_other_entry_point")
				}
			}
		}
		return
	}
	pre, post := t.Pre, t.Post
	for i, m := range t.Msgs {
		switch msg := m.(type) {
		case *basetypes.MsgCreateBatch:
			if msg.OriginTx == nil {
				continue
			}
			resp, _ := respAt(t, i).(*basetypes.MsgCreateBatchResponse)
			if resp == nil {
				continue
			}
			b := post.BatchByDenom(resp.BatchDenom)
			if b == nil {
				continue
			}
			ck, ok := classKeyOfBatch(post, b)
			if !ok {
				continue
			}
			if !c.consume(w, originKey{ck, msg.OriginTx.Id, msg.OriginTx.Source}, "CreateBatch") {
				return
			}
			if msg.OriginTx.Contract != "" {
				k := contractKey{ck, msg.OriginTx.Contract}
				if other, dup := c.bound[k]; dup && other != b.Key {
					w.Violate("R3", "contract-bound-to-two-batches", "contract %s in class key %d is bound to batch %d and CreateBatch binds it again to batch %d", k.Contract, ck, other, b.Key)
					return
				}
				if !c.bind(w, k, b.Key, "CreateBatch") {
					return
				}
			}
		case *basetypes.MsgMintBatchCredits:
			if msg.OriginTx == nil {
				continue
			}
			b := post.BatchByDenom(msg.BatchDenom)
			if b == nil {
				continue
			}
			ck, ok := classKeyOfBatch(post, b)
			if !ok {
				continue
			}
			if !c.consume(w, originKey{ck, msg.OriginTx.Id, msg.OriginTx.Source}, "MintBatchCredits") {
				return
			}
		case *basetypes.MsgBridgeReceive:
			if msg.OriginTx == nil {
				continue
			}
			if !chainAllowed(pre, msg.OriginTx.Source) {
				w.Violate("R2", "bridge-receive-from-disallowed-chain", "BridgeReceive from source %q accepted although %q is not on the allowed bridge chain list", msg.OriginTx.Source, asciiFold(msg.OriginTx.Source))
				return
			}
			cl := pre.ClassByID(msg.ClassId)
			if cl == nil {
				cl = post.ClassByID(msg.ClassId)
			}
			if cl == nil {
				continue
			}
			resp, _ := respAt(t, i).(*basetypes.MsgBridgeReceiveResponse)
			if resp == nil {
				continue
			}
			b := post.BatchByDenom(resp.BatchDenom)
			if b == nil {
				w.Violate("R3", "bridge-receive-response-names-unknown-batch", "BridgeReceive answered batch %q which does not exist", resp.BatchDenom)
				return
			}
			if !c.consume(w, originKey{cl.Key, msg.OriginTx.Id, msg.OriginTx.Source}, "BridgeReceive") {
				return
			}
			k := contractKey{cl.Key, msg.OriginTx.Contract}
			if bk, ok := c.bound[k]; ok {
				if b.Key != bk {
					w.Violate("R3", "receipt-minted-into-other-batch", "contract %s is bound to batch key %d in class %s, but a later receipt for it was minted into batch %s (key %d)", k.Contract, bk, cl.Id, b.Denom, b.Key)
					return
				}
				// the credits must have arrived in exactly that batch
				amt, ok := ParseDec(msg.Batch.Amount)
				if ok {
					ps, ns := pre.SupplyRow(bk), post.SupplyRow(bk)
					if ps != nil && ns != nil && len(t.Msgs) == 1 {
						t0, _ := DecOrZero(ps.TradableAmount)
						t1, _ := DecOrZero(ns.TradableAmount)
						if RatSub(t1, t0).Cmp(amt) != 0 {
							w.Violate("R3", "receipt-amount-not-in-bound-batch", "receipt of %s for contract %s must mint into batch key %d; its tradable supply went %s -> %s", RatStr(amt), k.Contract, bk, RatStr(t0), RatStr(t1))
							return
						}
					}
				}
			} else {
				if pre.BatchByKey(b.Key) != nil {
					w.Violate("R3", "unbound-contract-minted-into-existing-batch", "contract %s was not bound in class %s, yet the receipt went into the already existing batch %s", k.Contract, cl.Id, b.Denom)
					return
				}
				if !c.bind(w, k, b.Key, "BridgeReceive") {
					return
				}
			}
		case *basetypes.MsgBridge:
			if !chainAllowed(pre, msg.Target) {
				w.Violate("R4", "bridge-to-disallowed-chain", "Bridge to target %q accepted although %q is not on the allowed bridge chain list", msg.Target, asciiFold(msg.Target))
				return
			}
			per := map[uint64]*big.Rat{}
			for j, cr := range msg.Credits {
				b := pre.BatchByDenom(cr.BatchDenom)
				if b == nil {
					b = post.BatchByDenom(cr.BatchDenom) // created earlier in this tx
				}
				if b == nil {
					w.Violate("R4", "bridge-of-unknown-batch", "Bridge credits[%d] names batch %q which does not exist", j, cr.BatchDenom)
					return
				}
				bc := pre.ContractOf(b.Key)
				if bc == nil && pre.BatchByKey(b.Key) == nil {
					bc = post.ContractOf(b.Key) // batch and binding created earlier in this tx
				}
				if bc == nil {
					w.Violate("R4", "bridge-of-batch-without-contract", "Bridge accepted for batch %s which has no bound contract", b.Denom)
					return
				}
				amt, ok := ParseDec(cr.Amount)
				if !ok {
					continue
				}
				if per[b.Key] == nil {
					per[b.Key] = new(big.Rat)
				}
				per[b.Key].Add(per[b.Key], amt)
				// event
				found := false
				for _, ev := range t.Res.Events {
					if ev.Type != "regen.ecocredit.v1.EventBridge" {
						continue
					}
					if evAttr(ev, "batch_denom") == cr.BatchDenom && evAttr(ev, "amount") == cr.Amount {
						found = true
						if got := evAttr(ev, "contract"); got != bc.Contract {
							w.Violate("R4", "bridge-event-wrong-contract", "EventBridge for batch %s reports contract %q, the batch's contract is %q", b.Denom, got, bc.Contract)
							return
						}
					}
				}
				if !found {
					w.Violate("R4", "bridge-event-missing", "no EventBridge for credits[%d] (batch %s, amount %s)", j, cr.BatchDenom, cr.Amount)
					return
				}
			}
			if len(t.Msgs) == 1 {
				for _, bk := range sortedU64(per) {
					ps, ns := pre.SupplyRow(bk), post.SupplyRow(bk)
					pb, nb := pre.Balance(t.Signer, bk), post.Balance(t.Signer, bk)
					if ps == nil || ns == nil || pb == nil || nb == nil {
						w.Violate("R4", "bridge-rows-missing", "Bridge of batch key %d: supply or owner balance row missing", bk)
						return
					}
					c0, _ := DecOrZero(ps.CancelledAmount)
					c1, _ := DecOrZero(ns.CancelledAmount)
					t0, _ := DecOrZero(pb.TradableAmount)
					t1, _ := DecOrZero(nb.TradableAmount)
					if RatSub(c1, c0).Cmp(per[bk]) != 0 || RatSub(t0, t1).Cmp(per[bk]) != 0 {
						w.Violate("R4", "bridge-cancelled-wrong-amount", "Bridge of %s credits of batch key %d: cancelled supply %s -> %s, owner tradable %s -> %s", RatStr(per[bk]), bk, RatStr(c0), RatStr(c1), RatStr(t0), RatStr(t1))
						return
					}
				}
			}
		}
	}
	// the stored bindings must be exactly the ghost bindings
	for _, bc := range post.Contracts {
		if bk, ok := c.bound[contractKey{bc.ClassKey, bc.Contract}]; !ok || bk != bc.BatchKey {
			w.Violate("R3", "stored-contract-binding-unexpected", "stored binding contract %s (class key %d) -> batch key %d does not follow from the accepted messages (expected %d, known=%v)", bc.Contract, bc.ClassKey, bc.BatchKey, bk, ok)
			return
		}
	}
	if len(post.Contracts) != len(c.bound) {
		w.Violate("R3", "contract-binding-lost", "%d contract bindings follow from the accepted messages but %d are stored", len(c.bound), len(post.Contracts))
	}
}

func (c *C13) NonTrivial(w *World) bool { return c.nt }

// evAttr returns a typed-event attribute with the JSON quoting removed.
func evAttr(ev abci.Event, key string) string {
	for _, a := range ev.Attributes {
		if a.Key == key {
			var s string
			if err := json.Unmarshal([]byte(a.Value), &s); err == nil {
				return s
			}
			return a.Value
		}
	}
	return ""
}

// ---------------------------------------------------------------- C14

type C14 struct {
	BaseChecker
	classSeq   map[string]uint64 // credit type abbrev -> next number
	projectSeq map[string]uint64 // class id -> next number
	batchSeq   map[string]uint64 // project id -> next number
	aborted    map[string]bool   // scope -> a creation was gas-aborted there
	nt         bool
}

func init() {
	RegisterChecker("C14", func() Checker {
		return &C14{classSeq: map[string]uint64{}, projectSeq: map[string]uint64{}, batchSeq: map[string]uint64{}, aborted: map[string]bool{}}
	})
}
func (c *C14) ID() string { return "C14" }

func (c *C14) Init(w *World) {
	s := w.Cur
	for _, r := range s.ClassSeqs {
		c.classSeq[r.CreditTypeAbbrev] = r.NextSequence
	}
	for _, r := range s.ProjectSeqs {
		if cl := s.ClassByKey(r.ClassKey); cl != nil {
			c.projectSeq[cl.Id] = r.NextSequence
		}
	}
	for _, r := range s.BatchSeqs {
		if p := s.ProjectByKey(r.ProjectKey); p != nil {
			c.batchSeq[p.Id] = r.NextSequence
		}
	}
	c.scan(w, s, "genesis")
}

func nextOf(m map[string]uint64, k string) uint64 {
	if v, ok := m[k]; ok && v > 0 {
		return v
	}
	return 1
}

func (c *C14) scan(w *World, s *Snapshot, what string) {
	// R2: uniqueness, format, validators, parsers
	seen := map[string]bool{}
	for _, cl := range s.Classes {
		if seen["c:"+cl.Id] {
			w.Violate("R2", "duplicate-class-id", "%s: class id %s exists twice", what, cl.Id)
			return
		}
		seen["c:"+cl.Id] = true
		if err := base.ValidateClassID(cl.Id); err != nil {
			w.Violate("R2", "class-id-rejected-by-validator", "%s: stored class id %q is rejected by ValidateClassID: %v", what, cl.Id, err)
			return
		}
		if got := base.GetCreditTypeAbbrevFromClassID(cl.Id); got != cl.CreditTypeAbbrev {
			w.Violate("R2", "class-id-parser-wrong-credit-type", "%s: GetCreditTypeAbbrevFromClassID(%q) = %q but the class row says %q", what, cl.Id, got, cl.CreditTypeAbbrev)
			return
		}
		if s.CreditType(cl.CreditTypeAbbrev) == nil {
			w.Violate("R3", "class-without-credit-type", "%s: class %s references credit type %q which does not exist", what, cl.Id, cl.CreditTypeAbbrev)
			return
		}
	}
	for _, p := range s.Projects {
		if seen["p:"+p.Id] {
			w.Violate("R2", "duplicate-project-id", "%s: project id %s exists twice", what, p.Id)
			return
		}
		seen["p:"+p.Id] = true
		if err := base.ValidateProjectID(p.Id); err != nil {
			w.Violate("R2", "project-id-rejected-by-validator", "%s: stored project id %q is rejected by ValidateProjectID: %v", what, p.Id, err)
			return
		}
		cl := s.ClassByKey(p.ClassKey)
		if cl == nil {
			w.Violate("R3", "project-without-class", "%s: project %s references class key %d which does not exist", what, p.Id, p.ClassKey)
			return
		}
		if got := base.GetClassIDFromProjectID(p.Id); got != cl.Id {
			w.Violate("R2", "project-id-parser-wrong-class", "%s: GetClassIDFromProjectID(%q) = %q but the project belongs to class %q", what, p.Id, got, cl.Id)
			return
		}
	}
	for _, b := range s.Batches {
		if seen["b:"+b.Denom] {
			w.Violate("R2", "duplicate-batch-denom", "%s: batch denom %s exists twice", what, b.Denom)
			return
		}
		seen["b:"+b.Denom] = true
		if err := base.ValidateBatchDenom(b.Denom); err != nil {
			w.Violate("R2", "batch-denom-rejected-by-validator", "%s: stored batch denom %q is rejected by ValidateBatchDenom: %v", what, b.Denom, err)
			return
		}
		p := s.ProjectByKey(b.ProjectKey)
		if p == nil {
			w.Violate("R3", "batch-without-project", "%s: batch %s references project key %d which does not exist", what, b.Denom, b.ProjectKey)
			return
		}
		cl := s.ClassByKey(p.ClassKey)
		if cl == nil {
			w.Violate("R3", "batch-project-without-class", "%s: batch %s -> project %s -> class key %d does not exist", what, b.Denom, p.Id, p.ClassKey)
			return
		}
		if got := base.GetProjectIDFromBatchDenom(b.Denom); got != p.Id {
			w.Violate("R2", "batch-denom-parser-wrong-project", "%s: GetProjectIDFromBatchDenom(%q) = %q but the batch belongs to project %q", what, b.Denom, got, p.Id)
			return
		}
		if got := base.GetClassIDFromBatchDenom(b.Denom); got != cl.Id {
			w.Violate("R2", "batch-denom-parser-wrong-class", "%s: GetClassIDFromBatchDenom(%q) = %q but the batch belongs to class %q", what, b.Denom, got, cl.Id)
			return
		}
	}
	for _, bk := range s.Baskets {
		if seen["k:"+bk.BasketDenom] || seen["n:"+bk.Name] {
			w.Violate("R2", "duplicate-basket", "%s: basket denom %s / name %s exists twice", what, bk.BasketDenom, bk.Name)
			return
		}
		seen["k:"+bk.BasketDenom], seen["n:"+bk.Name] = true, true
		if err := basket.ValidateBasketDenom(bk.BasketDenom); err != nil {
			w.Violate("R2", "basket-denom-rejected-by-validator", "%s: stored basket denom %q is rejected by ValidateBasketDenom: %v", what, bk.BasketDenom, err)
			return
		}
	}
	// R3: references
	for _, r := range s.Balances {
		if s.BatchByKey(r.BatchKey) == nil {
			w.Violate("R3", "balance-without-batch", "%s: balance of %s references batch key %d which does not exist", what, AddrStr(r.Address), r.BatchKey)
			return
		}
	}
	for _, r := range s.Supplies {
		if s.BatchByKey(r.BatchKey) == nil {
			w.Violate("R3", "supply-without-batch", "%s: supply row references batch key %d which does not exist", what, r.BatchKey)
			return
		}
	}
	for _, r := range s.Contracts {
		if s.BatchByKey(r.BatchKey) == nil {
			w.Violate("R3", "contract-without-batch", "%s: contract %s references batch key %d which does not exist", what, r.Contract, r.BatchKey)
			return
		}
	}
	for _, r := range s.Orders {
		if s.BatchByKey(r.BatchKey) == nil {
			w.Violate("R3", "order-without-batch", "%s: sell order %d references batch key %d which does not exist", what, r.Id, r.BatchKey)
			return
		}
		if s.MarketByID(r.MarketId) == nil {
			w.Violate("R3", "order-without-market", "%s: sell order %d references market %d which does not exist", what, r.Id, r.MarketId)
			return
		}
	}
	for _, r := range s.Issuers {
		if s.ClassByKey(r.ClassKey) == nil {
			w.Violate("R3", "issuer-without-class", "%s: issuer row references class key %d which does not exist", what, r.ClassKey)
			return
		}
	}
	for _, r := range s.BasketClasses {
		if s.BasketByID(r.BasketId) == nil {
			w.Violate("R3", "basket-class-without-basket", "%s: basket class row references basket %d which does not exist", what, r.BasketId)
			return
		}
		if s.ClassByID(r.ClassId) == nil {
			w.Violate("R3", "basket-class-without-class", "%s: basket %d allows class %q which does not exist", what, r.BasketId, r.ClassId)
			return
		}
	}
	for _, r := range s.BasketBals {
		if s.BasketByID(r.BasketId) == nil {
			w.Violate("R3", "basket-balance-without-basket", "%s: basket balance references basket %d which does not exist", what, r.BasketId)
			return
		}
		if s.BatchByDenom(r.BatchDenom) == nil {
			w.Violate("R3", "basket-balance-without-batch", "%s: basket %d holds batch %q which does not exist", what, r.BasketId, r.BatchDenom)
			return
		}
	}
}

func fmtDate(t *time.Time) string { return t.UTC().Format("20060102") }

func (c *C14) AfterBegin(w *World, b *BeginCtx)     { c.scan(w, b.Post, "BeginBlock") }
func (c *C14) AfterRestart(w *World, r *RestartCtx) { c.scan(w, r.Post, "restart("+r.Kind+")") }

func (c *C14) scopeSuccess(scope string) {
	if c.aborted[scope] {
		c.nt = true
	}
}

func (c *C14) AfterTx(w *World, t *TxCtx) {
	pre, post := t.Pre, t.Post
	if !t.Res.OK {
		if t.Res.OutOfGas() {
			for _, m := range t.Msgs {
				switch msg := m.(type) {
				case *basetypes.MsgCreateClass:
					c.aborted["ct:"+msg.CreditTypeAbbrev] = true
				case *basetypes.MsgCreateProject:
					c.aborted["cl:"+msg.ClassId] = true
				case *basetypes.MsgCreateBatch:
					c.aborted["pr:"+msg.ProjectId] = true
				}
			}
		}
		c.scan(w, post, "failed tx")
		return
	}
	// ids used by accepted messages must be byte-equal to stored ids (pre-state or created in this tx)
	existsClass := func(id string) bool { return pre.ClassByID(id) != nil || post.ClassByID(id) != nil }
	existsProject := func(id string) bool { return pre.ProjectByID(id) != nil || post.ProjectByID(id) != nil }
	existsBatch := func(d string) bool { return pre.BatchByDenom(d) != nil || post.BatchByDenom(d) != nil }
	createdProjects := map[string]bool{}
	for i, m := range t.Msgs {
		switch msg := m.(type) {
		case *basetypes.MsgCreateClass:
			resp, _ := respAt(t, i).(*basetypes.MsgCreateClassResponse)
			if resp == nil {
				continue
			}
			n := nextOf(c.classSeq, msg.CreditTypeAbbrev)
			want := fmt.Sprintf("%s%02d", msg.CreditTypeAbbrev, n)
			if resp.ClassId != want {
				w.Violate("R1", "class-number-not-consecutive", "creation number %d of credit type %s should be %s, the chain minted %s", n, msg.CreditTypeAbbrev, want, resp.ClassId)
				return
			}
			if post.ClassByID(resp.ClassId) == nil {
				w.Violate("R2", "minted-class-id-not-stored", "CreateClass answered %s but no such class exists", resp.ClassId)
				return
			}
			c.classSeq[msg.CreditTypeAbbrev] = n + 1
			c.scopeSuccess("ct:" + msg.CreditTypeAbbrev)
		case *basetypes.MsgCreateProject:
			resp, _ := respAt(t, i).(*basetypes.MsgCreateProjectResponse)
			if resp == nil {
				continue
			}
			if !existsClass(msg.ClassId) {
				w.Violate("R3", "accepted-message-names-unknown-class", "accepted CreateProject names class id %q which is not the id of any class", msg.ClassId)
				return
			}
			if !c.newProject(w, post, msg.ClassId, resp.ProjectId) {
				return
			}
			createdProjects[resp.ProjectId] = true
		case *basetypes.MsgCreateBatch:
			resp, _ := respAt(t, i).(*basetypes.MsgCreateBatchResponse)
			if resp == nil {
				continue
			}
			if !existsProject(msg.ProjectId) {
				w.Violate("R3", "accepted-message-names-unknown-project", "accepted CreateBatch names project id %q which is not the id of any project", msg.ProjectId)
				return
			}
			if !c.newBatch(w, post, msg.ProjectId, resp.BatchDenom, msg.StartDate, msg.EndDate) {
				return
			}
		case *basetypes.MsgBridgeReceive:
			resp, _ := respAt(t, i).(*basetypes.MsgBridgeReceiveResponse)
			if resp == nil {
				continue
			}
			if !existsClass(msg.ClassId) {
				w.Violate("R3", "accepted-message-names-unknown-class", "accepted BridgeReceive names class id %q which is not the id of any class", msg.ClassId)
				return
			}
			if pre.ProjectByID(resp.ProjectId) == nil && !createdProjects[resp.ProjectId] {
				if !c.newProject(w, post, msg.ClassId, resp.ProjectId) {
					return
				}
				createdProjects[resp.ProjectId] = true
			}
			if pre.BatchByDenom(resp.BatchDenom) == nil && !c.seenBatch(t, i, resp.BatchDenom) {
				if !c.newBatch(w, post, resp.ProjectId, resp.BatchDenom, msg.Batch.StartDate, msg.Batch.EndDate) {
					return
				}
			}
		case *basetypes.MsgMintBatchCredits:
			if !existsBatch(msg.BatchDenom) {
				w.Violate("R3", "accepted-message-names-unknown-batch", "accepted MintBatchCredits names batch %q which does not exist", msg.BatchDenom)
				return
			}
		case *basetypes.MsgSend:
			for _, cr := range msg.Credits {
				if !existsBatch(cr.BatchDenom) {
					w.Violate("R3", "accepted-message-names-unknown-batch", "accepted Send names batch %q which does not exist", cr.BatchDenom)
					return
				}
			}
		case *basetypes.MsgRetire:
			for _, cr := range msg.Credits {
				if !existsBatch(cr.BatchDenom) {
					w.Violate("R3", "accepted-message-names-unknown-batch", "accepted Retire names batch %q which does not exist", cr.BatchDenom)
					return
				}
			}
		case *baskettypes.MsgPut:
			for _, cr := range msg.Credits {
				if !existsBatch(cr.BatchDenom) {
					w.Violate("R3", "accepted-message-names-unknown-batch", "accepted Put names batch %q which does not exist", cr.BatchDenom)
					return
				}
			}
		case *baskettypes.MsgCreate:
			resp, _ := respAt(t, i).(*baskettypes.MsgCreateResponse)
			if resp == nil {
				continue
			}
			if post.BasketByDenom(resp.BasketDenom) == nil {
				w.Violate("R2", "minted-basket-denom-not-stored", "basket Create answered %s but no such basket exists", resp.BasketDenom)
				return
			}
			for _, cid := range msg.AllowedClasses {
				if !existsClass(cid) {
					w.Violate("R3", "accepted-message-names-unknown-class", "accepted basket Create allows class id %q which is not the id of any class", cid)
					return
				}
			}
		}
	}
	c.scan(w, post, "tx["+t.Step.Note+"]")
}

// projects/batches created earlier in the same tx are tracked through the ghost counters
func (c *C14) seenBatch(t *TxCtx, upto int, denom string) bool {
	for j := 0; j < upto; j++ {
		switch r := respAt(t, j).(type) {
		case *basetypes.MsgCreateBatchResponse:
			if r.BatchDenom == denom {
				return true
			}
		case *basetypes.MsgBridgeReceiveResponse:
			if r.BatchDenom == denom {
				return true
			}
		}
	}
	return false
}

func (c *C14) newProject(w *World, post *Snapshot, classID, got string) bool {
	n := nextOf(c.projectSeq, classID)
	want := fmt.Sprintf("%s-%03d", classID, n)
	if got != want {
		w.Violate("R1", "project-number-not-consecutive", "creation number %d in class %s should be %s, the chain minted %s", n, classID, want, got)
		return false
	}
	if post.ProjectByID(got) == nil {
		w.Violate("R2", "minted-project-id-not-stored", "project creation answered %s but no such project exists", got)
		return false
	}
	c.projectSeq[classID] = n + 1
	c.scopeSuccess("cl:" + classID)
	return true
}

func (c *C14) newBatch(w *World, post *Snapshot, projectID, got string, start, end *time.Time) bool {
	n := nextOf(c.batchSeq, projectID)
	if start == nil || end == nil {
		return true
	}
	want := fmt.Sprintf("%s-%s-%s-%03d", projectID, fmtDate(start), fmtDate(end), n)
	if got != want {
		w.Violate("R1", "batch-number-not-consecutive-or-malformed", "batch number %d of project %s should be named %s, the chain minted %s", n, projectID, want, got)
		return false
	}
	if post.BatchByDenom(got) == nil {
		w.Violate("R2", "minted-batch-denom-not-stored", "batch creation answered %s but no such batch exists", got)
		return false
	}
	c.batchSeq[projectID] = n + 1
	c.scopeSuccess("pr:" + projectID)
	return true
}

func (c *C14) NonTrivial(w *World) bool { return c.nt }
