package engine

import (
	"encoding/json"
	"fmt"
	"time"

	basev1beta1 "cosmossdk.io/api/cosmos/base/v1beta1"
	authtypes "github.com/cosmos/cosmos-sdk/x/auth/types"
	govtypes "github.com/cosmos/cosmos-sdk/x/gov/types"
	"google.golang.org/protobuf/encoding/protojson"
	"google.golang.org/protobuf/proto"

	basketv1 "github.com/regen-network/regen-ledger/api/v2/regen/ecocredit/basket/v1"
	marketv1 "github.com/regen-network/regen-ledger/api/v2/regen/ecocredit/marketplace/v1"
	basev1 "github.com/regen-network/regen-ledger/api/v2/regen/ecocredit/v1"
	datamodule "github.com/regen-network/regen-ledger/x/data/v3/module"
	ecomodule "github.com/regen-network/regen-ledger/x/ecocredit/v3/module"
)

func govAddr() []byte { return authtypes.NewModuleAddress(govtypes.ModuleName) }

// GenesisBuilder assembles an ORM genesis JSON document.
type GenesisBuilder struct {
	rows  map[string][]proto.Message
	seqs  map[string]uint64
	singl map[string]proto.Message
}

func NewGenesisBuilder() *GenesisBuilder {
	return &GenesisBuilder{rows: map[string][]proto.Message{}, seqs: map[string]uint64{}, singl: map[string]proto.Message{}}
}

func (b *GenesisBuilder) Add(m proto.Message) {
	n := string(m.ProtoReflect().Descriptor().FullName())
	b.rows[n] = append(b.rows[n], m)
}
func (b *GenesisBuilder) Singleton(m proto.Message) {
	b.singl[string(m.ProtoReflect().Descriptor().FullName())] = m
}
func (b *GenesisBuilder) Seq(m proto.Message, seq uint64) {
	b.seqs[string(m.ProtoReflect().Descriptor().FullName())] = seq
}

var pjson = protojson.MarshalOptions{UseProtoNames: true, EmitUnpopulated: false}

// JSON merges the builder's content over a base document (the module default).
func (b *GenesisBuilder) JSON(base json.RawMessage) json.RawMessage {
	doc := map[string]json.RawMessage{}
	if err := json.Unmarshal(base, &doc); err != nil {
		panic(err)
	}
	for _, n := range sortedKeys(b.rows) {
		var arr []json.RawMessage
		if s, ok := b.seqs[n]; ok && s != 0 {
			arr = append(arr, json.RawMessage(fmt.Sprint(s)))
		}
		for _, m := range b.rows[n] {
			bz, err := pjson.Marshal(m)
			if err != nil {
				panic(err)
			}
			arr = append(arr, CanonJSON(bz))
		}
		bz, _ := json.Marshal(arr)
		doc[n] = bz
	}
	for _, n := range sortedKeys(b.singl) {
		bz, err := pjson.Marshal(b.singl[n])
		if err != nil {
			panic(err)
		}
		doc[n] = CanonJSON(bz)
	}
	out, _ := json.Marshal(doc)
	return out
}

func coinPB(denom, amt string) *basev1beta1.Coin { return &basev1beta1.Coin{Denom: denom, Amount: amt} }

// Denoms used by the workload.
var workDenoms = []string{"uregen", "uusd", "ufoo", "stake"}

// extraDenoms: valid bank denoms of other shapes: one that extends another
// denom ("uusd" is a prefix of "uusdc"), an IBC voucher, a case variant.
var extraDenoms = []string{"uusdc", "ibc/27394FB092D2ECCD56123C74F36E4C1F926001CEADA9CA97EA622B25F41E5EB2", "uUSD"}

func (g *Gen) anyDenom() string {
	if g.R.Chance(0.25) {
		return Pick(g.R, extraDenoms)
	}
	return Pick(g.R, workDenoms)
}

type feeChoice struct{ denom, amt string }

var classFeeChoices = []*feeChoice{nil, {"stake", "20000000"}, {"uregen", "1000"}, {"uusd", "1"}}

func (g *Gen) buildGenesis() *GenesisDoc {
	enc := GetEncoding()
	r := g.R
	t0 := time.Date(2150, 3, 1, 0, 0, 0, 0, time.UTC).Add(time.Duration(r.Int63n(int64(40*365*24*time.Hour))) + time.Duration(r.Intn(1e9)))
	doc := &GenesisDoc{Time: t0}
	b := NewGenesisBuilder()
	b.Add(&basev1.CreditType{Abbreviation: "C", Name: "carbon", Unit: "metric ton CO2 equivalent", Precision: 6})
	if r.Chance(0.7) {
		b.Add(&basev1.CreditType{Abbreviation: "BIO", Name: "biodiversity", Unit: "ha", Precision: 6})
	}
	if r.Chance(0.4) {
		b.Add(&basev1.CreditType{Abbreviation: "KSH", Name: "kilo-sheep-hour", Unit: "ksh", Precision: 6})
	}
	if r.Chance(0.3) {
		// abbreviations that are string prefixes of one another
		b.Add(&basev1.CreditType{Abbreviation: "CA", Name: "carbon-avoided", Unit: "t", Precision: 6})
		if r.Chance(0.5) {
			b.Add(&basev1.CreditType{Abbreviation: "B", Name: "bees", Unit: "hive", Precision: 6})
		}
	}
	zeroFees := g.P.GenesisK == "zerofee"
	if f := Pick(r, classFeeChoices); f != nil {
		b.Singleton(&basev1.ClassFee{Fee: coinPB(f.denom, f.amt)})
	} else {
		b.Singleton(&basev1.ClassFee{})
	}
	if f := Pick(r, classFeeChoices); f != nil {
		b.Singleton(&basketv1.BasketFee{Fee: coinPB(f.denom, f.amt)})
	} else {
		b.Singleton(&basketv1.BasketFee{})
	}
	if zeroFees {
		if r.Chance(0.5) {
			b.Singleton(&basev1.ClassFee{Fee: coinPB("stake", "0")})
		} else {
			b.Singleton(&basketv1.BasketFee{Fee: coinPB("stake", "0")})
		}
	}
	allow := r.Chance(0.2)
	b.Singleton(&basev1.ClassCreatorAllowlist{Enabled: allow})
	for _, a := range g.Actors {
		if r.Chance(0.5) {
			b.Add(&basev1.AllowedClassCreator{Address: a.Acc})
		}
	}
	b.Add(&marketv1.AllowedDenom{BankDenom: "uregen", DisplayDenom: "regen", Exponent: 6})
	if r.Chance(0.8) {
		b.Add(&marketv1.AllowedDenom{BankDenom: "uusd", DisplayDenom: "usd", Exponent: 6})
	}
	fp := Pick(r, [][2]string{{"", ""}, {"", ""}, {"0.01", "0.02"}, {"0.05", ""}, {"", "0.1"}, {"0.000001", "0.999999"}, {"0.333333333", "0.5"}, {"1", "1"}})
	if g.P.GenesisK == "feeedge" {
		fp = Pick(r, [][2]string{{"0", "0"}, {"0.0", ""}, {"", "0"}, {"1.5", "0.5"}, {"0.1", "1"}})
	}
	b.Singleton(&marketv1.FeeParams{BuyerPercentageFee: fp[0], SellerPercentageFee: fp[1]})
	if r.Chance(0.8) {
		b.Add(&basev1.AllowedBridgeChain{ChainName: "polygon"})
		if g.R.Chance(0.4) {
			b.Add(&basev1.AllowedBridgeChain{ChainName: "kava"})
		}
	}
	if r.Chance(0.2) {
		b.Add(&basev1.AllowedBridgeChain{ChainName: "ethereum"})
	}
	if g.P.GenesisK == "seeded" {
		g.seedGenesis(b)
	}
	doc.Eco = b.JSON(ecomodule.Module{}.DefaultGenesis(enc.Cdc))
	doc.Data = datamodule.Module{}.DefaultGenesis(enc.Cdc)
	// funding
	for i, a := range g.Actors {
		coins := ""
		for _, d := range append(append([]string{}, workDenoms...), extraDenoms...) {
			amt := "1000000000000"
			switch {
			case i == len(g.Actors)-1 && r.Chance(0.5):
				amt = fmt.Sprint(r.Range(1, 30000000)) // a poor actor
			case g.P.WideW > 0 && r.Chance(0.3):
				amt = "1" + fmt.Sprintf("%0*d", r.Range(25, 45), 0)
			}
			if coins != "" {
				coins += ","
			}
			coins += amt + d
		}
		doc.Balances = append(doc.Balances, GenesisBalance{Addr: a.Addr, Coins: coins})
	}
	return doc
}

// seedGenesis adds classes / projects / sequences at chosen numbers so that
// ids which are string prefixes of each other coexist and numbering crosses
// the zero-padded width.
func (g *Gen) seedGenesis(b *GenesisBuilder) {
	r := g.R
	nums := []uint64{9, 10, 99, 100, 999, 1000}
	a0 := g.Actors[0]
	a1 := g.Actors[r.Intn(len(g.Actors))]
	n1 := Pick(r, []uint64{1, 10})
	n2 := n1 * 10
	if r.Chance(0.5) {
		n2 = n1*10 + 1
	}
	// two classes whose ids are prefixes of one another: C01/C010?? -> C1 is "C01"; use 10 and 100/101
	if n1 == 1 {
		n1, n2 = 10, Pick(r, []uint64{100, 101, 109})
	}
	c1 := &basev1.Class{Key: 1, Id: fmt.Sprintf("C%02d", n1), Admin: a0.Acc, Metadata: "seed", CreditTypeAbbrev: "C"}
	c2 := &basev1.Class{Key: 2, Id: fmt.Sprintf("C%02d", n2), Admin: a1.Acc, Metadata: "seed2", CreditTypeAbbrev: "C"}
	b.Add(c1)
	b.Add(c2)
	b.Seq(c1, 2)
	b.Add(&basev1.ClassIssuer{ClassKey: 1, Issuer: a0.Acc})
	b.Add(&basev1.ClassIssuer{ClassKey: 2, Issuer: a1.Acc})
	b.Add(&basev1.ClassIssuer{ClassKey: 2, Issuer: a0.Acc})
	next := n2 + 1
	if r.Chance(0.5) {
		next = Pick(r, nums)
		if next <= n2 {
			next = n2 + 1
		}
	}
	b.Add(&basev1.ClassSequence{CreditTypeAbbrev: "C", NextSequence: next})
	// projects with prefix-colliding ids in class 1
	pn := Pick(r, []uint64{1, 10, 99})
	p1 := &basev1.Project{Key: 1, Id: fmt.Sprintf("%s-%03d", c1.Id, pn), Admin: a0.Acc, ClassKey: 1, Jurisdiction: "US", Metadata: "p", ReferenceId: "R1"}
	p2 := &basev1.Project{Key: 2, Id: fmt.Sprintf("%s-%03d", c1.Id, pn*10+uint64(r.Intn(2))*1000), Admin: a1.Acc, ClassKey: 1, Jurisdiction: "KE", Metadata: "p2", ReferenceId: ""}
	b.Add(p1)
	b.Add(p2)
	b.Seq(p1, 2)
	pnext := Pick(r, nums)
	for pnext <= pn*10+1000 && pnext < 1000 {
		pnext *= 10
	}
	if pnext <= pn*10+1000 {
		pnext = pn*10 + 1001
	}
	b.Add(&basev1.ProjectSequence{ClassKey: 1, NextSequence: pnext})
	b.Add(&basev1.BatchSequence{ProjectKey: 1, NextSequence: Pick(r, nums)})
	if r.Chance(0.5) {
		b.Add(&basev1.ClassSequence{CreditTypeAbbrev: "BIO", NextSequence: Pick(r, nums)})
	}
}
