package engine

import (
	"fmt"
	"math/big"
	"sort"

	basketv1 "github.com/regen-network/regen-ledger/api/v2/regen/ecocredit/basket/v1"
	basetypes "github.com/regen-network/regen-ledger/x/ecocredit/v3/base/types/v1"
	baskettypes "github.com/regen-network/regen-ledger/x/ecocredit/v3/basket/types/v1"
)

// ---------------------------------------------------------------- C11

type C11 struct {
	BaseChecker
	firstPut map[uint64]map[string]int // basket -> batch denom -> step of first deposit
	nt       bool
	// ghost: the date criterion of each basket as set by its Create message / the accepted
	// UpdateDateCriteria messages (rendered canonically; "" = none)
	crit map[string]string
}

func init() {
	RegisterChecker("C11", func() Checker { return &C11{firstPut: map[uint64]map[string]int{}, crit: map[string]string{}} })
}

// critKey renders a criterion canonically: exactly what is set, nothing else.
func critKey(minSet bool, minS int64, minN int32, winSet bool, winS int64, winN int32, years uint32) string {
	out := ""
	if minSet {
		out += fmt.Sprintf("min=%d.%09d;", minS, minN)
	}
	if winSet {
		out += fmt.Sprintf("window=%d.%09d;", winS, winN)
	}
	if years != 0 {
		out += fmt.Sprintf("years=%d;", years)
	}
	return out
}

func critOfState(bk *basketv1.Basket) string {
	dc := bk.DateCriteria
	if dc == nil {
		return ""
	}
	var ms, ws int64
	var mn, wn int32
	if dc.MinStartDate != nil {
		ms, mn = dc.MinStartDate.Seconds, dc.MinStartDate.Nanos
	}
	if dc.StartDateWindow != nil {
		ws, wn = dc.StartDateWindow.Seconds, dc.StartDateWindow.Nanos
	}
	return critKey(dc.MinStartDate != nil, ms, mn, dc.StartDateWindow != nil, ws, wn, dc.YearsInThePast)
}

func critOfMsg(dc *baskettypes.DateCriteria) string {
	if dc == nil {
		return ""
	}
	var ms, ws int64
	var mn, wn int32
	if dc.MinStartDate != nil {
		ms, mn = dc.MinStartDate.Seconds, dc.MinStartDate.Nanos
	}
	if dc.StartDateWindow != nil {
		ws, wn = dc.StartDateWindow.Seconds, dc.StartDateWindow.Nanos
	}
	return critKey(dc.MinStartDate != nil, ms, mn, dc.StartDateWindow != nil, ws, wn, dc.YearsInThePast)
}

func (c *C11) Init(w *World) {
	for _, bk := range w.Cur.Baskets {
		c.crit[bk.BasketDenom] = critOfState(bk)
	}
}
func (c *C11) ID() string { return "C11" }

func basketBalsOf(s *Snapshot, id uint64) []*basketv1.BasketBalance {
	var out []*basketv1.BasketBalance
	for _, bb := range s.BasketBals {
		if bb.BasketId == id {
			out = append(out, bb)
		}
	}
	return out
}

func (c *C11) AfterTx(w *World, t *TxCtx) {
	pre, post := t.Pre, t.Post
	single := len(t.Msgs) == 1
	// R2: liveness, probes only
	if t.Step.Probe && single && t.Step.Gas == 0 && t.Step.BankFault == nil && !t.Res.OK {
		if put, ok := t.Msgs[0].(*baskettypes.MsgPut); ok {
			if holds, _, judged := PrecondsHold(pre, t.BlockTime, t.Signer, put); judged && holds {
				w.Violate("R2", "admissible-put-rejected", "Put of %v into %s by %s was rejected although the class is allowed, the credit type matches, the start date satisfies the criterion at block time %s and the owner has the credits: %s",
					put.Credits, put.BasketDenom, t.Signer, FmtTime(t.BlockTime), firstLine(t.Res.Log))
				return
			}
		}
	}
	if !t.Res.OK {
		return
	}
	// the stored criterion of every basket is what its Create / the accepted updates set
	for i, m := range t.Msgs {
		switch msg := m.(type) {
		case *baskettypes.MsgCreate:
			if r, _ := respAt(t, i).(*baskettypes.MsgCreateResponse); r != nil {
				c.crit[r.BasketDenom] = critOfMsg(msg.DateCriteria)
			}
		case *baskettypes.MsgUpdateDateCriteria:
			c.crit[msg.Denom] = critOfMsg(msg.NewDateCriteria)
		}
	}
	for _, bk := range post.Baskets {
		if want, ok := c.crit[bk.BasketDenom]; ok && want != critOfState(bk) {
			w.Violate("R1", "stored-date-criterion-differs-from-what-was-set", "basket %s: stored date criterion %q, its Create / the accepted UpdateDateCriteria messages set %q (a stale or extra field decides admission)", bk.BasketDenom, critOfState(bk), want)
			return
		}
	}
	for i, m := range t.Msgs {
		switch msg := m.(type) {
		case *baskettypes.MsgPut:
			bk := pre.BasketByDenom(msg.BasketDenom)
			if bk == nil {
				bk = post.BasketByDenom(msg.BasketDenom) // created earlier in this tx
			}
			if bk == nil {
				w.Violate("R1", "put-into-unknown-basket", "Put into %s accepted but no such basket exists", msg.BasketDenom)
				return
			}
			for _, cr := range msg.Credits {
				b := pre.BatchByDenom(cr.BatchDenom)
				src := pre
				if b == nil {
					b, src = post.BatchByDenom(cr.BatchDenom), post
				}
				if b == nil {
					w.Violate("R1", "put-of-unknown-batch", "Put of batch %s accepted but no such batch exists", cr.BatchDenom)
					return
				}
				// basket rows (classes, criteria) as of the pre-state unless the basket is new
				bsrc := pre
				if pre.BasketByDenom(msg.BasketDenom) == nil {
					bsrc = post
				}
				cl := src.ClassOfBatch(b)
				if cl == nil {
					continue
				}
				if !basketHasClass(bsrc, bk, cl.Id) {
					w.Violate("R1", "put-of-class-not-allowed", "Put of batch %s into %s accepted although class %s is not on the basket's allowed list", b.Denom, bk.BasketDenom, cl.Id)
					return
				}
				if cl.CreditTypeAbbrev != bk.CreditTypeAbbrev {
					w.Violate("R1", "put-of-other-credit-type", "Put of batch %s (credit type %s) into %s (credit type %s) accepted", b.Denom, cl.CreditTypeAbbrev, bk.BasketDenom, bk.CreditTypeAbbrev)
					return
				}
				if !criterionOK(bk, b, t.BlockTime) {
					w.Violate("R1", "put-of-too-old-batch", "Put of batch %s (start date %s) into %s accepted at block time %s although the basket's date criterion %s excludes it", b.Denom, FmtTime(TsTime(b.StartDate)), bk.BasketDenom, FmtTime(t.BlockTime), describeCriteria(bk))
					return
				}
				if c.firstPut[bk.Id] == nil {
					c.firstPut[bk.Id] = map[string]int{}
				}
				if _, ok := c.firstPut[bk.Id][b.Denom]; !ok {
					c.firstPut[bk.Id][b.Denom] = t.StepIdx
				}
			}
		case *baskettypes.MsgTake:
			bk := pre.BasketByDenom(msg.BasketDenom)
			if bk == nil || !single {
				continue
			}
			if !msg.RetireOnTake && !bk.DisableAutoRetire {
				w.Violate("R4", "take-without-retire-from-auto-retire-basket", "Take with retire_on_take=false from %s accepted although the basket has auto-retire enabled", bk.BasketDenom)
				return
			}
			// R3: drained oldest start date first
			type ent struct {
				denom         string
				start         *big.Int
				before, after *big.Rat
			}
			var ents []ent
			for _, bb := range basketBalsOf(pre, bk.Id) {
				v0, _ := DecOrZero(bb.Balance)
				v1 := new(big.Rat)
				for _, nb := range basketBalsOf(post, bk.Id) {
					if nb.BatchDenom == bb.BatchDenom {
						v1, _ = DecOrZero(nb.Balance)
					}
				}
				// the batch's own start date (Batch table), not the copy kept in the basket balance row
				st := big.NewInt(0)
				if b := pre.BatchByDenom(bb.BatchDenom); b != nil && b.StartDate != nil {
					st = tsNanos(b.StartDate.Seconds, b.StartDate.Nanos)
				} else if bb.BatchStartDate != nil {
					st = tsNanos(bb.BatchStartDate.Seconds, bb.BatchStartDate.Nanos)
				}
				ents = append(ents, ent{bb.BatchDenom, st, v0, v1})
			}
			sort.SliceStable(ents, func(a, b int) bool { return ents[a].start.Cmp(ents[b].start) < 0 })
			touched := 0
			for a := range ents {
				if ents[a].after.Cmp(ents[a].before) > 0 {
					w.Violate("R3", "take-increased-basket-balance", "Take from %s increased the basket's balance of %s", bk.BasketDenom, ents[a].denom)
					return
				}
				if ents[a].after.Cmp(ents[a].before) < 0 {
					touched++
					for b := 0; b < len(ents); b++ {
						if ents[b].start.Cmp(ents[a].start) < 0 && ents[b].after.Sign() != 0 {
							w.Violate("R3", "take-not-oldest-first", "Take from %s handed out credits of %s (start %s ns) while %s with an earlier start date (%s ns) still has %s in the basket", bk.BasketDenom, ents[a].denom, ents[a].start, ents[b].denom, ents[b].start, RatStr(ents[b].after))
							return
						}
					}
				}
			}
			// the response lists what was taken, and the taker received it (retired iff retire applies)
			resp, _ := respAt(t, i).(*baskettypes.MsgTakeResponse)
			got := ratMap{}
			if resp != nil {
				for _, cr := range resp.Credits {
					v, _ := DecOrZero(cr.Amount)
					got.add(cr.BatchDenom, v)
				}
			}
			for _, e := range ents {
				taken := RatSub(e.before, e.after)
				g := got[e.denom]
				if g == nil {
					g = new(big.Rat)
				}
				if resp != nil && g.Cmp(taken) != 0 {
					w.Violate("R3", "take-response-differs-from-released", "Take from %s: basket released %s of %s but the response lists %s", bk.BasketDenom, RatStr(taken), e.denom, RatStr(g))
					return
				}
				if taken.Sign() == 0 {
					continue
				}
				b := pre.BatchByDenom(e.denom)
				if b == nil {
					continue
				}
				pt, pr := new(big.Rat), new(big.Rat)
				if pb := pre.Balance(t.Signer, b.Key); pb != nil {
					pt, _ = DecOrZero(pb.TradableAmount)
					pr, _ = DecOrZero(pb.RetiredAmount)
				}
				nt_, nr := new(big.Rat), new(big.Rat)
				if nb := post.Balance(t.Signer, b.Key); nb != nil {
					nt_, _ = DecOrZero(nb.TradableAmount)
					nr, _ = DecOrZero(nb.RetiredAmount)
				}
				dT, dR := RatSub(nt_, pt), RatSub(nr, pr)
				if !bk.DisableAutoRetire {
					if dR.Cmp(taken) != 0 || dT.Sign() != 0 {
						w.Violate("R4", "auto-retire-basket-delivered-tradable", "Take from auto-retire basket %s released %s of %s; the taker's retired balance changed by %s and tradable by %s", bk.BasketDenom, RatStr(taken), e.denom, RatStr(dR), RatStr(dT))
						return
					}
				} else if RatAdd(dT, dR).Cmp(taken) != 0 {
					w.Violate("R3", "taker-did-not-receive-released-credits", "Take from %s released %s of %s; the taker's tradable changed by %s and retired by %s", bk.BasketDenom, RatStr(taken), e.denom, RatStr(dT), RatStr(dR))
					return
				}
			}
			if touched >= 2 {
				w.Probe("take_drained_ge2_batches")
				// deposited out of date order?
				fp := c.firstPut[bk.Id]
				var tl []ent
				for _, e := range ents {
					if e.after.Cmp(e.before) < 0 {
						tl = append(tl, e)
					}
				}
				for a := 0; a < len(tl); a++ {
					for b := a + 1; b < len(tl); b++ {
						sa, oka := fp[tl[a].denom]
						sb, okb := fp[tl[b].denom]
						if oka && okb && tl[a].start.Cmp(tl[b].start) < 0 && sa > sb {
							c.nt = true
						}
					}
				}
			}
		}
	}
}

func describeCriteria(bk *basketv1.Basket) string {
	dc := bk.DateCriteria
	switch {
	case dc == nil:
		return "none"
	case dc.MinStartDate != nil:
		return "min_start_date " + FmtTime(TsTime(dc.MinStartDate))
	case dc.StartDateWindow != nil:
		return fmt.Sprintf("start_date_window %ds+%dns", dc.StartDateWindow.Seconds, dc.StartDateWindow.Nanos)
	case dc.YearsInThePast != 0:
		return fmt.Sprintf("years_in_the_past %d", dc.YearsInThePast)
	}
	return "empty"
}

func (c *C11) NonTrivial(w *World) bool { return c.nt }

// ---------------------------------------------------------------- C18

type C18 struct {
	BaseChecker
	paramChanges int
	probed       int
	// ghost: the creation fees as set by genesis and by accepted governance messages
	// (nil or zero coin = no fee). "denom|amount" or "" for unset.
	classFee, basketFee string
}

func feeKey(denom, amount string) string {
	a, ok := new(big.Int).SetString(amount, 10)
	if !ok || a.Sign() <= 0 || denom == "" {
		return ""
	}
	return denom + "|" + a.String()
}

func (c *C18) Init(w *World) {
	s := w.Cur
	if s.ClassFee != nil && s.ClassFee.Fee != nil {
		c.classFee = feeKey(s.ClassFee.Fee.Denom, s.ClassFee.Fee.Amount)
	}
	if s.BasketFee != nil && s.BasketFee.Fee != nil {
		c.basketFee = feeKey(s.BasketFee.Fee.Denom, s.BasketFee.Fee.Amount)
	}
}

// feesAsSet: the stored fee singletons must be what governance last set.
func (c *C18) feesAsSet(w *World, s *Snapshot, what string) {
	have := ""
	if s.ClassFee != nil && s.ClassFee.Fee != nil {
		have = feeKey(s.ClassFee.Fee.Denom, s.ClassFee.Fee.Amount)
	}
	if have != c.classFee {
		w.Violate("R1", "class-fee-differs-from-what-governance-set", "%s: the stored class creation fee is %q but genesis / the accepted governance messages set %q (\"\" = no fee)", what, have, c.classFee)
		return
	}
	have = ""
	if s.BasketFee != nil && s.BasketFee.Fee != nil {
		have = feeKey(s.BasketFee.Fee.Denom, s.BasketFee.Fee.Amount)
	}
	if have != c.basketFee {
		w.Violate("R1", "basket-fee-differs-from-what-governance-set", "%s: the stored basket creation fee is %q but genesis / the accepted governance messages set %q (\"\" = no fee)", what, have, c.basketFee)
	}
}

func init()               { RegisterChecker("C18", func() Checker { return &C18{} }) }
func (c *C18) ID() string { return "C18" }

func zeroish(s string) bool {
	if s == "" {
		return false
	}
	r, ok := ParseDec(s)
	return ok && r.Sign() == 0
}

// paramShape classifies the parameter configuration of the pre-state (for
// specific known-finding signatures).
func paramShape(s *Snapshot, kind string) string {
	switch kind {
	case "marketplace.MsgBuyDirect":
		if s.FeeParams != nil {
			if zeroish(s.FeeParams.BuyerPercentageFee) || zeroish(s.FeeParams.SellerPercentageFee) {
				return "fee-rate-spelled-zero"
			}
			if r, ok := DecOrZero(s.FeeParams.SellerPercentageFee); ok && r.Cmp(RatI64(1)) > 0 {
				return "seller-fee-rate-above-one"
			}
		}
	case "ecocredit.MsgCreateClass":
		if s.ClassFee != nil && s.ClassFee.Fee != nil && zeroish(s.ClassFee.Fee.Amount) {
			return "zero-amount-fee-coin"
		}
	case "basket.MsgCreate":
		if s.BasketFee != nil && s.BasketFee.Fee != nil && zeroish(s.BasketFee.Fee.Amount) {
			return "zero-amount-fee-coin"
		}
	}
	return "other"
}

func (c *C18) AfterTx(w *World, t *TxCtx) {
	pre, post := t.Pre, t.Post
	single := len(t.Msgs) == 1
	if t.Res.OK && t.Signer == AddrStr(govAddr()) {
		c.paramChanges++
		for _, m := range t.Msgs {
			switch msg := m.(type) {
			case *basetypes.MsgUpdateClassFee:
				c.classFee = ""
				if msg.Fee != nil {
					c.classFee = feeKey(msg.Fee.Denom, msg.Fee.Amount.String())
				}
			case *baskettypes.MsgUpdateBasketFee:
				c.basketFee = ""
				if msg.Fee != nil {
					c.basketFee = feeKey(msg.Fee.Denom, msg.Fee.Amount.String())
				}
			}
		}
	}
	if c.feesAsSet(w, post, "after tx ["+t.Step.Note+"]"); w.Viol != nil {
		return
	}
	// R4 — bounded liveness: probes whose documented preconditions hold must succeed
	if t.Step.Probe && single && t.Step.Gas == 0 && t.Step.BankFault == nil {
		m := t.Msgs[0]
		holds, _, judged := PrecondsHold(pre, t.BlockTime, t.Signer, m)
		if judged && holds {
			c.probed++
			w.Probe("c18_probe_judged")
			if !t.Res.OK {
				kind := msgTypeName(m)
				sig := "operation-disabled/" + kind + "/" + paramShape(pre, kind)
				how := "fails"
				if t.Res.Panicked() {
					sig = "operation-aborts-abnormally/" + kind + "/" + paramShape(pre, kind)
					how = "aborts with a recovered panic"
				}
				w.Violate("R4", sig, "%s by %s %s although its documented preconditions hold in the current state (%s): %s", kind, t.Signer, how, c.describeParams(pre), firstLine(t.Res.Log))
				return
			}
		}
	}
	// R1-R3 judge txs that consist only of fee-charging creations (one or several):
	// every message of an accepted tx was accepted, so the fees add up.
	type feeCase struct {
		kind    string
		set     bool
		denom   string
		fee     *big.Int
		offered *big.Int // in the fee denom; nil = nothing offered in that denom
	}
	var fcs []*feeCase
	for _, m := range t.Msgs {
		var fc *feeCase
		switch msg := m.(type) {
		case *basetypes.MsgCreateClass:
			fc = &feeCase{kind: "CreateClass"}
			if pre.ClassFee != nil && pre.ClassFee.Fee != nil {
				fc.set, fc.denom = true, pre.ClassFee.Fee.Denom
				fc.fee, _ = new(big.Int).SetString(pre.ClassFee.Fee.Amount, 10)
				if msg.Fee != nil && msg.Fee.Denom == fc.denom {
					fc.offered = msg.Fee.Amount.BigInt()
				}
			}
		case *baskettypes.MsgCreate:
			fc = &feeCase{kind: "basket Create"}
			if pre.BasketFee != nil && pre.BasketFee.Fee != nil {
				fc.set, fc.denom = true, pre.BasketFee.Fee.Denom
				fc.fee, _ = new(big.Int).SetString(pre.BasketFee.Fee.Amount, 10)
				for _, cn := range msg.Fee {
					if cn.Denom == fc.denom {
						fc.offered = cn.Amount.BigInt()
					}
				}
			}
		default:
			return // a message with other effects on coins: the fee cannot be isolated
		}
		fcs = append(fcs, fc)
	}
	if len(fcs) == 0 || !t.Res.OK {
		return
	}
	if len(fcs) > 1 {
		w.Probe("c18_multi_creation_tx_judged")
	}
	bank := DiffBank(pre, post)
	kinds := ""
	due := map[string]*big.Int{} // denom -> sum of fees
	for _, fc := range fcs {
		if kinds != "" {
			kinds += "+"
		}
		kinds += fc.kind
		if !fc.set || fc.fee == nil {
			continue // R3: no fee set -> this message charges nothing
		}
		// R2: an accepted creation must have offered enough
		if fc.offered == nil {
			fc.offered = new(big.Int) // nothing offered in the fee denom = an offer of zero
		}
		if fc.offered.Cmp(fc.fee) < 0 {
			w.Violate("R2", "accepted-with-offer-below-fee", "%s accepted although the fee is %s%s and the offer in that denom is %v", fc.kind, fc.fee, fc.denom, fc.offered)
			return
		}
		if due[fc.denom] == nil {
			due[fc.denom] = new(big.Int)
		}
		due[fc.denom].Add(due[fc.denom], fc.fee)
	}
	for _, d := range sortedKeys(due) {
		// R2: ... and the creator must have had the funds for all of them
		if pre.BankBal(t.Signer, d).Cmp(due[d]) < 0 {
			w.Violate("R2", "accepted-without-funds", "%s accepted although the creator holds %s%s and the fees add up to %s", kinds, pre.BankBal(t.Signer, d), d, due[d])
			return
		}
	}
	// R1 / R3: exactly the fees are debited and burned, nothing else moves
	seenCreator, seenSupply := map[string]bool{}, map[string]bool{}
	for _, d := range bank {
		fee := due[d.Denom]
		if fee == nil || fee.Sign() == 0 {
			if fee == nil {
				w.Violate("R3", "charged-without-fee-set", "%s accepted with no fee due in %s, yet the %s balance/supply of %q changed by %s", kinds, d.Denom, d.Denom, d.Addr, d.Delta)
			} else {
				w.Violate("R1", "fee-moved-elsewhere", "%s with a fee of zero: the %s balance/supply of %q changed by %s", kinds, d.Denom, d.Addr, d.Delta)
			}
			return
		}
		neg := new(big.Int).Neg(fee)
		switch {
		case d.Addr == t.Signer:
			seenCreator[d.Denom] = true
			if d.Delta.Cmp(neg) != 0 {
				w.Violate("R1", "creator-debited-wrong-amount", "%s with fees of %s%s in total: the creator's balance changed by %s", kinds, fee, d.Denom, d.Delta)
				return
			}
		case d.Addr == "":
			seenSupply[d.Denom] = true
			if d.Delta.Cmp(neg) != 0 {
				w.Violate("R1", "fee-not-burned-exactly", "%s with fees of %s%s in total: total supply changed by %s", kinds, fee, d.Denom, d.Delta)
				return
			}
		default:
			w.Violate("R1", "fee-moved-elsewhere", "%s with fees of %s%s: the %s balance/supply of %q changed by %s (the fee must be burned, not parked)", kinds, fee, d.Denom, d.Denom, d.Addr, d.Delta)
			return
		}
	}
	for _, d := range sortedKeys(due) {
		if due[d].Sign() == 0 {
			continue
		}
		if !seenCreator[d] {
			w.Violate("R1", "creator-not-debited", "%s with fees of %s%s accepted but the creator's balance did not change", kinds, due[d], d)
			return
		}
		if !seenSupply[d] {
			w.Violate("R1", "fee-not-burned", "%s with fees of %s%s accepted but total supply did not shrink: the fee was not burned", kinds, due[d], d)
			return
		}
	}
}

func (c *C18) describeParams(s *Snapshot) string {
	out := ""
	if s.FeeParams != nil {
		out += fmt.Sprintf("fee params buyer=%q seller=%q", s.FeeParams.BuyerPercentageFee, s.FeeParams.SellerPercentageFee)
	}
	if s.ClassFee != nil && s.ClassFee.Fee != nil {
		out += fmt.Sprintf(", class fee %s%s", s.ClassFee.Fee.Amount, s.ClassFee.Fee.Denom)
	} else {
		out += ", class fee unset"
	}
	if s.BasketFee != nil && s.BasketFee.Fee != nil {
		out += fmt.Sprintf(", basket fee %s%s", s.BasketFee.Fee.Amount, s.BasketFee.Fee.Denom)
	} else {
		out += ", basket fee unset"
	}
	if s.Allowlist != nil {
		out += fmt.Sprintf(", allowlist=%v", s.Allowlist.Enabled)
	}
	return out
}

func (c *C18) NonTrivial(w *World) bool { return c.paramChanges >= 2 && c.probed >= 2 }
