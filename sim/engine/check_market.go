package engine

import (
	"fmt"
	"math/big"
	"strings"

	marketv1 "github.com/regen-network/regen-ledger/api/v2/regen/ecocredit/marketplace/v1"
	markettypes "github.com/regen-network/regen-ledger/x/ecocredit/v3/marketplace/types/v1"
)

var lim34 = pow10(34)

// buyRef is the exact reference of one BuyDirect order against an order row.
type buyRef struct {
	Order     *marketv1.SellOrder
	Seller    string
	BatchKey  uint64
	Denom     string // market bank denom
	Qty       *big.Rat
	Ask       *big.Int
	Cost      *big.Rat // q * ask
	BuyerFee  *big.Rat // cost * b
	SellerFee *big.Rat // cost * s
	Retire    bool
	InDomain  bool // exact totals below 10^34 (34 significant digits)
}

// refBuy computes the reference from the pre-state rows. ok=false when the
// stored values cannot be interpreted (then other checks complain).
func refBuy(s *Snapshot, o *marketv1.SellOrder, bo *markettypes.MsgBuyDirect_Order) (*buyRef, bool) {
	q, ok := ParseDec(bo.Quantity)
	if !ok {
		return nil, false
	}
	ask, ok2 := new(big.Int).SetString(o.AskAmount, 10)
	if !ok2 {
		return nil, false
	}
	mk := s.MarketByID(o.MarketId)
	if mk == nil {
		return nil, false
	}
	b, sf := new(big.Rat), new(big.Rat)
	if s.FeeParams != nil {
		var okb, oks bool
		b, okb = DecOrZero(s.FeeParams.BuyerPercentageFee)
		sf, oks = DecOrZero(s.FeeParams.SellerPercentageFee)
		if !okb || !oks {
			return nil, false
		}
	}
	r := &buyRef{Order: o, Seller: AddrStr(o.Seller), BatchKey: o.BatchKey, Denom: mk.BankDenom, Qty: q, Ask: ask, Retire: !bo.DisableAutoRetire}
	r.Cost = RatMul(q, RatInt(ask))
	r.BuyerFee = RatMul(r.Cost, b)
	r.SellerFee = RatMul(r.Cost, sf)
	// domain: everything representable exactly in 34 significant digits
	r.InDomain = sig34(r.Cost) && sig34(r.BuyerFee) && sig34(r.SellerFee) && sig34(RatAdd(r.Cost, r.BuyerFee)) && sig34(RatAdd(r.BuyerFee, r.SellerFee)) && sig34(RatSub(r.Cost, r.SellerFee))
	return r, true
}

// sig34: the value is a finite decimal with at most 34 significant digits.
func sig34(r *big.Rat) bool {
	if r.Sign() == 0 {
		return true
	}
	// finite decimal: denominator divides a power of ten
	d := new(big.Int).Set(r.Denom())
	two, five := big.NewInt(2), big.NewInt(5)
	n2, n5 := 0, 0
	m := new(big.Int)
	for {
		if m.Mod(d, two); m.Sign() != 0 {
			break
		}
		d.Div(d, two)
		n2++
	}
	for {
		if m.Mod(d, five); m.Sign() != 0 {
			break
		}
		d.Div(d, five)
		n5++
	}
	if d.Cmp(big.NewInt(1)) != 0 {
		return false
	}
	k := n2
	if n5 > k {
		k = n5
	}
	coef := RatMul(r, RatInt(pow10(k)))
	c := new(big.Int).Abs(coef.Num())
	// strip trailing zeros
	ten := big.NewInt(10)
	for c.Sign() != 0 {
		if m.Mod(c, ten); m.Sign() != 0 {
			break
		}
		c.Div(c, ten)
	}
	return c.Cmp(lim34) < 0
}

// ---------------------------------------------------------------- C06

type C06 struct {
	BaseChecker
	mods  map[uint64]map[string]bool // order id -> kinds of modification seen
	nt    bool
	asked askedDenoms
}

func init() {
	RegisterChecker("C06", func() Checker { return &C06{mods: map[uint64]map[string]bool{}, asked: askedDenoms{}} })
}

// askedDenoms is a ghost: the ask denomination each open order was created or last
// updated with, taken from the accepted Sell / UpdateSellOrders messages.
type askedDenoms map[uint64]string

func (a askedDenoms) learn(t *TxCtx) {
	if !t.Res.OK {
		return
	}
	for i, m := range t.Msgs {
		switch msg := m.(type) {
		case *markettypes.MsgSell:
			if resp, _ := respAt(t, i).(*markettypes.MsgSellResponse); resp != nil {
				for j, id := range resp.SellOrderIds {
					if j < len(msg.Orders) && msg.Orders[j].AskPrice != nil {
						a[id] = msg.Orders[j].AskPrice.Denom
					}
				}
			}
		case *markettypes.MsgUpdateSellOrders:
			for _, u := range msg.Updates {
				if u.NewAskPrice != nil {
					a[u.SellOrderId] = u.NewAskPrice.Denom
				}
			}
		}
	}
}

// mismatch returns the first open order whose stored market denom differs from what its seller asked.
func (a askedDenoms) mismatch(s *Snapshot) (id uint64, asked, stored string, bad bool) {
	for _, o := range s.Orders {
		want, ok := a[o.Id]
		if !ok {
			continue
		}
		mk := s.MarketByID(o.MarketId)
		if mk == nil {
			continue
		}
		if mk.BankDenom != want {
			return o.Id, want, mk.BankDenom, true
		}
	}
	return 0, "", "", false
}
func (c *C06) ID() string { return "C06" }

func (c *C06) scan(w *World, s *Snapshot, what string) {
	sums := map[balKey]*big.Rat{}
	for _, o := range s.Orders {
		q, ok := DecOrZero(o.Quantity)
		if !ok {
			w.Violate("R2", "order-quantity-unparsable", "%s: sell order %d has quantity %q", what, o.Id, o.Quantity)
			return
		}
		b := s.BatchByKey(o.BatchKey)
		if b == nil {
			w.Violate("R2", "order-without-batch", "%s: sell order %d references batch key %d which does not exist", what, o.Id, o.BatchKey)
			return
		}
		p := s.PrecisionOfBatch(b)
		if q.Sign() <= 0 || (p >= 0 && !WithinPrecision(q, p)) {
			w.Violate("R2", "order-quantity-not-positive-within-precision", "%s: sell order %d has quantity %q (precision %d)", what, o.Id, o.Quantity, p)
			return
		}
		ask, ok2 := new(big.Int).SetString(o.AskAmount, 10)
		if !ok2 || ask.Sign() <= 0 {
			w.Violate("R2", "order-ask-not-positive-integer", "%s: sell order %d has ask amount %q", what, o.Id, o.AskAmount)
			return
		}
		if s.MarketByID(o.MarketId) == nil {
			w.Violate("R2", "order-without-market", "%s: sell order %d references market %d which does not exist", what, o.Id, o.MarketId)
			return
		}
		k := balKey{AddrStr(o.Seller), o.BatchKey}
		if sums[k] == nil {
			sums[k] = new(big.Rat)
		}
		sums[k].Add(sums[k], q)
	}
	seen := map[balKey]bool{}
	for _, b := range s.Balances {
		e, ok := DecOrZero(b.EscrowedAmount)
		if !ok {
			continue
		}
		k := balKey{AddrStr(b.Address), b.BatchKey}
		seen[k] = true
		want := sums[k]
		if want == nil {
			want = new(big.Rat)
		}
		if e.Cmp(want) != 0 {
			w.Violate("R1", "escrow-differs-from-open-orders", "%s: %s has %s escrowed in batch %d but its open sell orders for that batch total %s", what, k.Addr, RatStr(e), k.Batch, RatStr(want))
			return
		}
	}
	for _, o := range s.Orders {
		k := balKey{AddrStr(o.Seller), o.BatchKey}
		if !seen[k] {
			w.Violate("R1", "orders-without-balance-row", "%s: %s has open orders totalling %s in batch %d but no balance row", what, k.Addr, RatStr(sums[k]), k.Batch)
			return
		}
	}
}

func (c *C06) Init(w *World)                        { c.scan(w, w.Cur, "genesis") }
func (c *C06) AfterBegin(w *World, b *BeginCtx)     { c.scan(w, b.Post, "BeginBlock") }
func (c *C06) AfterRestart(w *World, r *RestartCtx) { c.scan(w, r.Post, "restart("+r.Kind+")") }

func denomAllowed(s *Snapshot, d string) bool {
	for _, a := range s.AllowedDenoms {
		if a.BankDenom == d {
			return true
		}
	}
	return false
}

func (c *C06) note(id uint64, kind string) {
	if c.mods[id] == nil {
		c.mods[id] = map[string]bool{}
	}
	c.mods[id][kind] = true
}

func (c *C06) AfterTx(w *World, t *TxCtx) {
	c.scan(w, t.Post, "tx["+t.Step.Note+"]")
	c.asked.learn(t)
	if id, asked, stored, bad := c.asked.mismatch(t.Post); bad && w.Viol == nil {
		w.Violate("R2", "order-filed-under-market-of-other-denom", "sell order %d was created / last updated asking in %s but is stored under a market whose denomination is %s", id, asked, stored)
	}
	if !t.Res.OK || w.Viol != nil {
		return
	}
	for _, m := range t.Msgs {
		switch msg := m.(type) {
		case *markettypes.MsgSell:
			for i, o := range msg.Orders {
				if o.AskPrice != nil && !denomAllowed(t.Pre, o.AskPrice.Denom) {
					w.Violate("R3", "sell-with-denom-not-allowed", "accepted Sell orders[%d] asks in %q which is not on the allowed-denom list of the pre-state", i, o.AskPrice.Denom)
					return
				}
			}
		case *markettypes.MsgUpdateSellOrders:
			for i, u := range msg.Updates {
				if u.NewAskPrice != nil && !denomAllowed(t.Pre, u.NewAskPrice.Denom) {
					w.Violate("R3", "update-with-denom-not-allowed", "accepted UpdateSellOrders updates[%d] sets ask denom %q which is not on the allowed-denom list of the pre-state", i, u.NewAskPrice.Denom)
					return
				}
				c.note(u.SellOrderId, "update")
			}
		case *markettypes.MsgBuyDirect:
			for _, o := range msg.Orders {
				c.note(o.SellOrderId, "fill")
			}
		case *markettypes.MsgCancelSellOrder:
			c.note(msg.SellOrderId, "cancel")
		}
	}
	for _, id := range sortedU64(c.mods) {
		if len(c.mods[id]) >= 2 && t.Post.OrderByID(id) == nil {
			c.nt = true
		}
	}
}
func (c *C06) NonTrivial(w *World) bool { return c.nt }

// ---------------------------------------------------------------- C12

type C12 struct {
	BaseChecker
	touched map[uint64]bool // orders that were updated or partially filled
	nt      bool
}

func init()               { RegisterChecker("C12", func() Checker { return &C12{touched: map[uint64]bool{}} }) }
func (c *C12) ID() string { return "C12" }

func orderExpired(o *marketv1.SellOrder, t int64, nanos int32) bool {
	if o.Expiration == nil {
		return false
	}
	es, en := o.Expiration.Seconds, o.Expiration.Nanos
	if es == 0 && en == 0 {
		return false // "no expiration" is stored as the zero timestamp
	}
	return es < t || (es == t && en <= nanos)
}

func (c *C12) AfterBegin(w *World, b *BeginCtx) {
	if b.Res.Panic != "" {
		w.Violate("R1", "beginblock-panic", "BeginBlock at %s (height %d) panicked: %s", FmtTime(b.Time), b.Post.Height, firstLine(b.Res.Panic))
		return
	}
	ts, tn := b.Time.Unix(), int32(b.Time.Nanosecond())
	removedQty := map[balKey]*big.Rat{}
	expiredN := 0
	touchedExpired := false
	for _, o := range b.Pre.Orders {
		exp := orderExpired(o, ts, tn)
		no := b.Post.OrderByID(o.Id)
		if exp {
			if no != nil {
				w.Violate("R2", "expired-order-remains", "after BeginBlock at %s sell order %d with expiration %s still exists", FmtTime(b.Time), o.Id, FmtTime(TsTime(o.Expiration)))
				return
			}
			expiredN++
			if c.touched[o.Id] {
				touchedExpired = true
			}
			q, _ := DecOrZero(o.Quantity)
			k := balKey{AddrStr(o.Seller), o.BatchKey}
			if removedQty[k] == nil {
				removedQty[k] = new(big.Rat)
			}
			removedQty[k].Add(removedQty[k], q)
		} else {
			if no == nil {
				w.Violate("R4", "unexpired-order-removed", "BeginBlock at %s removed sell order %d whose expiration is %v", FmtTime(b.Time), o.Id, expStr(o))
				return
			}
			if !protoEqual(o, no) {
				w.Violate("R4", "unexpired-order-modified", "BeginBlock at %s modified sell order %d which has not expired", FmtTime(b.Time), o.Id)
				return
			}
		}
	}
	if expiredN >= 2 && touchedExpired {
		c.nt = true
	}
	if expiredN > 0 {
		w.Probe("expired_orders_in_block")
	}
	if expiredN >= 2 {
		w.Probe("expired_ge2_in_block")
	}
	if expiredN >= 32 {
		w.Probe("expired_ge32_in_block")
	}
	// R3: each removed order's quantity went from escrow back to tradable
	for _, pb := range b.Pre.Balances {
		k := balKey{AddrStr(pb.Address), pb.BatchKey}
		rq := removedQty[k]
		if rq == nil {
			continue
		}
		nb := b.Post.Balance(k.Addr, k.Batch)
		if nb == nil {
			w.Violate("R3", "seller-balance-vanished", "BeginBlock removed expired orders of %s in batch %d but the balance row is gone", k.Addr, k.Batch)
			return
		}
		e0, _ := DecOrZero(pb.EscrowedAmount)
		e1, _ := DecOrZero(nb.EscrowedAmount)
		t0, _ := DecOrZero(pb.TradableAmount)
		t1, _ := DecOrZero(nb.TradableAmount)
		if RatSub(e0, e1).Cmp(rq) != 0 || RatSub(t1, t0).Cmp(rq) != 0 {
			w.Violate("R3", "expired-quantity-not-returned", "BeginBlock at %s removed expired orders of %s totalling %s in batch %d, but escrow went %s -> %s and tradable %s -> %s",
				FmtTime(b.Time), k.Addr, RatStr(rq), k.Batch, RatStr(e0), RatStr(e1), RatStr(t0), RatStr(t1))
			return
		}
		delete(removedQty, k)
	}
	for k := range removedQty {
		w.Violate("R3", "expired-order-without-balance", "expired orders of %s in batch %d but no balance row existed", k.Addr, k.Batch)
		return
	}
}

func expStr(o *marketv1.SellOrder) string {
	if o.Expiration == nil {
		return "none"
	}
	return FmtTime(TsTime(o.Expiration))
}

func firstLine(s string) string {
	if i := strings.IndexByte(s, '\n'); i >= 0 {
		s = s[:i]
	}
	if len(s) > 300 {
		s = s[:300]
	}
	return s
}

func (c *C12) AfterTx(w *World, t *TxCtx) {
	if !t.Res.OK {
		return
	}
	ts, tn := t.BlockTime.Unix(), int32(t.BlockTime.Nanosecond())
	for _, m := range t.Msgs {
		switch msg := m.(type) {
		case *markettypes.MsgBuyDirect:
			for _, bo := range msg.Orders {
				if o := t.Pre.OrderByID(bo.SellOrderId); o != nil {
					if orderExpired(o, ts, tn) {
						w.Violate("R5", "expired-order-bought", "BuyDirect in a block with time %s filled sell order %d whose expiration is %s", FmtTime(t.BlockTime), o.Id, expStr(o))
						return
					}
					c.touched[o.Id] = true
				}
			}
		case *markettypes.MsgUpdateSellOrders:
			for _, u := range msg.Updates {
				c.touched[u.SellOrderId] = true
			}
		}
	}
	// an order that exists in the block's state with an expiration ≤ block time can be bought: also a violation of R2 mid-block
	for _, o := range t.Post.Orders {
		if orderExpired(o, ts, tn) {
			w.Violate("R2", "order-created-already-expired", "after tx [%s] sell order %d exists with expiration %s ≤ block time %s", t.Step.Note, o.Id, expStr(o), FmtTime(t.BlockTime))
			return
		}
	}
}

func (c *C12) AfterRestart(w *World, r *RestartCtx) {}
func (c *C12) NonTrivial(w *World) bool             { return c.nt }

var _ = fmt.Sprint
