package engine

import (
	"strings"
	authtypes "github.com/cosmos/cosmos-sdk/x/auth/types"

	"github.com/regen-network/regen-ledger/x/ecocredit/v3/marketplace"
)

func feePoolAddr() []byte { return authtypes.NewModuleAddress(marketplace.FeePoolName) }

// base weights of message kinds (relative).
var baseWeights = map[string]float64{
	"CreateClass": 5, "CreateProject": 5, "CreateBatch": 9, "Mint": 4, "Seal": 1.5, "Send": 7, "Retire": 4, "Cancel": 3,
	"UpdClassAdmin": 1, "UpdClassIssuers": 1.5, "UpdClassMeta": 0.7, "UpdProjAdmin": 0.8, "UpdProjMeta": 0.6, "UpdBatchMeta": 0.8,
	"Bridge": 2, "BridgeReceive": 3, "BurnRegen": 0.6, "Unimplemented": 0.3,
	"AddCreditType": 0.6, "SetAllowlist": 0.5, "AddCreator": 0.6, "RemoveCreator": 0.4, "UpdClassFee": 0.7, "UpdProjectFee": 0.1,
	"AddBridgeChain": 0.8, "RemoveBridgeChain": 0.4,
	"BasketCreate": 4, "Put": 7, "Take": 6, "UpdCurator": 0.6, "UpdBasketFee": 0.6, "UpdDateCriteria": 0.8,
	"Sell": 7, "UpdSell": 4, "CancelSell": 2.5, "Buy": 8, "AddDenom": 0.8, "RemoveDenom": 0.4, "SetFeeParams": 0.9, "SendFromFeePool": 0.5,
	"BankSend": 3,
	"Anchor":   1.5, "Attest": 1.2, "DefineResolver": 0.8, "RegisterResolver": 1,
	"_criterion_dates": 0.15,
	"ICARegister":      0, "ICASubmit": 0,
}

var dataKinds = []string{"Anchor", "Attest", "DefineResolver", "RegisterResolver"}
var marketKinds = []string{"Sell", "UpdSell", "CancelSell", "Buy", "AddDenom", "RemoveDenom", "SetFeeParams", "SendFromFeePool"}
var basketKinds = []string{"BasketCreate", "Put", "Take", "UpdCurator", "UpdBasketFee", "UpdDateCriteria"}
var roleKinds = []string{"UpdClassAdmin", "UpdClassIssuers", "UpdClassMeta", "UpdProjAdmin", "UpdProjMeta", "UpdBatchMeta", "Seal", "UpdCurator"}
var govKinds = []string{"AddCreditType", "SetAllowlist", "AddCreator", "RemoveCreator", "UpdClassFee", "AddBridgeChain", "RemoveBridgeChain", "UpdBasketFee", "UpdDateCriteria", "AddDenom", "RemoveDenom", "SetFeeParams", "SendFromFeePool"}
var bridgeKinds = []string{"Bridge", "BridgeReceive", "Mint", "CreateBatch", "AddBridgeChain", "RemoveBridgeChain"}
var createKinds = []string{"CreateClass", "CreateProject", "CreateBatch", "BridgeReceive", "BasketCreate"}

func scale(w map[string]float64, ks []string, f float64) {
	for _, k := range ks {
		w[k] *= f
	}
}

func (p *Profile) feeRateValues() []string {
	vs := p.feeRateBase()
	if strings.HasPrefix(p.Name, "C07") || strings.HasPrefix(p.Name, "C03") {
		// settlement is the subject: rates whose products need more than 34 digits carry more weight
		vs = append(vs, "0.3333333333333333333333333333333333", "0.6666666666666666666666666666666666667", "0.3333333333333333333333333333333333", "0.1111111111111111111111111111111111111")
	}
	return vs
}

func (p *Profile) feeRateBase() []string {
	return []string{"", "0", "0.0", "0.000001", "0.01", "0.05", "0.5", "1", "1.5", "2", "0.123456789012345678", "0.3333333333",
		"0.333333333333333333333333333333", "0.000000000000000000000000000001", "0.99999999999999999999",
		"0.3333333333333333333333333333333333", "0.09999999999999999999999999999999999999", "0.6666666666666666666666666666666666667"}
}

// DrawProfile draws the swarm configuration of one run.
func DrawProfile(property, tier string, r *PRNG) *Profile {
	p := &Profile{Name: property, Weights: map[string]float64{}}
	for k, v := range baseWeights {
		p.Weights[k] = v
	}
	thorough := tier == "thorough"
	p.Actors = r.Range(4, 8)
	p.MaxBlocks = r.Range(8, 45)
	p.MaxTxs = r.Range(30, 220)
	p.MaxPerBlk = r.Range(2, 12)
	p.PStale = Pick(r, []float64{0, 0.2, 0.4, 0.6})
	p.PNearMiss = Pick(r, []float64{0.03, 0.08, 0.15})
	p.PHostile = Pick(r, []float64{0.02, 0.06, 0.12})
	p.PGas = Pick(r, []float64{0, 0.05, 0.15, 0.3})
	p.PBank = Pick(r, []float64{0, 0.03, 0.08, 0.15})
	p.PMulti = Pick(r, []float64{0, 0.05, 0.15})
	p.PDelay = Pick(r, []float64{0, 0.1, 0.25})
	p.PDup = Pick(r, []float64{0, 0.05, 0.15})
	p.PDrop = Pick(r, []float64{0, 0.03})
	p.PCrash = Pick(r, []float64{0, 0, 0.05, 0.15})
	p.PTorn = Pick(r, []float64{0, 0, 0.05, 0.15})
	p.PRestart = Pick(r, []float64{0, 0, 0.05, 0.15})
	p.PGenesis = Pick(r, []float64{0, 0, 0, 0.03})
	p.StyleRate = Pick(r, []float64{0, 0.1, 0.3})
	p.DtMix = []float64{1, 1, 2, 8, 2, 1.5, 1, 0.4}
	p.GenesisK = Pick(r, []string{"default", "default", "default", "seeded", "zerofee", "exported"})
	p.PTie = 0.12
	// accounts that are not key accounts: 32-byte module / group-policy addresses, other valid lengths
	for i, n := 0, Pick(r, []int{0, 0, 1, 2}); i < n; i++ {
		l := 32
		if r.Chance(0.3) {
			l = Pick(r, []int{1, 19, 21, 33, 64, 255})
		}
		p.AddrLens = append(p.AddrLens, l)
	}
	p.AddrPrefixPairs = len(p.AddrLens) > 0 && r.Chance(0.5)
	if thorough && r.Chance(0.3) {
		p.WideW = 1.5
	}
	if thorough && r.Chance(0.25) {
		// deeper bounds in the thorough tier: long histories
		p.MaxBlocks = r.Range(60, 160)
		p.MaxTxs = r.Range(300, 900)
		p.Name += "/long"
	}
	// swarm: switch a random subset of non-core kinds off
	for _, k := range sortedKeys(p.Weights) {
		if k[0] == '_' {
			continue
		}
		if r.Chance(0.15) {
			p.Weights[k] = 0
		} else if r.Chance(0.2) {
			p.Weights[k] *= 3
		}
	}
	core := func(ks ...string) {
		for _, k := range ks {
			if p.Weights[k] < baseWeights[k] {
				p.Weights[k] = baseWeights[k]
			}
		}
	}
	// issuance must always be possible, otherwise runs build no state
	core("CreateClass", "CreateProject", "CreateBatch")
	// fault-free configurations run alongside fault-injecting ones
	faultFree := r.Chance(0.15)
	switch property {
	case "C01":
		core("Send", "Retire", "Cancel", "Put", "Take", "Sell", "UpdSell", "CancelSell", "Buy", "Mint", "BridgeReceive", "Bridge", "BasketCreate")
		p.PGas = Pick(r, []float64{0.05, 0.1, 0.2})
		p.PBank = Pick(r, []float64{0.03, 0.08, 0.15})
		p.PMulti = Pick(r, []float64{0.05, 0.15})
		scale(p.Weights, dataKinds, 0.2)
		if (thorough && r.Chance(0.5)) || r.Chance(0.2) {
			p.WideW = 1.5 // "very large values" are part of the property's domain: also in the quick tier
		}
	case "C02":
		core("Mint", "BridgeReceive", "Retire", "Cancel", "Take", "Buy", "Seal", "Put", "Sell", "BasketCreate")
		scale(p.Weights, []string{"Mint", "BridgeReceive", "CreateBatch", "Seal"}, 2)
		p.PDup = Pick(r, []float64{0.1, 0.2, 0.3})
		p.PDelay = Pick(r, []float64{0.1, 0.25})
		scale(p.Weights, dataKinds, 0.2)
	case "C03":
		core("Send", "Retire", "Cancel", "Put", "Take", "Sell", "UpdSell", "CancelSell", "Buy", "BankSend", "SendFromFeePool", "BasketCreate", "Bridge")
		p.PHostile = Pick(r, []float64{0.15, 0.25, 0.4})
		p.PStale = Pick(r, []float64{0.3, 0.5})
		scale(p.Weights, dataKinds, 0.2)
		// the fee pool is a holding like any other (R3): attempts on it and purchases that fill it carry weight
		scale(p.Weights, []string{"SendFromFeePool"}, 5)
		scale(p.Weights, []string{"Buy", "SetFeeParams"}, 1.5)
		// whose balance is whose: accounts whose addresses extend one another's bytes
		if len(p.AddrLens) == 0 && r.Chance(0.4) {
			p.AddrLens = []int{32}
		}
		p.AddrPrefixPairs = len(p.AddrLens) > 0 && r.Chance(0.7)
	case "C04":
		core("Send", "Retire", "Take", "Buy", "Sell", "Put", "Cancel", "Mint", "BasketCreate")
		scale(p.Weights, []string{"Retire", "Send", "Take", "Buy"}, 1.5)
		scale(p.Weights, dataKinds, 0.2)
	case "C05":
		core("BasketCreate", "Put", "Take", "BankSend")
		scale(p.Weights, []string{"Put", "Take", "BasketCreate"}, 2.5)
		scale(p.Weights, []string{"BankSend"}, 1.5)
		scale(p.Weights, dataKinds, 0.1)
		p.StyleRate = Pick(r, []float64{0.1, 0.3, 0.5}) // amounts are strings read by more than one parser
		core("UpdBasketFee", "UpdClassFee", "CreateClass")
		scale(p.Weights, []string{"UpdBasketFee", "UpdClassFee"}, 3) // fees are burned: also a way for supply to change
		if (thorough && r.Chance(0.5)) || r.Chance(0.33) {
			p.WideW = 2 // "very large totals" are part of the property's domain: also in the quick tier
		}
	case "C06", "C12":
		core("Sell", "UpdSell", "CancelSell", "Buy", "AddDenom", "RemoveDenom")
		scale(p.Weights, []string{"Sell", "UpdSell", "CancelSell", "Buy"}, 2.5)
		scale(p.Weights, []string{"AddDenom", "RemoveDenom"}, 3)
		scale(p.Weights, dataKinds, 0.1)
		scale(p.Weights, basketKinds, 0.4)
		if property == "C12" {
			p.DtMix = []float64{2, 1, 3, 6, 3, 2, 1.5, 1}
		}
		if r.Chance(0.12) {
			p.WideW = 1.5 // quantities of any magnitude a decimal string can express
		}
	case "C07":
		core("Sell", "Buy", "SetFeeParams", "UpdSell", "AddDenom")
		scale(p.Weights, []string{"Sell", "Buy"}, 3)
		scale(p.Weights, []string{"SetFeeParams", "UpdSell"}, 2)
		scale(p.Weights, dataKinds, 0.1)
		scale(p.Weights, basketKinds, 0.3)
		p.PBank = Pick(r, []float64{0.03, 0.08, 0.15}) // settlement makes three bank calls: each may fail
	case "C08":
		core(roleKinds...)
		core(govKinds...)
		core("Mint", "RegisterResolver", "DefineResolver", "CancelSell", "UpdSell", "Sell", "BasketCreate", "BridgeReceive", "Seal", "CreateBatch")
		scale(p.Weights, []string{"BridgeReceive", "Seal", "Mint"}, 2)
		scale(p.Weights, roleKinds, 3)
		scale(p.Weights, []string{"RegisterResolver", "DefineResolver"}, 3)
		p.PHostile = Pick(r, []float64{0.15, 0.3, 0.45})
		p.PStale = Pick(r, []float64{0.3, 0.5, 0.7})
	case "C09":
		p.PGenesis = Pick(r, []float64{0.05, 0.1, 0.2})
		p.EndGenesis = true
		p.AvoidKnown = r.Chance(0.75)
		core("BasketCreate", "Put", "Sell", "DefineResolver", "Anchor", "Attest", "RegisterResolver", "BridgeReceive", "Mint")
		p.PCrash, p.PTorn = 0, 0
		if r.Chance(0.25) {
			// colliding data ids: ids of several lengths in one exported state
			hl := r.Range(2, 8)
			p.Hasher = &HasherCfg{Kind: "weak", Outputs: r.Range(1, 3), HashLen: hl, MinLength: r.Range(1, hl)}
			scale(p.Weights, dataKinds, 4)
		}
	case "C10":
		p.PCrash = Pick(r, []float64{0.05, 0.15, 0.3})
		p.PTorn = Pick(r, []float64{0.05, 0.15, 0.3})
		p.PRestart = Pick(r, []float64{0.05, 0.15, 0.3})
		p.PGenesis = 0
		p.PGas = Pick(r, []float64{0.1, 0.2})
		p.PBank = Pick(r, []float64{0.05, 0.1})
		p.PMulti = Pick(r, []float64{0.1, 0.2})
		p.PNearMiss = Pick(r, []float64{0.1, 0.2})
		p.AltSched = true
		p.MaxTxs = r.Range(30, 120)
		p.PTie = Pick(r, []float64{0.12, 0.3, 0.6}) // ties in orderings are where iteration order shows
	case "C11":
		core("BasketCreate", "Put", "Take", "UpdDateCriteria", "CreateBatch")
		scale(p.Weights, []string{"Put", "Take", "BasketCreate", "UpdDateCriteria"}, 3)
		scale(p.Weights, []string{"CreateBatch"}, 1.5)
		p.Weights["_criterion_dates"] = 0.6
		p.PProbe = Pick(r, []float64{0.1, 0.25})
		scale(p.Weights, dataKinds, 0.1)
		scale(p.Weights, marketKinds, 0.3)
		p.DtMix = []float64{1, 1, 2, 6, 2, 2, 2, 1.5}
		p.PTie = Pick(r, []float64{0.12, 0.3})
	case "C13":
		core(bridgeKinds...)
		scale(p.Weights, bridgeKinds, 3)
		p.AvoidKnown = r.Chance(0.75)
		p.PDup = Pick(r, []float64{0.15, 0.3})
		p.PDelay = Pick(r, []float64{0.1, 0.25})
		scale(p.Weights, dataKinds, 0.1)
		scale(p.Weights, marketKinds, 0.3)
	case "C14":
		core(createKinds...)
		scale(p.Weights, createKinds, 2.5)
		p.PGas = Pick(r, []float64{0.15, 0.3})
		p.GenesisK = Pick(r, []string{"default", "seeded", "seeded", "exported"})
		scale(p.Weights, dataKinds, 0.2)
	case "C15", "C16":
		core(dataKinds...)
		scale(p.Weights, dataKinds, 14)
		scale(p.Weights, marketKinds, 0.1)
		scale(p.Weights, basketKinds, 0.1)
		p.MaxTxs = r.Range(30, 160)
		if property == "C16" && r.Chance(0.7) {
			hl := r.Range(2, 8)
			p.Hasher = &HasherCfg{Kind: "weak", Outputs: r.Range(1, 3), HashLen: hl, MinLength: r.Range(1, hl)}
		}
		p.PGenesis = Pick(r, []float64{0, 0.03})
	case "C17":
		p.PQuery = Pick(r, []float64{0.3, 0.5, 0.8})
		p.GenesisK = Pick(r, []string{"default", "seeded", "seeded", "exported"})
		scale(p.Weights, dataKinds, 3)
		p.MaxTxs = r.Range(30, 120)
		if r.Chance(0.35) {
			// data ids collide: the data queries must still answer for the right entry
			hl := r.Range(2, 8)
			p.Hasher = &HasherCfg{Kind: "weak", Outputs: r.Range(1, 3), HashLen: hl, MinLength: r.Range(1, hl)}
			scale(p.Weights, dataKinds, 3)
		}
	case "C20":
		for k := range p.Weights {
			if k[0] != '_' {
				p.Weights[k] *= 0.15
			}
		}
		p.Weights["ICARegister"] = 8
		p.Weights["ICASubmit"] = 22
		p.Actors = r.Range(2, 5)
		p.PCrash, p.PTorn, p.PGenesis = 0, 0, 0 // the stub IBC state is not part of the simulated disk
		p.PHostile = Pick(r, []float64{0.1, 0.2, 0.35})
		p.PMulti = Pick(r, []float64{0.05, 0.15, 0.3})
		p.MaxTxs = r.Range(30, 140)
		p.DtMix = []float64{1, 1, 2, 6, 3, 2, 1, 0.5}
	case "C18":
		core(govKinds...)
		core("CreateClass", "BasketCreate", "Sell", "Buy", "Put", "Take")
		scale(p.Weights, govKinds, 3)
		scale(p.Weights, []string{"CreateClass", "BasketCreate"}, 2)
		p.PProbe = Pick(r, []float64{0.15, 0.3})
		p.GenesisK = Pick(r, []string{"default", "default", "zerofee", "feeedge", "seeded", "exported"})
	}
	// broad properties: every run additionally focuses on one area, so that each area is explored in depth
	switch property {
	case "C01", "C09", "C10", "C17", "C03", "C04":
		switch Pick(r, []string{"mixed", "mixed", "basket", "market", "bridge", "data", "roles"}) {
		case "basket":
			core("BasketCreate", "Put", "Take")
			scale(p.Weights, []string{"Put", "Take", "BasketCreate"}, 3.5)
			scale(p.Weights, []string{"CreateBatch"}, 1.5)
			p.Name += "/basket"
		case "market":
			core("Sell", "UpdSell", "CancelSell", "Buy")
			scale(p.Weights, []string{"Sell", "UpdSell", "CancelSell", "Buy"}, 3)
			p.Name += "/market"
		case "bridge":
			core(bridgeKinds...)
			scale(p.Weights, bridgeKinds, 2.5)
			p.Name += "/bridge"
		case "data":
			core(dataKinds...)
			scale(p.Weights, dataKinds, 6)
			p.Name += "/data"
		case "roles":
			core(roleKinds...)
			scale(p.Weights, roleKinds, 3)
			p.Name += "/roles"
		}
	}
	p.PChain = Pick(r, []float64{0, 0.3, 0.6})
	p.PRetry = Pick(r, []float64{0, 0.4, 0.8})
	if p.PChain > 0 && p.PMulti < 0.1 && r.Chance(0.5) {
		p.PMulti = 0.15
	}
	if property != "C20" && r.Chance(0.12) {
		// scripted clients: most txs are small scripts (create something and use it in the same tx), they
		// often fail part-way for want of gas or on a bank error, and the client then submits them again
		p.PMulti, p.PChain, p.PRetry = 0.55, 0.9, 0.9
		p.PGas = Pick(r, []float64{0.2, 0.35})
		p.PBank = Pick(r, []float64{0.05, 0.12})
		p.PStale = Pick(r, []float64{0, 0.2})
		core("CreateBatch", "BasketCreate", "Put", "Take", "Sell", "Send")
		scale(p.Weights, []string{"CreateBatch", "Put", "Take"}, 2.5)
		if p.Actors > 4 {
			p.Actors = r.Range(2, 4)
		}
		p.Name += "/scripted"
	}
	if faultFree && property != "C10" && property != "C09" {
		p.PChain, p.PRetry = 0, 0
		p.PGas, p.PBank, p.PMulti, p.PDelay, p.PDup, p.PDrop, p.PCrash, p.PTorn, p.PRestart, p.PGenesis = 0, 0, 0, 0, 0, 0, 0, 0, 0, 0
		p.Name += "/faultfree"
	}
	return p
}
