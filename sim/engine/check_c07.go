package engine

import (
	"fmt"
	"math/big"

	"google.golang.org/protobuf/proto"
	"google.golang.org/protobuf/reflect/protoreflect"

	markettypes "github.com/regen-network/regen-ledger/x/ecocredit/v3/marketplace/types/v1"
)

func protoEqual(a, b proto.Message) bool { return proto.Equal(a, b) }

// C07 — BuyDirect settles exactly.
//
// For every successful tx that consists of BuyDirect messages only, the
// orders are run one after the other against an evolving exact reference
// built from the pre-state; the post-state must equal it: credits exactly,
// coins within the tolerances the property states.
type C07 struct {
	BaseChecker
	nt          bool
	outOfDomain int
}

func init()               { RegisterChecker("C07", func() Checker { return &C07{} }) }
func (c *C07) ID() string { return "C07" }

type ratMap map[string]*big.Rat

func (m ratMap) add(k string, x *big.Rat) {
	if m[k] == nil {
		m[k] = new(big.Rat)
	}
	m[k].Add(m[k], x)
}

func (c *C07) AfterTx(w *World, t *TxCtx) {
	if !t.Res.OK {
		return
	}
	var buys []*markettypes.MsgBuyDirect
	for _, m := range t.Msgs {
		b, ok := m.(*markettypes.MsgBuyDirect)
		if !ok {
			return // mixed txs are not judged here
		}
		buys = append(buys, b)
	}
	if len(buys) == 0 {
		return
	}
	pre, post := t.Pre, t.Post
	buyer := t.Signer
	// evolving reference
	ordQty := map[uint64]*big.Rat{} // remaining quantity per order id
	escrowDelta := ratMap{}         // "seller|batch" -> decrease
	tradDelta, retDelta := ratMap{}, ratMap{}
	supRetire := map[uint64]*big.Rat{}
	sellerPay := ratMap{} // "seller|denom" exact x
	sellerN := map[string]int{}
	poolExact := ratMap{} // denom -> exact bf+sf
	poolN := map[string]int{}
	buyerMax := ratMap{} // denom -> exact cost+bf
	nOrders := 0
	allInDomain := true
	fractional := false
	for _, b := range buys {
		for i, bo := range b.Orders {
			o := pre.OrderByID(bo.SellOrderId)
			if o == nil {
				w.Violate("R1", "buy-of-nonexistent-order", "successful BuyDirect orders[%d] names sell order %d which does not exist in the pre-state", i, bo.SellOrderId)
				return
			}
			ref, ok := refBuy(pre, o, bo)
			if !ok {
				return
			}
			nOrders++
			if !ref.InDomain {
				allInDomain = false
			}
			// R2 guards
			if bo.BidPrice == nil || bo.BidPrice.Denom != ref.Denom {
				w.Violate("R2", "bid-denom-differs-from-ask-denom", "successful BuyDirect orders[%d]: bid %v but the order asks in %s", i, bo.BidPrice, ref.Denom)
				return
			}
			if bo.BidPrice.Amount.BigInt().Cmp(ref.Ask) < 0 {
				w.Violate("R2", "bid-below-ask", "successful BuyDirect orders[%d]: bid %s below ask %s%s", i, bo.BidPrice, ref.Ask, ref.Denom)
				return
			}
			{
				maxFee := new(big.Int)
				if bo.MaxFeeAmount != nil {
					maxFee = bo.MaxFeeAmount.Amount.BigInt()
				}
				if need := RatFloor(ref.BuyerFee); maxFee.Cmp(need) < 0 {
					w.Violate("R2", "max-fee-below-buyer-fee", "successful BuyDirect orders[%d]: max fee %s but the buyer fee is %s (floor %s)", i, maxFee, RatStr(ref.BuyerFee), need)
					return
				}
			}
			if bo.DisableAutoRetire && !o.DisableAutoRetire {
				w.Violate("R1", "auto-retire-disabled-against-order", "successful BuyDirect orders[%d] disables auto-retire but sell order %d does not allow that", i, o.Id)
				return
			}
			if ref.Seller == buyer {
				// the property does not speak about self-purchase; the chain forbids it. Not judged.
				return
			}
			rem := ordQty[o.Id]
			if rem == nil {
				rem, _ = DecOrZero(o.Quantity)
			}
			if ref.Qty.Sign() <= 0 || ref.Qty.Cmp(rem) > 0 {
				w.Violate("R1", "bought-more-than-offered", "successful BuyDirect orders[%d] buys %s of sell order %d which only has %s", i, RatStr(ref.Qty), o.Id, RatStr(rem))
				return
			}
			if ref.Qty.Cmp(rem) < 0 && !ref.Cost.IsInt() {
				fractional = true
			}
			ordQty[o.Id] = RatSub(rem, ref.Qty)
			bk := fmt.Sprintf("%s|%d", ref.Seller, ref.BatchKey)
			escrowDelta.add(bk, ref.Qty)
			kb := fmt.Sprintf("%s|%d", buyer, ref.BatchKey)
			if ref.Retire {
				retDelta.add(kb, ref.Qty)
				if supRetire[ref.BatchKey] == nil {
					supRetire[ref.BatchKey] = new(big.Rat)
				}
				supRetire[ref.BatchKey].Add(supRetire[ref.BatchKey], ref.Qty)
			} else {
				tradDelta.add(kb, ref.Qty)
			}
			sellerPay.add(ref.Seller+"|"+ref.Denom, RatSub(ref.Cost, ref.SellerFee))
			sellerN[ref.Seller+"|"+ref.Denom]++
			poolExact.add(ref.Denom, RatAdd(ref.BuyerFee, ref.SellerFee))
			poolN[ref.Denom]++
			buyerMax.add(ref.Denom, RatAdd(ref.Cost, ref.BuyerFee))
		}
	}
	// ---- R1: credits, exactly
	for _, id := range sortedU64(ordQty) {
		no := post.OrderByID(id)
		if ordQty[id].Sign() == 0 {
			if no != nil {
				w.Violate("R1", "filled-order-remains", "sell order %d was bought completely but still exists with quantity %s", id, no.Quantity)
				return
			}
			continue
		}
		if no == nil {
			w.Violate("R1", "partially-filled-order-removed", "sell order %d should keep %s after a partial fill but is gone", id, RatStr(ordQty[id]))
			return
		}
		nq, _ := DecOrZero(no.Quantity)
		if nq.Cmp(ordQty[id]) != 0 {
			w.Violate("R1", "order-quantity-wrong-after-fill", "sell order %d should have %s left but has %s", id, RatStr(ordQty[id]), no.Quantity)
			return
		}
	}
	balField := func(s *Snapshot, key string, f func(interface {
		GetTradableAmount() string
		GetRetiredAmount() string
		GetEscrowedAmount() string
	}) string) *big.Rat {
		var addr string
		var bk uint64
		fmt.Sscanf(key[lastBar(key)+1:], "%d", &bk)
		addr = key[:lastBar(key)]
		r := s.Balance(addr, bk)
		if r == nil {
			return new(big.Rat)
		}
		v, _ := DecOrZero(f(r))
		return v
	}
	type bf = interface {
		GetTradableAmount() string
		GetRetiredAmount() string
		GetEscrowedAmount() string
	}
	for _, k := range sortedKeys(escrowDelta) {
		d := RatSub(balField(pre, k, func(b bf) string { return b.GetEscrowedAmount() }), balField(post, k, func(b bf) string { return b.GetEscrowedAmount() }))
		if d.Cmp(escrowDelta[k]) != 0 {
			w.Violate("R1", "seller-escrow-delta-wrong", "seller|batch %s: escrow should shrink by %s but shrank by %s", k, RatStr(escrowDelta[k]), RatStr(d))
			return
		}
	}
	for _, k := range sortedKeys(tradDelta) {
		d := RatSub(balField(post, k, func(b bf) string { return b.GetTradableAmount() }), balField(pre, k, func(b bf) string { return b.GetTradableAmount() }))
		if d.Cmp(tradDelta[k]) != 0 {
			w.Violate("R1", "buyer-tradable-delta-wrong", "buyer|batch %s: tradable should grow by %s but grew by %s", k, RatStr(tradDelta[k]), RatStr(d))
			return
		}
	}
	for _, k := range sortedKeys(retDelta) {
		d := RatSub(balField(post, k, func(b bf) string { return b.GetRetiredAmount() }), balField(pre, k, func(b bf) string { return b.GetRetiredAmount() }))
		if d.Cmp(retDelta[k]) != 0 {
			w.Violate("R1", "buyer-retired-delta-wrong", "buyer|batch %s: retired should grow by %s but grew by %s (auto-retire applies)", k, RatStr(retDelta[k]), RatStr(d))
			return
		}
		if _, both := tradDelta[k]; !both {
			d2 := RatSub(balField(post, k, func(b bf) string { return b.GetTradableAmount() }), balField(pre, k, func(b bf) string { return b.GetTradableAmount() }))
			if d2.Sign() != 0 {
				w.Violate("R1", "retired-purchase-changed-tradable", "buyer|batch %s: purchase is auto-retired but tradable changed by %s", k, RatStr(d2))
				return
			}
		}
	}
	for _, bk := range sortedU64(supRetire) {
		ps, ns := pre.SupplyRow(bk), post.SupplyRow(bk)
		if ps == nil || ns == nil {
			continue
		}
		t0, _ := DecOrZero(ps.TradableAmount)
		t1, _ := DecOrZero(ns.TradableAmount)
		r0, _ := DecOrZero(ps.RetiredAmount)
		r1, _ := DecOrZero(ns.RetiredAmount)
		if RatSub(t0, t1).Cmp(supRetire[bk]) != 0 || RatSub(r1, r0).Cmp(supRetire[bk]) != 0 {
			w.Violate("R1", "supply-not-moved-by-retired-purchase", "batch %d: %s bought retired, but supply tradable %s->%s retired %s->%s", bk, RatStr(supRetire[bk]), RatStr(t0), RatStr(t1), RatStr(r0), RatStr(r1))
			return
		}
	}
	// ---- R4: frame — nothing else changes
	allowedRow := func(d RowDiff) bool {
		switch d.Table {
		case "regen.ecocredit.marketplace.v1.SellOrder":
			var id uint64
			fmt.Sscanf(d.Key, "%d", &id)
			_, ok := ordQty[id]
			if ok && d.Before != nil && d.After != nil {
				// only the quantity may change
				a := proto.Clone(d.Before)
				setStr(a, "quantity", getStr(d.After, "quantity"))
				return proto.Equal(a, d.After)
			}
			return ok
		case "regen.ecocredit.v1.BatchBalance":
			var row interface {
				GetAddress() []byte
				GetBatchKey() uint64
			}
			if d.After != nil {
				row, _ = d.After.(interface {
					GetAddress() []byte
					GetBatchKey() uint64
				})
			} else {
				return false // a balance row must not disappear
			}
			k := fmt.Sprintf("%s|%d", AddrStr(row.GetAddress()), row.GetBatchKey())
			_, a := escrowDelta[k]
			_, b := tradDelta[k]
			_, c := retDelta[k]
			return a || b || c
		case "regen.ecocredit.v1.BatchSupply":
			row, _ := d.After.(interface{ GetBatchKey() uint64 })
			if row == nil {
				return false
			}
			_, ok := supRetire[row.GetBatchKey()]
			if ok {
				a := getStr(d.Before, "cancelled_amount")
				return d.Before != nil && a == getStr(d.After, "cancelled_amount")
			}
			return false
		}
		return false
	}
	for _, d := range DiffRows(pre, post) {
		if !allowedRow(d) {
			w.Violate("R4", "buy-changed-other-row/"+d.Table, "successful BuyDirect changed row %s[%s] which the purchase does not concern", d.Table, d.Key)
			return
		}
	}
	// ---- R3: coins
	pool := AddrStr(feePoolAddr())
	bank := DiffBank(pre, post)
	expectTouched := map[string]bool{}
	for _, k := range sortedKeys(sellerPay) {
		expectTouched[k] = true
	}
	for _, d := range sortedKeys(poolExact) {
		expectTouched[pool+"|"+d] = true
		expectTouched[buyer+"|"+d] = true
		expectTouched["|"+d] = true
	}
	for _, bd := range bank {
		if !expectTouched[bd.Addr+"|"+bd.Denom] {
			w.Violate("R4", "buy-changed-other-coins", "successful BuyDirect changed the %s balance of %q by %s, which the purchase does not concern", bd.Denom, bd.Addr, bd.Delta)
			return
		}
	}
	if !allInDomain {
		// exact values that need more than 34 significant digits: judged like every other purchase, against
		// the exact values the property names
		c.outOfDomain++
		w.Probe("c07_buy_with_exact_values_beyond_34_digits_checked")
	}
	delta := func(addr, denom string) *big.Int {
		return new(big.Int).Sub(post.BankBal(addr, denom), pre.BankBal(addr, denom))
	}
	within := func(got *big.Int, exact *big.Rat, tol int) bool {
		g := RatInt(got)
		lo := RatSub(exact, RatI64(int64(tol)))
		hi := RatAdd(exact, RatI64(int64(tol)))
		return g.Cmp(lo) >= 0 && g.Cmp(hi) <= 0
	}
	sellerTotal := map[string]*big.Int{}
	for _, k := range sortedKeys(sellerPay) {
		i := lastBar(k)
		addr, denom := k[:i], k[i+1:]
		got := delta(addr, denom)
		if addr == pool {
			continue
		}
		if !within(got, sellerPay[k], sellerN[k]) {
			w.Violate("R3", "seller-payment-wrong", "seller %s should be credited %s %s (quantity x ask − seller fee, ±%d unit) but its balance changed by %s", addr, RatStr(sellerPay[k]), denom, sellerN[k], got)
			return
		}
		if sellerTotal[denom] == nil {
			sellerTotal[denom] = new(big.Int)
		}
		sellerTotal[denom].Add(sellerTotal[denom], got)
	}
	for _, denom := range sortedKeys(poolExact) {
		var poolGot *big.Int
		if denom == "uregen" {
			// fees in uregen are burned: total supply shrinks, the pool keeps nothing
			poolGot = new(big.Int).Sub(pre.SupplyOf(denom), post.SupplyOf(denom))
			if d := delta(pool, denom); d.Sign() != 0 {
				w.Violate("R3", "uregen-fee-kept-in-pool", "uregen fees must be burned, but the fee pool balance changed by %s", d)
				return
			}
		} else {
			poolGot = delta(pool, denom)
			if d := new(big.Int).Sub(post.SupplyOf(denom), pre.SupplyOf(denom)); d.Sign() != 0 {
				w.Violate("R3", "supply-changed-for-non-uregen", "total supply of %s changed by %s in a purchase", denom, d)
				return
			}
		}
		if !within(poolGot, poolExact[denom], poolN[denom]) {
			w.Violate("R3", "fee-amount-wrong", "fee pool (or burn, for uregen) should receive %s %s (buyer fee + seller fee, ±%d unit) but got %s", RatStr(poolExact[denom]), denom, poolN[denom], poolGot)
			return
		}
		st := sellerTotal[denom]
		if st == nil {
			st = new(big.Int)
		}
		wantBuyer := new(big.Int).Neg(new(big.Int).Add(st, poolGot))
		gotBuyer := delta(buyer, denom)
		if gotBuyer.Cmp(wantBuyer) != 0 {
			w.Violate("R3", "buyer-debit-not-sum-of-credits", "buyer's %s balance changed by %s but sellers received %s and fees were %s", denom, gotBuyer, st, poolGot)
			return
		}
		if RatInt(new(big.Int).Neg(gotBuyer)).Cmp(buyerMax[denom]) > 0 {
			w.Violate("R3", "buyer-debited-more-than-exact-total", "buyer paid %s %s, more than the exact total quantity x ask x (1 + buyer fee rate) = %s", new(big.Int).Neg(gotBuyer), denom, RatStr(buyerMax[denom]))
			return
		}
	}
	feesOn := false
	for _, d := range sortedKeys(poolExact) {
		if poolExact[d].Sign() > 0 {
			feesOn = true
		}
	}
	if fractional && feesOn {
		c.nt = true
	}
	w.Probe("c07_successful_buy_checked")
}

func (c *C07) NonTrivial(w *World) bool { return c.nt }

func lastBar(s string) int {
	for i := len(s) - 1; i >= 0; i-- {
		if s[i] == '|' {
			return i
		}
	}
	return -1
}

func getStr(m proto.Message, field string) string {
	if m == nil {
		return ""
	}
	fd := m.ProtoReflect().Descriptor().Fields().ByName(protoName(field))
	if fd == nil {
		return ""
	}
	return m.ProtoReflect().Get(fd).String()
}

func setStr(m proto.Message, field, v string) {
	fd := m.ProtoReflect().Descriptor().Fields().ByName(protoName(field))
	if fd != nil {
		m.ProtoReflect().Set(fd, protoStringValue(v))
	}
}

func protoName(s string) protoreflect.Name         { return protoreflect.Name(s) }
func protoStringValue(v string) protoreflect.Value { return protoreflect.ValueOfString(v) }
