package engine
