package engine

func (g *Gen) genQueries(midBlock bool) bool { return true }
