package engine

func (g *Gen) genQueries(midBlock bool) bool { return true }
func (g *Gen) probePhase() bool              { return true }
