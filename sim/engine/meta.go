package engine

import (
	"encoding/json"
	"fmt"
	"strings"
)

type jsonRaw = json.RawMessage

var Verbose bool

func (s *Shrinker) Fails(steps []*Step) bool { return s.fails(steps) }

// DescribeStep renders a step compactly (evidence samples, verbose replay).
func DescribeStep(st *Step) string {
	switch st.Kind {
	case KBegin:
		return "begin " + st.Time
	case KTx:
		var names []string
		for _, raw := range st.Tx.Msgs {
			var t struct {
				T string `json:"@type"`
			}
			json.Unmarshal(raw, &t)
			n := t.T
			if i := strings.LastIndex(n, "."); i >= 0 {
				n = n[i+1:]
			}
			names = append(names, n)
		}
		s := fmt.Sprintf("tx %s… [%s]", st.Tx.Signer[:12], strings.Join(names, "+"))
		if st.Tx.Gas != 0 {
			s += fmt.Sprintf(" gas=%d", st.Tx.Gas)
		}
		if st.Tx.BankFault != nil {
			s += fmt.Sprintf(" bankfault=%s#%d", st.Tx.BankFault.Method, st.Tx.BankFault.Nth)
		}
		if st.Tx.Probe {
			s += " probe"
		}
		if st.Tx.Note != "" {
			s += " (" + st.Tx.Note + ")"
		}
		return s
	case KSim:
		return "simulate (gas estimation)"
	case KCommit:
		if st.Torn != nil {
			return fmt.Sprintf("commit torn mask=%05b writeerr=%v", st.Torn.Mask, st.Torn.WriteErr)
		}
		return "commit"
	case KGenesis:
		return fmt.Sprintf("genesis_restart continue=%v", st.Continue)
	default:
		return st.Kind
	}
}

var RealComponents = []string{
	"x/ecocredit base/basket/marketplace keepers, server, module (BeginBlock, genesis, invariants) — /repo working tree",
	"x/data server, module, genesis, IRI code — /repo working tree",
	"x/intertx keeper and message types — /repo working tree (C20 world)",
	"types/math, types/ormstore, types/ormutil, api/ generated ORM code — /repo working tree",
	"Cosmos SDK BaseApp (runTx, msg router, gRPC query router, cache multistore, panic recovery), x/auth account keeper, x/bank keeper, ORM, rootmulti + IAVL stores — unmodified dependencies",
	"tx encoding/decoding (auth/tx proto config), unsigned",
}

var StubComponents = []string{
	"ante handler reduced to SetUpContextDecorator; signatures replaced by the rule: every account some message requires (GetSigners) is the tx signer, who also pays the fee",
	"x/gov: governance actor signs authority messages with the gov module address",
	"consensus / p2p / mempool: seeded sequencer and mempool; block time chosen by the scheduler",
	"disk: SimDB (in-memory dbm.DB with durable image, torn-commit window, crash injection)",
	"bank keeper decorator injecting errors (real keeper underneath)",
	"ICA controller, capability keeper, host chain (C20 only); packet (de)serialisation uses real icatypes",
	"/repo/app production wiring is not used (does not build in this sandbox)",
}

type PropMeta struct {
	Rule        string
	Assumptions []string
}

var commonAssumptions = []string{
	"sampling, not enumeration: a clean batch is evidence, not proof",
	"reduced ante handler, stub gov/consensus/IBC (see stub_components)",
	"observation trusts SDK ORM decoding, generated ORM code in /repo/api and the bank keeper's read methods",
}

var propRules = map[string]string{}

func SetPropRule(id, rule string) { propRules[id] = rule }

func PropertyMeta(id string) PropMeta {
	r := propRules[id]
	if r == "" {
		r = "one evaluation = one whole simulated run (seeded swarm profile, 8-45 blocks, up to 220 txs); distinct = distinct hash of the run's (signer, message types, outcome) sequence; non-trivial = see DESIGN.md §5 " + id
	}
	return PropMeta{Rule: r, Assumptions: commonAssumptions}
}
