package engine

import (
	"fmt"
	"math/big"
	"regexp"
	"strings"
	"time"

	sdk "github.com/cosmos/cosmos-sdk/types"

	basketv1 "github.com/regen-network/regen-ledger/api/v2/regen/ecocredit/basket/v1"
	basev1 "github.com/regen-network/regen-ledger/api/v2/regen/ecocredit/v1"
	"github.com/regen-network/regen-ledger/x/data/v3"
	basetypes "github.com/regen-network/regen-ledger/x/ecocredit/v3/base/types/v1"
	baskettypes "github.com/regen-network/regen-ledger/x/ecocredit/v3/basket/types/v1"
	markettypes "github.com/regen-network/regen-ledger/x/ecocredit/v3/marketplace/types/v1"
)

// Documented preconditions of user operations, evaluated on the pre-state by
// the harness itself (independent of the handlers). Used only for the
// bounded-liveness rules C11.R2 and C18.R4, and only for probe txs.
//
// holds=false with a reason means "the harness cannot vouch for the
// preconditions"; such a probe is simply not judged.

var reJurisdiction = regexp.MustCompile(`^([A-Z]{2})(?:-([A-Z0-9]{1,3})(?: ([a-zA-Z0-9 \-]{1,64}))?)?$`)
var rePlainDec = regexp.MustCompile(`^[0-9]+(\.[0-9]+)?$`)
var reBasketName = regexp.MustCompile(`^[a-zA-Z][a-zA-Z0-9]{2,7}$`)

const precondMaxDigits = 24 // probes stay far inside the 34-digit arithmetic domain

func plainAmount(s string, p int) (*big.Rat, bool) {
	if !rePlainDec.MatchString(s) || len(s) > precondMaxDigits {
		return nil, false
	}
	if i := strings.IndexByte(s, '.'); i >= 0 && len(s)-i-1 > p {
		return nil, false
	}
	r, ok := ParseDec(s)
	if !ok || r.Sign() <= 0 {
		return nil, false
	}
	return r, true
}

func tsNanos(sec int64, nanos int32) *big.Int {
	x := new(big.Int).Mul(big.NewInt(sec), big.NewInt(1e9))
	return x.Add(x, big.NewInt(int64(nanos)))
}

// criterionOK: batch start date is not earlier than the basket's date
// criterion evaluated at blockTime. Integer arithmetic, UTC.
func criterionOK(bk *basketv1.Basket, b *basev1.Batch, blockTime time.Time) bool {
	dc := bk.DateCriteria
	if dc == nil {
		return true
	}
	if b.StartDate == nil {
		return false
	}
	start := tsNanos(b.StartDate.Seconds, b.StartDate.Nanos)
	switch {
	case dc.MinStartDate != nil:
		return start.Cmp(tsNanos(dc.MinStartDate.Seconds, dc.MinStartDate.Nanos)) >= 0
	case dc.StartDateWindow != nil:
		blk := tsNanos(blockTime.Unix(), int32(blockTime.Nanosecond()))
		win := tsNanos(dc.StartDateWindow.Seconds, dc.StartDateWindow.Nanos)
		return start.Cmp(new(big.Int).Sub(blk, win)) >= 0
	case dc.YearsInThePast != 0:
		y := blockTime.UTC().Year() - int(dc.YearsInThePast)
		jan1 := time.Date(y, 1, 1, 0, 0, 0, 0, time.UTC)
		return start.Cmp(tsNanos(jan1.Unix(), 0)) >= 0
	}
	return true
}

func basketHasClass(s *Snapshot, bk *basketv1.Basket, classID string) bool {
	for _, bc := range s.BasketClasses {
		if bc.BasketId == bk.Id && bc.ClassId == classID {
			return true
		}
	}
	return false
}

// putAdmissible: the three admission conditions of C11 for one batch.
func putAdmissible(s *Snapshot, bk *basketv1.Basket, b *basev1.Batch, blockTime time.Time) (bool, string) {
	cl := s.ClassOfBatch(b)
	if cl == nil {
		return false, "batch has no class"
	}
	if !basketHasClass(s, bk, cl.Id) {
		return false, fmt.Sprintf("class %s is not on the basket's allowed list", cl.Id)
	}
	if cl.CreditTypeAbbrev != bk.CreditTypeAbbrev {
		return false, fmt.Sprintf("class credit type %s differs from the basket's %s", cl.CreditTypeAbbrev, bk.CreditTypeAbbrev)
	}
	if !criterionOK(bk, b, blockTime) {
		return false, fmt.Sprintf("batch start date %s is earlier than the basket's date criterion at block time %s", FmtTime(TsTime(b.StartDate)), FmtTime(blockTime))
	}
	return true, ""
}

func feeOK(s *Snapshot, signer string, feeDenom, feeAmt string, offered []sdk.Coin) (bool, string) {
	fee, ok := new(big.Int).SetString(feeAmt, 10)
	if !ok || fee.Sign() < 0 {
		return false, "stored fee unparsable"
	}
	var off *big.Int
	for _, c := range offered {
		if c.Denom == feeDenom {
			off = c.Amount.BigInt()
		}
	}
	if off == nil || off.Cmp(fee) < 0 || off.Sign() <= 0 {
		return false, "offer does not cover the fee"
	}
	if len(offered) != 1 {
		return false, "more than one coin offered"
	}
	if s.BankBal(signer, feeDenom).Cmp(fee) < 0 {
		return false, "balance below the fee"
	}
	return true, ""
}

func validHash(ch *data.ContentHash) bool {
	check := func(h []byte, digest uint32) bool { return len(h) >= 20 && len(h) <= 64 && digest != 0 }
	if r := ch.GetRaw(); r != nil && ch.GetGraph() == nil {
		if !check(r.Hash, r.DigestAlgorithm) || len(r.FileExtension) < 2 || len(r.FileExtension) > 6 {
			return false
		}
		for _, c := range r.FileExtension {
			if !(c >= '0' && c <= '9' || c >= 'a' && c <= 'z') {
				return false
			}
		}
		return true
	}
	if g := ch.GetGraph(); g != nil && ch.GetRaw() == nil {
		return check(g.Hash, g.DigestAlgorithm) && g.CanonicalizationAlgorithm != 0
	}
	return false
}

// PrecondsHold decides whether the documented preconditions of msg hold on
// the pre-state s at blockTime for signer. judged=false: message type not covered.
func PrecondsHold(s *Snapshot, blockTime time.Time, signer string, m sdk.Msg) (holds bool, why string, judged bool) {
	no := func(f string, a ...interface{}) (bool, string, bool) { return false, fmt.Sprintf(f, a...), true }
	yes := func() (bool, string, bool) { return true, "", true }
	switch msg := m.(type) {
	case *basetypes.MsgCreateClass:
		if msg.Admin != signer {
			return no("admin != signer")
		}
		if s.CreditType(msg.CreditTypeAbbrev) == nil {
			return no("credit type does not exist")
		}
		if s.Allowlist != nil && s.Allowlist.Enabled {
			ok := false
			for _, c := range s.Creators {
				if AddrStr(c.Address) == signer {
					ok = true
				}
			}
			if !ok {
				return no("creator not on the allowlist")
			}
		}
		if len(msg.Issuers) == 0 || len(msg.Issuers) > 5 || len(msg.Metadata) > 256 {
			return no("issuers/metadata")
		}
		seen := map[string]bool{}
		for _, is := range msg.Issuers {
			if _, err := sdk.AccAddressFromBech32(is); err != nil || seen[is] {
				return no("bad or duplicate issuer")
			}
			seen[is] = true
		}
		if s.ClassFee != nil && s.ClassFee.Fee != nil {
			if msg.Fee == nil {
				return no("no fee offered")
			}
			if ok, why := feeOK(s, signer, s.ClassFee.Fee.Denom, s.ClassFee.Fee.Amount, []sdk.Coin{*msg.Fee}); !ok {
				return no("%s", why)
			}
		} else if msg.Fee != nil {
			return no("fee offered although none is required") // not vouched for
		}
		return yes()
	case *baskettypes.MsgCreate:
		if msg.Curator != signer || !reBasketName.MatchString(msg.Name) || len(msg.Description) > 256 {
			return no("curator/name/description")
		}
		ct := s.CreditType(msg.CreditTypeAbbrev)
		if ct == nil {
			return no("credit type does not exist")
		}
		for _, bk := range s.Baskets {
			if bk.Name == msg.Name {
				return no("name in use")
			}
		}
		if len(msg.AllowedClasses) == 0 {
			return no("no classes")
		}
		seen := map[string]bool{}
		for _, cid := range msg.AllowedClasses {
			cl := s.ClassByID(cid)
			if cl == nil || cl.CreditTypeAbbrev != msg.CreditTypeAbbrev || seen[cid] {
				return no("class %s missing, of another credit type, or listed twice", cid)
			}
			seen[cid] = true
		}
		if dc := msg.DateCriteria; dc != nil {
			n := 0
			if dc.MinStartDate != nil {
				n++
				if dc.MinStartDate.Seconds < -2208992400 { // before 1900: not vouched for
					return no("min start date before 1900")
				}
			}
			if dc.StartDateWindow != nil {
				n++
				if dc.StartDateWindow.Seconds < 86400 {
					return no("window shorter than a day")
				}
			}
			if dc.YearsInThePast != 0 {
				n++
			}
			if n > 1 {
				return no("more than one date criterion")
			}
		}
		if s.BasketFee != nil && s.BasketFee.Fee != nil {
			if ok, why := feeOK(s, signer, s.BasketFee.Fee.Denom, s.BasketFee.Fee.Amount, msg.Fee); !ok {
				return no("%s", why)
			}
		} else if len(msg.Fee) != 0 {
			return no("fee offered although none is required")
		}
		return yes()
	case *baskettypes.MsgPut:
		if msg.Owner != signer {
			return no("owner != signer")
		}
		bk := s.BasketByDenom(msg.BasketDenom)
		if bk == nil {
			return no("basket does not exist")
		}
		ct := s.CreditType(bk.CreditTypeAbbrev)
		if ct == nil || len(msg.Credits) == 0 {
			return no("credit type / credits")
		}
		need := map[uint64]*big.Rat{}
		for _, cr := range msg.Credits {
			b := s.BatchByDenom(cr.BatchDenom)
			if b == nil {
				return no("batch %s does not exist", cr.BatchDenom)
			}
			if ok, why := putAdmissible(s, bk, b, blockTime); !ok {
				return no("%s", why)
			}
			amt, ok := plainAmount(cr.Amount, int(ct.Precision))
			if !ok {
				return no("amount %q", cr.Amount)
			}
			if need[b.Key] == nil {
				need[b.Key] = new(big.Rat)
			}
			need[b.Key].Add(need[b.Key], amt)
		}
		for k, n := range need {
			bal := s.Balance(signer, k)
			if bal == nil {
				return no("owner holds nothing of batch %d", k)
			}
			tr, ok := DecOrZero(bal.TradableAmount)
			if !ok || tr.Cmp(n) < 0 {
				return no("owner's tradable balance %s below %s", bal.TradableAmount, RatStr(n))
			}
		}
		return yes()
	case *baskettypes.MsgTake:
		if msg.Owner != signer {
			return no("owner != signer")
		}
		bk := s.BasketByDenom(msg.BasketDenom)
		if bk == nil {
			return no("basket does not exist")
		}
		if !msg.RetireOnTake && !bk.DisableAutoRetire {
			return no("retire_on_take=false on an auto-retire basket")
		}
		amt, ok := new(big.Int).SetString(msg.Amount, 10)
		if !ok || amt.Sign() <= 0 || len(msg.Amount) > precondMaxDigits || strings.HasPrefix(msg.Amount, "+") || strings.HasPrefix(msg.Amount, "0") {
			return no("amount %q", msg.Amount)
		}
		if s.BankBal(signer, bk.BasketDenom).Cmp(amt) < 0 {
			return no("token balance below amount")
		}
		if msg.RetireOnTake {
			if !reJurisdiction.MatchString(msg.RetirementJurisdiction) || msg.RetirementLocation != "" {
				return no("jurisdiction")
			}
		}
		if len(msg.RetirementReason) > 512 {
			return no("reason")
		}
		return yes()
	case *basetypes.MsgSend:
		if msg.Sender != signer || msg.Recipient == signer || len(msg.Credits) == 0 {
			return no("sender/recipient")
		}
		if _, err := sdk.AccAddressFromBech32(msg.Recipient); err != nil {
			return no("recipient")
		}
		need := map[uint64]*big.Rat{}
		for _, cr := range msg.Credits {
			b := s.BatchByDenom(cr.BatchDenom)
			if b == nil {
				return no("batch")
			}
			p := s.PrecisionOfBatch(b)
			if p < 0 {
				return no("precision")
			}
			sum := new(big.Rat)
			if cr.TradableAmount != "" {
				v, ok := plainAmount(cr.TradableAmount, p)
				if !ok {
					return no("tradable amount")
				}
				sum.Add(sum, v)
			}
			if cr.RetiredAmount != "" {
				v, ok := plainAmount(cr.RetiredAmount, p)
				if !ok || !reJurisdiction.MatchString(cr.RetirementJurisdiction) || len(cr.RetirementReason) > 512 {
					return no("retired amount / jurisdiction")
				}
				sum.Add(sum, v)
			}
			if sum.Sign() == 0 {
				return no("nothing to send")
			}
			if need[b.Key] == nil {
				need[b.Key] = new(big.Rat)
			}
			need[b.Key].Add(need[b.Key], sum)
		}
		for k, n := range need {
			bal := s.Balance(signer, k)
			if bal == nil {
				return no("no balance")
			}
			tr, ok := DecOrZero(bal.TradableAmount)
			if !ok || tr.Cmp(n) < 0 {
				return no("tradable below amount")
			}
		}
		return yes()
	case *basetypes.MsgRetire:
		if msg.Owner != signer || len(msg.Credits) == 0 || !reJurisdiction.MatchString(msg.Jurisdiction) || len(msg.Reason) > 512 {
			return no("owner/jurisdiction")
		}
		need := map[uint64]*big.Rat{}
		for _, cr := range msg.Credits {
			b := s.BatchByDenom(cr.BatchDenom)
			if b == nil {
				return no("batch")
			}
			v, ok := plainAmount(cr.Amount, s.PrecisionOfBatch(b))
			if !ok {
				return no("amount")
			}
			if need[b.Key] == nil {
				need[b.Key] = new(big.Rat)
			}
			need[b.Key].Add(need[b.Key], v)
		}
		for k, n := range need {
			bal := s.Balance(signer, k)
			if bal == nil {
				return no("no balance")
			}
			tr, ok := DecOrZero(bal.TradableAmount)
			if !ok || tr.Cmp(n) < 0 {
				return no("tradable below amount")
			}
		}
		return yes()
	case *markettypes.MsgSell:
		if msg.Seller != signer || len(msg.Orders) == 0 {
			return no("seller")
		}
		need := map[uint64]*big.Rat{}
		for _, o := range msg.Orders {
			b := s.BatchByDenom(o.BatchDenom)
			if b == nil {
				return no("batch")
			}
			v, ok := plainAmount(o.Quantity, s.PrecisionOfBatch(b))
			if !ok {
				return no("quantity")
			}
			if o.AskPrice == nil || !denomAllowed(s, o.AskPrice.Denom) || o.AskPrice.Amount.IsNil() || !o.AskPrice.Amount.IsPositive() || o.AskPrice.Amount.BigInt().BitLen() > 80 {
				return no("ask price")
			}
			if o.Expiration != nil && !o.Expiration.After(blockTime) {
				return no("expiration not in the future")
			}
			if need[b.Key] == nil {
				need[b.Key] = new(big.Rat)
			}
			need[b.Key].Add(need[b.Key], v)
		}
		for k, n := range need {
			bal := s.Balance(signer, k)
			if bal == nil {
				return no("no balance")
			}
			tr, ok := DecOrZero(bal.TradableAmount)
			if !ok || tr.Cmp(n) < 0 {
				return no("tradable below quantity")
			}
		}
		return yes()
	case *markettypes.MsgBuyDirect:
		if msg.Buyer != signer || len(msg.Orders) != 1 {
			return no("buyer / single order only")
		}
		bo := msg.Orders[0]
		o := s.OrderByID(bo.SellOrderId)
		if o == nil {
			return no("order does not exist")
		}
		if AddrStr(o.Seller) == signer {
			return no("own order")
		}
		ts, tn := blockTime.Unix(), int32(blockTime.Nanosecond())
		if orderExpired(o, ts, tn) {
			return no("order expired")
		}
		if bo.DisableAutoRetire && !o.DisableAutoRetire {
			return no("auto-retire")
		}
		if !bo.DisableAutoRetire && (!reJurisdiction.MatchString(bo.RetirementJurisdiction) || len(bo.RetirementReason) > 512) {
			return no("jurisdiction")
		}
		b := s.BatchByKey(o.BatchKey)
		if b == nil {
			return no("batch")
		}
		if _, ok := plainAmount(bo.Quantity, s.PrecisionOfBatch(b)); !ok {
			return no("quantity")
		}
		ref, ok := refBuy(s, o, bo)
		if !ok {
			return no("reference not computable")
		}
		// liveness does not need the exact fee to be representable in 34 digits (fee rates may have
		// many decimals); it needs amounts small enough that 34-digit rounding stays far below one unit
		if RatAdd(ref.Cost, ref.BuyerFee).Cmp(RatInt(pow10(28))) >= 0 {
			return no("amounts too large for the liveness rule")
		}
		oq, _ := DecOrZero(o.Quantity)
		if ref.Qty.Cmp(oq) > 0 {
			return no("quantity above order")
		}
		if bo.BidPrice == nil || bo.BidPrice.Denom != ref.Denom || bo.BidPrice.Amount.BigInt().Cmp(ref.Ask) < 0 {
			return no("bid")
		}
		if bo.MaxFeeAmount == nil || bo.MaxFeeAmount.Denom != ref.Denom {
			return no("max fee denom")
		}
		need := RatAdd(ref.Cost, ref.BuyerFee)
		if RatInt(bo.MaxFeeAmount.Amount.BigInt()).Cmp(RatAdd(ref.BuyerFee, RatI64(1))) < 0 {
			return no("max fee not ample")
		}
		if RatInt(s.BankBal(signer, ref.Denom)).Cmp(RatAdd(need, RatI64(2))) < 0 {
			return no("buyer balance below total cost")
		}
		return yes()
	case *data.MsgAnchor:
		if msg.Sender != signer || msg.ContentHash == nil || !validHash(msg.ContentHash) {
			return no("sender / content hash")
		}
		return yes()
	}
	return false, "", false
}
