package engine

import (
	"fmt"
	"math/big"

	sdk "github.com/cosmos/cosmos-sdk/types"

	"github.com/regen-network/regen-ledger/x/data/v3"
	basetypes "github.com/regen-network/regen-ledger/x/ecocredit/v3/base/types/v1"
	baskettypes "github.com/regen-network/regen-ledger/x/ecocredit/v3/basket/types/v1"
	markettypes "github.com/regen-network/regen-ledger/x/ecocredit/v3/marketplace/types/v1"
)

// probePhase: faults stopped. Fresh view, no gas limit, no bank fault, single
// message, delivered at once. The checker re-establishes the preconditions on
// the pre-state itself before demanding success.
func (g *Gen) probePhase() bool {
	kinds := []string{"CreateClass", "BasketCreate", "Sell", "Buy", "Put", "Take", "Send", "Retire", "Anchor"}
	if g.W.Property == "C11" {
		kinds = []string{"Put", "Put", "Take"}
	}
	n := g.R.Range(2, 5)
	for i := 0; i < n; i++ {
		k := Pick(g.R, kinds)
		signer, m := g.buildProbe(k)
		if m == nil {
			continue
		}
		st := txStep(signer, "probe:"+k, true, m)
		if st == nil {
			continue
		}
		g.txs++
		g.W.Probe("probe_tx_issued")
		if !g.emit(st) {
			return false
		}
	}
	return true
}

func (g *Gen) richActor(v *Snapshot, denom string, min *big.Int) *Actor {
	var xs []*Actor
	for _, a := range g.Actors {
		if v.BankBal(a.Addr, denom).Cmp(min) >= 0 {
			xs = append(xs, a)
		}
	}
	if len(xs) == 0 {
		return nil
	}
	return xs[g.R.Intn(len(xs))]
}

func (g *Gen) buildProbe(kind string) (string, sdk.Msg) {
	v := g.W.Cur
	switch kind {
	case "CreateClass":
		if len(v.CreditTypes) == 0 {
			return "", nil
		}
		var cands []*Actor
		for _, a := range g.Actors {
			ok := true
			if v.Allowlist != nil && v.Allowlist.Enabled {
				ok = false
				for _, c := range v.Creators {
					if AddrStr(c.Address) == a.Addr {
						ok = true
					}
				}
			}
			if ok {
				cands = append(cands, a)
			}
		}
		if len(cands) == 0 {
			return "", nil
		}
		a := cands[g.R.Intn(len(cands))]
		m := &basetypes.MsgCreateClass{Admin: a.Addr, Issuers: []string{a.Addr}, Metadata: "probe", CreditTypeAbbrev: v.CreditTypes[g.R.Intn(len(v.CreditTypes))].Abbreviation}
		if v.ClassFee != nil && v.ClassFee.Fee != nil {
			fee, _ := new(big.Int).SetString(v.ClassFee.Fee.Amount, 10)
			if fee == nil {
				return "", nil
			}
			if fee.Sign() == 0 {
				fee = big.NewInt(1) // a zero fee is "set": any positive offer in its denom covers it
			}
			if r := g.richActor(v, v.ClassFee.Fee.Denom, fee); r != nil {
				ok := false
				for _, c := range cands {
					if c == r {
						ok = true
					}
				}
				if ok {
					a = r
					m.Admin, m.Issuers = a.Addr, []string{a.Addr}
				}
			}
			m.Fee = coinP(v.ClassFee.Fee.Denom, fee)
		}
		return a.Addr, m
	case "BasketCreate":
		if len(v.Classes) == 0 {
			return "", nil
		}
		cl := v.Classes[g.R.Intn(len(v.Classes))]
		a := g.user()
		m := &baskettypes.MsgCreate{Curator: a.Addr, Name: fmt.Sprintf("P%dx%d", g.R.Intn(90)+10, g.next()%100), Description: "probe", DisableAutoRetire: g.R.Chance(0.5), CreditTypeAbbrev: cl.CreditTypeAbbrev, AllowedClasses: []string{cl.Id}}
		if v.BasketFee != nil && v.BasketFee.Fee != nil {
			fee, _ := new(big.Int).SetString(v.BasketFee.Fee.Amount, 10)
			if fee == nil {
				return "", nil
			}
			if fee.Sign() == 0 {
				fee = big.NewInt(1)
			}
			if r := g.richActor(v, v.BasketFee.Fee.Denom, fee); r != nil {
				a = r
				m.Curator = a.Addr
			}
			m.Fee = sdk.Coins{coin(v.BasketFee.Fee.Denom, fee)}
		}
		return a.Addr, m
	case "Sell":
		if len(v.AllowedDenoms) == 0 {
			return "", nil
		}
		for try := 0; try < 6; try++ {
			a := g.user()
			b, bal := g.heldBatch(v, a)
			if b == nil {
				continue
			}
			p := g.precOf(v, b)
			q := truncTo(new(big.Rat).Quo(bal, RatI64(int64(g.R.Range(1, 4)))), p)
			if q.Sign() <= 0 || len(FmtDec(q, p)) > 20 {
				continue
			}
			return a.Addr, &markettypes.MsgSell{Seller: a.Addr, Orders: []*markettypes.MsgSell_Order{{BatchDenom: b.Denom, Quantity: FmtDec(q, p),
				AskPrice: coinP(v.AllowedDenoms[g.R.Intn(len(v.AllowedDenoms))].BankDenom, big.NewInt(int64(g.R.Range(1, 5000)))), DisableAutoRetire: g.R.Chance(0.5)}}}
		}
	case "Buy":
		ts, tn := v.Time.Unix(), int32(v.Time.Nanosecond())
		for try := 0; try < 8 && len(v.Orders) > 0; try++ {
			o := v.Orders[g.R.Intn(len(v.Orders))]
			if orderExpired(o, ts, tn) {
				continue
			}
			mk := v.MarketByID(o.MarketId)
			b := v.BatchByKey(o.BatchKey)
			if mk == nil || b == nil {
				continue
			}
			p := g.precOf(v, b)
			oq, _ := DecOrZero(o.Quantity)
			q := oq
			if g.R.Chance(0.6) {
				q = truncTo(new(big.Rat).Quo(oq, RatI64(int64(g.R.Range(2, 7)))), p)
			}
			if q.Sign() <= 0 || len(FmtDec(q, p)) > 20 {
				continue
			}
			ask, ok := new(big.Int).SetString(o.AskAmount, 10)
			if !ok {
				continue
			}
			bo := &markettypes.MsgBuyDirect_Order{SellOrderId: o.Id, Quantity: FmtDec(q, p), BidPrice: coinP(mk.BankDenom, ask), DisableAutoRetire: o.DisableAutoRetire && g.R.Chance(0.5), RetirementJurisdiction: "US-WA", RetirementReason: "probe"}
			ref, ok := refBuy(v, o, bo)
			if !ok {
				continue
			}
			bo.MaxFeeAmount = coinP(mk.BankDenom, new(big.Int).Add(RatFloor(ref.BuyerFee), big.NewInt(10)))
			need := new(big.Int).Add(RatFloor(RatAdd(ref.Cost, ref.BuyerFee)), big.NewInt(5))
			var buyer *Actor
			for _, a := range g.Actors {
				if a.Addr != ref.Seller && v.BankBal(a.Addr, mk.BankDenom).Cmp(need) >= 0 {
					buyer = a
					if g.R.Chance(0.5) {
						break
					}
				}
			}
			if buyer == nil {
				continue
			}
			return buyer.Addr, &markettypes.MsgBuyDirect{Buyer: buyer.Addr, Orders: []*markettypes.MsgBuyDirect_Order{bo}}
		}
	case "Put":
		for try := 0; try < 10 && len(v.Baskets) > 0; try++ {
			bk := v.Baskets[g.R.Intn(len(v.Baskets))]
			a := g.user()
			b, bal := g.heldBatch(v, a)
			if b == nil {
				continue
			}
			if ok, _ := putAdmissible(v, bk, b, v.Time); !ok {
				continue
			}
			p := g.precOf(v, b)
			q := truncTo(new(big.Rat).Quo(bal, RatI64(int64(g.R.Range(1, 3)))), p)
			if q.Sign() <= 0 || len(FmtDec(q, p)) > 20 {
				continue
			}
			g.W.Probe("probe_put_admissible")
			return a.Addr, &baskettypes.MsgPut{Owner: a.Addr, BasketDenom: bk.BasketDenom, Credits: []*baskettypes.BasketCredit{{BatchDenom: b.Denom, Amount: FmtDec(q, p)}}}
		}
	case "Take":
		for try := 0; try < 8 && len(v.Baskets) > 0; try++ {
			bk := v.Baskets[g.R.Intn(len(v.Baskets))]
			a := g.user()
			bal := v.BankBal(a.Addr, bk.BasketDenom)
			if bal.Sign() <= 0 || len(bal.String()) > 20 {
				continue
			}
			amt := g.intLE(bal)
			retire := !bk.DisableAutoRetire || g.R.Chance(0.5)
			m := &baskettypes.MsgTake{Owner: a.Addr, BasketDenom: bk.BasketDenom, Amount: amt.String(), RetireOnTake: retire}
			if retire {
				m.RetirementJurisdiction = "KE"
			}
			return a.Addr, m
		}
	case "Send", "Retire":
		for try := 0; try < 6; try++ {
			a := g.user()
			b, bal := g.heldBatch(v, a)
			if b == nil {
				continue
			}
			p := g.precOf(v, b)
			q := truncTo(new(big.Rat).Quo(bal, RatI64(int64(g.R.Range(1, 5)))), p)
			if q.Sign() <= 0 || len(FmtDec(q, p)) > 20 {
				continue
			}
			if kind == "Retire" {
				return a.Addr, &basetypes.MsgRetire{Owner: a.Addr, Credits: []*basetypes.Credits{{BatchDenom: b.Denom, Amount: FmtDec(q, p)}}, Jurisdiction: "US", Reason: "probe"}
			}
			return a.Addr, &basetypes.MsgSend{Sender: a.Addr, Recipient: g.otherUser(a).Addr, Credits: []*basetypes.MsgSend_SendCredits{{BatchDenom: b.Denom, TradableAmount: FmtDec(q, p)}}}
		}
	case "Anchor":
		a := g.user()
		return a.Addr, &data.MsgAnchor{Sender: a.Addr, ContentHash: &data.ContentHash{Raw: &data.ContentHash_Raw{Hash: g.R.Bytes(32), DigestAlgorithm: 1, FileExtension: "pdf"}}}
	}
	return "", nil
}
