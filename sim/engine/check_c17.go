package engine

import (
	"fmt"
	"sort"
	"strings"
)

// C17 — queries return exactly the matching state; paging neither drops nor repeats.
type C17 struct {
	BaseChecker
	prefixPairQueried map[string]bool
	nt                bool
}

func init() {
	RegisterChecker("C17", func() Checker { return &C17{prefixPairQueried: map[string]bool{}} })
}
func (c *C17) ID() string { return "C17" }

func sortedCopy(xs []string) []string {
	out := append([]string(nil), xs...)
	sort.Strings(out)
	return out
}

func diffSets(want, got []string) (missing, extra []string) {
	w, g := map[string]int{}, map[string]int{}
	for _, x := range want {
		w[x]++
	}
	for _, x := range got {
		g[x]++
	}
	for _, x := range sortedCopy(want) {
		if g[x] < w[x] {
			missing = append(missing, x)
		}
	}
	for _, x := range sortedCopy(got) {
		if w[x] < g[x] {
			extra = append(extra, x)
		}
	}
	return
}

func allZeroAmounts(item string) bool {
	// the trailing fields of a zero row are amounts equal to zero (or a single balance string)
	parts := strings.Split(item, "|")
	n := 0
	for i := len(parts) - 1; i >= 0 && n < 3; i-- {
		v, ok := DecOrZero(parts[i])
		if !ok || v.Sign() != 0 {
			return n > 0 && len(parts) > 3 && n == 3
		}
		n++
	}
	return true
}

func short(xs []string) string {
	if len(xs) > 3 {
		return fmt.Sprintf("%v … (%d)", xs[:3], len(xs))
	}
	return fmt.Sprint(xs)
}

func (c *C17) AfterQuery(w *World, q *QueryCtx) {
	qs := q.Step
	where := fmt.Sprintf("%s(%q,%q) at height %d", qs.Name, qs.Arg, qs.Arg2, q.Height)
	if q.MidBlock {
		where += " (asked mid-block)"
	}
	var got []string
	for _, p := range q.Pages {
		got = append(got, p...)
	}
	if q.Err != "" && qs.StartOffset > uint64(len(q.Want)) {
		// An offset strictly beyond the end is not part of any page walk the property speaks of.
		// (The SDK's ORM paginator panics there - Cursor() on an exhausted iterator - and the
		// query answers with an error instead of an empty page; noted in DESIGN.md, not judged.)
		w.Probe("c17_offset_beyond_end_answered_with_error")
		return
	}
	if q.Err != "" {
		if len(q.Want) > 0 && q.Exists {
			w.Violate("R1", "query-fails-although-entities-match/"+qs.Name, "%s fails (%s) although %d stored entities match: %s", where, firstLine(q.Err), len(q.Want), short(q.Want))
		}
		return
	}
	if q.WalkErr != "" {
		w.Violate("R2", "page-walk-broken/"+qs.Name, "%s limit=%d by_offset=%v reverse=%v: %s", where, qs.Limit, qs.ByOffset, qs.Reverse, q.WalkErr)
		return
	}
	if !q.Exists {
		// R5: a filter value that denotes nothing yields nothing (or an error), never another entity's rows
		if len(got) == 0 {
			return
		}
		if q.Spec.ZeroOK && len(got) == 1 && allZeroAmounts(got[0]) {
			return
		}
		w.Violate("R5", "rows-returned-for-nonexistent-filter/"+qs.Name, "%s: the filter value denotes nothing in state, yet the query returns %s", where, short(got))
		return
	}
	if !q.Spec.Paged {
		missing, extra := diffSets(q.Want, got)
		if len(missing)+len(extra) > 0 {
			w.Violate("R4", "single-query-differs-from-state/"+qs.Name, "%s returns %s, the stored state says %s", where, short(got), short(q.Want))
		}
		return
	}
	if qs.StartOffset > 0 {
		// a walk that starts in the middle, at the end or beyond it: the order of the list is the
		// query's own business, so only the count, membership and the total are judged
		w.Probe("c17_walk_from_start_offset")
		wantN := 0
		if uint64(len(q.Want)) > qs.StartOffset {
			wantN = len(q.Want) - int(qs.StartOffset)
		} else {
			w.Probe("c17_walk_from_offset_at_or_beyond_end")
		}
		_, extra := diffSets(q.Want, got)
		if len(extra) > 0 {
			w.Violate("R1", "list-returns-non-matching/"+qs.Name, "%s limit=%d start_offset=%d reverse=%v returns elements that do not match the filter in the stored state: %s", where, qs.Limit, qs.StartOffset, qs.Reverse, short(extra))
			return
		}
		if len(got) != wantN {
			w.Violate("R2", "offset-walk-wrong-count/"+qs.Name, "%s limit=%d reverse=%v: walking from offset %d over %d matching elements must yield %d elements, got %d over %d pages: %s", where, qs.Limit, qs.Reverse, qs.StartOffset, len(q.Want), wantN, len(got), len(q.Pages), short(got))
			return
		}
		seenO := map[string]bool{}
		for _, x := range got {
			if seenO[x] {
				w.Violate("R2", "page-walk-repeats-element/"+qs.Name, "%s limit=%d start_offset=%d reverse=%v: element %q is returned twice", where, qs.Limit, qs.StartOffset, qs.Reverse, x)
				return
			}
			seenO[x] = true
		}
		if q.HasTotal && q.Total != uint64(len(q.Want)) {
			w.Violate("R3", "wrong-total/"+qs.Name, "%s limit=%d start_offset=%d reverse=%v reports total %d, %d elements match", where, qs.Limit, qs.StartOffset, qs.Reverse, q.Total, len(q.Want))
		}
		return
	}
	// duplicates across pages
	seen := map[string]int{}
	for _, x := range got {
		seen[x]++
	}
	wantCount := map[string]int{}
	for _, x := range q.Want {
		wantCount[x]++
	}
	for _, x := range sortedCopy(got) {
		if seen[x] > wantCount[x] && wantCount[x] > 0 {
			w.Violate("R2", "page-walk-repeats-element/"+qs.Name, "%s limit=%d by_offset=%v reverse=%v count_total=%v: element %q is returned %d times over %d pages", where, qs.Limit, qs.ByOffset, qs.Reverse, qs.CountTotal, x, seen[x], len(q.Pages))
			return
		}
	}
	if qs.Limit == 0 && len(q.Want) > 100 {
		return // default page size truncates; not judged
	}
	missing, extra := diffSets(q.Want, got)
	if len(extra) > 0 {
		w.Violate("R1", "list-returns-non-matching/"+qs.Name, "%s limit=%d by_offset=%v reverse=%v returns elements that do not match the filter in the stored state: %s", where, qs.Limit, qs.ByOffset, qs.Reverse, short(extra))
		return
	}
	if len(missing) > 0 {
		rule, sig := "R1", "list-misses-matching/"
		if len(q.Pages) > 1 || qs.Limit != 0 {
			rule, sig = "R2", "page-walk-drops-element/"
		}
		w.Violate(rule, sig+qs.Name, "%s limit=%d by_offset=%v reverse=%v count_total=%v: %d of %d matching elements are never returned over %d pages: %s", where, qs.Limit, qs.ByOffset, qs.Reverse, qs.CountTotal, len(missing), len(q.Want), len(q.Pages), short(missing))
		return
	}
	if q.HasTotal && q.Total != uint64(len(q.Want)) {
		w.Violate("R3", "wrong-total/"+qs.Name, "%s limit=%d by_offset=%v reverse=%v reports total %d, %d elements match", where, qs.Limit, qs.ByOffset, qs.Reverse, q.Total, len(q.Want))
		return
	}
	// non-triviality: both members of a prefix-colliding id pair were queried
	if qs.Arg != "" {
		c.prefixPairQueried[qs.Name+"|"+qs.Arg] = true
		for k := range c.prefixPairQueried {
			if !strings.HasPrefix(k, qs.Name+"|") {
				continue
			}
			other := k[len(qs.Name)+1:]
			if other != qs.Arg && (strings.HasPrefix(other, qs.Arg) || strings.HasPrefix(qs.Arg, other)) {
				c.nt = true
			}
		}
	}
}

func (c *C17) NonTrivial(w *World) bool { return c.nt }
