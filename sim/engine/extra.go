package engine

import codectypes "github.com/cosmos/cosmos-sdk/codec/types"

// hooks for the C20 world (intertx) — filled in intertx.go
var registerExtraInterfaces = func(ir codectypes.InterfaceRegistry) {}
var registerExtraServices = func(c *Chain) {}
