package engine

import (
	"bytes"
	"fmt"
	"sort"
	"strings"
	"time"

	abci "github.com/cometbft/cometbft/abci/types"
	"github.com/cosmos/btcutil/base58"
	sdk "github.com/cosmos/cosmos-sdk/types"
	gogoproto "github.com/cosmos/gogoproto/proto"
	gogotypes "github.com/cosmos/gogoproto/types"

	"github.com/regen-network/regen-ledger/x/data/v3"
)

// QueryAt runs a gRPC query through the real query router on ctx.
func (c *Chain) QueryAt(ctx sdk.Context, path string, req gogoproto.Message, resp gogoproto.Message) (err error) {
	defer func() {
		if r := recover(); r != nil {
			if IsCrash(r) {
				panic(r)
			}
			err = fmt.Errorf("query panic: %v", r)
		}
	}()
	h := c.App.GRPCQueryRouter().Route(path)
	if h == nil {
		return fmt.Errorf("no query route %s", path)
	}
	bz, err := gogoproto.Marshal(req)
	if err != nil {
		return err
	}
	res, err := h(ctx, abci.RequestQuery{Data: bz, Path: path})
	if err != nil {
		return err
	}
	return gogoproto.Unmarshal(res.Value, resp)
}

func (c *Chain) Query(path string, req, resp gogoproto.Message) error {
	return c.QueryAt(c.WorkCtx(), path, req, resp)
}

func hashKey(ch *data.ContentHash) string {
	bz, _ := gogoproto.Marshal(ch)
	return string(bz)
}

func describeHash(ch *data.ContentHash) string {
	if r := ch.GetRaw(); r != nil {
		return fmt.Sprintf("raw{hash %x… len %d, digest %d, ext %q}", r.Hash[:min(4, len(r.Hash))], len(r.Hash), r.DigestAlgorithm, r.FileExtension)
	}
	if g := ch.GetGraph(); g != nil {
		return fmt.Sprintf("graph{hash %x… len %d, digest %d, canon %d, merkle %d}", g.Hash[:min(4, len(g.Hash))], len(g.Hash), g.DigestAlgorithm, g.CanonicalizationAlgorithm, g.MerkleTree)
	}
	return "empty"
}

// hashesOf lists the content hashes an accepted data message carries.
func hashesOf(m sdk.Msg) []*data.ContentHash {
	switch msg := m.(type) {
	case *data.MsgAnchor:
		return []*data.ContentHash{msg.ContentHash}
	case *data.MsgAttest:
		var out []*data.ContentHash
		for _, g := range msg.ContentHashes {
			out = append(out, &data.ContentHash{Graph: g})
		}
		return out
	case *data.MsgRegisterResolver:
		return msg.ContentHashes
	}
	return nil
}

// ---------------------------------------------------------------- C16

type attKey struct{ IRI, Attestor string }
type regKey struct {
	Resolver uint64
	IRI      string
}
type resolverVal struct{ URL, Manager string }

type C16 struct {
	BaseChecker
	anchor    map[string]time.Time
	ids       map[string]string // iri -> id bytes
	att       map[attKey]time.Time
	resolvers map[uint64]resolverVal
	reg       map[regKey]bool
	collided  int
}

func init() {
	RegisterChecker("C16", func() Checker {
		return &C16{anchor: map[string]time.Time{}, ids: map[string]string{}, att: map[attKey]time.Time{}, resolvers: map[uint64]resolverVal{}, reg: map[regKey]bool{}}
	})
}
func (c *C16) ID() string { return "C16" }

func (c *C16) Init(w *World) {
	s := w.Cur
	idToIRI := map[string]string{}
	for _, r := range s.DataIDs {
		c.ids[r.Iri] = string(r.Id)
		idToIRI[string(r.Id)] = r.Iri
	}
	for _, r := range s.Anchors {
		c.anchor[idToIRI[string(r.Id)]] = TsTime(r.Timestamp)
	}
	for _, r := range s.Attestors {
		c.att[attKey{idToIRI[string(r.Id)], AddrStr(r.Attestor)}] = TsTime(r.Timestamp)
	}
	for _, r := range s.Resolvers {
		c.resolvers[r.Id] = resolverVal{r.Url, AddrStr(r.Manager)}
	}
	for _, r := range s.DataResolvers {
		c.reg[regKey{r.ResolverId, idToIRI[string(r.Id)]}] = true
	}
}

func (c *C16) compare(w *World, s *Snapshot, what string) {
	// DataID: iri <-> id, both unique, ids stable
	idToIRI := map[string]string{}
	seenIRI := map[string]bool{}
	for _, r := range s.DataIDs {
		if other, dup := idToIRI[string(r.Id)]; dup {
			w.Violate("R3", "two-iris-share-an-id", "%s: IRIs %s and %s share the id %x", what, other, r.Iri, r.Id)
			return
		}
		if seenIRI[r.Iri] {
			w.Violate("R3", "iri-has-two-ids", "%s: IRI %s has two ids", what, r.Iri)
			return
		}
		seenIRI[r.Iri] = true
		idToIRI[string(r.Id)] = r.Iri
		if old, ok := c.ids[r.Iri]; ok {
			if old != string(r.Id) {
				w.Violate("R1", "data-id-changed", "%s: the id of %s changed from %x to %x", what, r.Iri, old, r.Id)
				return
			}
		} else {
			if _, expected := c.anchor[r.Iri]; !expected {
				w.Violate("R2", "unexpected-data-id", "%s: a data id appeared for %s which no accepted message anchored", what, r.Iri)
				return
			}
			c.ids[r.Iri] = string(r.Id)
		}
	}
	for _, iri := range sortedKeys(c.anchor) {
		if !seenIRI[iri] {
			w.Violate("R1", "data-id-disappeared", "%s: %s was anchored but has no id row any more", what, iri)
			return
		}
	}
	// DataAnchor
	seenAnchor := map[string]bool{}
	for _, r := range s.Anchors {
		iri, ok := idToIRI[string(r.Id)]
		if !ok {
			w.Violate("R1", "anchor-without-id", "%s: anchor row for unknown id %x", what, r.Id)
			return
		}
		seenAnchor[iri] = true
		want, ok := c.anchor[iri]
		if !ok {
			w.Violate("R2", "unexpected-anchor", "%s: anchor row for %s which no accepted message anchored", what, iri)
			return
		}
		if got := TsTime(r.Timestamp); !got.Equal(want) {
			w.Violate("R1", "anchor-timestamp-changed", "%s: %s was first anchored at %s but its anchor row now says %s", what, iri, FmtTime(want), FmtTime(got))
			return
		}
	}
	for _, iri := range sortedKeys(c.anchor) {
		if !seenAnchor[iri] {
			w.Violate("R1", "anchor-disappeared", "%s: the anchor of %s (first anchored %s) is gone", what, iri, FmtTime(c.anchor[iri]))
			return
		}
	}
	// DataAttestor
	seenAtt := map[attKey]bool{}
	for _, r := range s.Attestors {
		k := attKey{idToIRI[string(r.Id)], AddrStr(r.Attestor)}
		seenAtt[k] = true
		want, ok := c.att[k]
		if !ok {
			w.Violate("R2", "unexpected-attestation", "%s: attestation (%s, %s) exists which no accepted message made", what, k.IRI, k.Attestor)
			return
		}
		if got := TsTime(r.Timestamp); !got.Equal(want) {
			w.Violate("R1", "attestation-timestamp-changed", "%s: attestation (%s, %s) was recorded at %s but now says %s", what, k.IRI, k.Attestor, FmtTime(want), FmtTime(got))
			return
		}
	}
	for k, tm := range c.att {
		if !seenAtt[k] {
			w.Violate("R1", "attestation-disappeared", "%s: attestation (%s, %s) of %s is gone", what, k.IRI, k.Attestor, FmtTime(tm))
			return
		}
	}
	// Resolver
	if len(s.Resolvers) != len(c.resolvers) {
		w.Violate("R1", "resolver-count-differs", "%s: %d resolvers defined by accepted messages, %d stored", what, len(c.resolvers), len(s.Resolvers))
		return
	}
	for _, r := range s.Resolvers {
		want, ok := c.resolvers[r.Id]
		if !ok || want.URL != r.Url || want.Manager != AddrStr(r.Manager) {
			w.Violate("R1", "resolver-changed", "%s: resolver %d is (%s, %s) but was defined as (%s, %s) [known=%v]", what, r.Id, r.Url, AddrStr(r.Manager), want.URL, want.Manager, ok)
			return
		}
	}
	// DataResolver
	seenReg := map[regKey]bool{}
	for _, r := range s.DataResolvers {
		k := regKey{r.ResolverId, idToIRI[string(r.Id)]}
		seenReg[k] = true
		if !c.reg[k] {
			w.Violate("R2", "unexpected-registration", "%s: registration (%d, %s) exists which no accepted message made", what, k.Resolver, k.IRI)
			return
		}
	}
	for k := range c.reg {
		if !seenReg[k] {
			w.Violate("R1", "registration-lost", "%s: registration of %s with resolver %d is gone", what, k.IRI, k.Resolver)
			return
		}
	}
}

func (c *C16) AfterBegin(w *World, b *BeginCtx)     { c.compare(w, b.Post, "BeginBlock") }
func (c *C16) AfterRestart(w *World, r *RestartCtx) { c.compare(w, r.Post, "restart("+r.Kind+")") }

func (c *C16) AfterTx(w *World, t *TxCtx) {
	if t.Res.OK {
		for i, m := range t.Msgs {
			var iris []string
			for _, ch := range hashesOf(m) {
				iri, err := ch.ToIRI()
				if err != nil {
					continue
				}
				iris = append(iris, iri)
				if _, ok := c.anchor[iri]; !ok {
					c.anchor[iri] = t.BlockTime
				}
			}
			switch msg := m.(type) {
			case *data.MsgAnchor:
				resp, _ := respAt(t, i).(*data.MsgAnchorResponse)
				if resp != nil && len(iris) == 1 {
					if resp.Iri != iris[0] {
						w.Violate("R4", "anchor-response-wrong-iri", "Anchor answered IRI %s for data whose IRI is %s", resp.Iri, iris[0])
						return
					}
					got, err := gogotypes.TimestampFromProto(resp.Timestamp)
					if err != nil || !got.Equal(c.anchor[iris[0]]) {
						w.Violate("R4", "anchor-response-wrong-timestamp", "Anchor of %s answered timestamp %v, the data was first anchored at %s", iris[0], resp.Timestamp, FmtTime(c.anchor[iris[0]]))
						return
					}
				}
			case *data.MsgAttest:
				for _, iri := range iris {
					k := attKey{iri, msg.Attestor}
					if _, ok := c.att[k]; !ok {
						c.att[k] = t.BlockTime
					}
				}
			case *data.MsgDefineResolver:
				resp, _ := respAt(t, i).(*data.MsgDefineResolverResponse)
				if resp != nil {
					mgr := msg.Definer
					if msg.Public {
						mgr = ""
					}
					if _, dup := c.resolvers[resp.ResolverId]; dup {
						w.Violate("R3", "resolver-id-reused", "DefineResolver answered id %d which already denotes another resolver", resp.ResolverId)
						return
					}
					c.resolvers[resp.ResolverId] = resolverVal{msg.ResolverUrl, mgr}
				}
			case *data.MsgRegisterResolver:
				var res *resolverVal
				for _, r := range t.Pre.Resolvers {
					if r.Id == msg.ResolverId {
						res = &resolverVal{r.Url, AddrStr(r.Manager)}
					}
				}
				if res == nil {
					if rv, ok := c.resolvers[msg.ResolverId]; ok { // defined earlier in this tx
						res = &rv
					}
				}
				if res == nil {
					w.Violate("R5", "registered-to-unknown-resolver", "RegisterResolver accepted for resolver %d which does not exist", msg.ResolverId)
					return
				}
				if res.Manager != "" && res.Manager != msg.Signer {
					w.Violate("R5", "registered-by-non-manager", "RegisterResolver by %s accepted for non-public resolver %d managed by %s", msg.Signer, msg.ResolverId, res.Manager)
					return
				}
				for _, iri := range iris {
					c.reg[regKey{msg.ResolverId, iri}] = true
				}
			}
		}
		// collision statistics (non-triviality): several data ids share their first bytes
		c.countCollisions(t.Post)
	}
	c.compare(w, t.Post, "tx["+t.Step.Note+"]")
}

func (c *C16) countCollisions(s *Snapshot) {
	if len(s.DataIDs) < 3 {
		return
	}
	// ids that are extensions of another id's prefix came from a collision chain
	pre := map[string]int{}
	minLen := 1 << 30
	for _, r := range s.DataIDs {
		if len(r.Id) < minLen {
			minLen = len(r.Id)
		}
	}
	if minLen < 1 {
		return
	}
	// the first candidate id is hash[:minLength]+hash[0]; ids sharing that leading part collided
	for _, r := range s.DataIDs {
		pre[string(r.Id[:minLen-0])[:min(minLen, len(r.Id))]]++
	}
	n := 0
	for _, v := range pre {
		if v >= 2 {
			n += v
		}
	}
	c.collided = n
}

func (c *C16) NonTrivial(w *World) bool { return c.collided >= 3 }

// ---------------------------------------------------------------- C15 (stateful corollary)

type C15 struct {
	BaseChecker
	iriOf   map[string]string            // hash key -> iri
	hashOf  map[string]*data.ContentHash // iri -> first hash seen with it
	signers map[string]map[string]bool   // hash-bytes family -> signers
	nearDup bool
	fam     map[string]map[string]bool // raw hash bytes -> distinct hash keys
	famSig  map[string]map[string]bool
}

func init() {
	RegisterChecker("C15", func() Checker {
		return &C15{iriOf: map[string]string{}, hashOf: map[string]*data.ContentHash{}, fam: map[string]map[string]bool{}, famSig: map[string]map[string]bool{}}
	})
}
func (c *C15) ID() string { return "C15" }

func rawBytes(ch *data.ContentHash) []byte {
	if r := ch.GetRaw(); r != nil {
		return r.Hash
	}
	if g := ch.GetGraph(); g != nil {
		return g.Hash
	}
	return nil
}

// differOnlyMod256 tells whether two different hashes differ only in
// algorithm fields that are congruent modulo 256.
func differOnlyMod256(a, b *data.ContentHash) bool {
	if ar, br := a.GetRaw(), b.GetRaw(); ar != nil && br != nil {
		return bytes.Equal(ar.Hash, br.Hash) && ar.FileExtension == br.FileExtension && ar.DigestAlgorithm%256 == br.DigestAlgorithm%256
	}
	if ag, bg := a.GetGraph(), b.GetGraph(); ag != nil && bg != nil {
		return bytes.Equal(ag.Hash, bg.Hash) && ag.DigestAlgorithm%256 == bg.DigestAlgorithm%256 && ag.CanonicalizationAlgorithm%256 == bg.CanonicalizationAlgorithm%256 && ag.MerkleTree%256 == bg.MerkleTree%256
	}
	return false
}

func (c *C15) learn(w *World, ch *data.ContentHash, iri string, how string) bool {
	hk := hashKey(ch)
	if old, ok := c.iriOf[hk]; ok && old != iri {
		w.Violate("R1", "hash-has-two-iris", "%s: content hash %s was given IRI %s before and now %s", how, describeHash(ch), old, iri)
		return false
	}
	c.iriOf[hk] = iri
	if other, ok := c.hashOf[iri]; ok {
		if hashKey(other) != hk {
			sig := "two-hashes-share-an-iri"
			if differOnlyMod256(other, ch) {
				sig = "two-hashes-share-an-iri/algorithm-fields-congruent-mod-256"
			}
			w.Violate("R1", sig, "%s: different content hashes %s and %s both map to IRI %s", how, describeHash(other), describeHash(ch), iri)
			return false
		}
	} else {
		c.hashOf[iri] = ch
	}
	return true
}

func (c *C15) AfterTx(w *World, t *TxCtx) {
	if !t.Res.OK {
		return
	}
	ch0 := w.Chain
	for i, m := range t.Msgs {
		hs := hashesOf(m)
		if a, ok := m.(*data.MsgAnchor); ok {
			if resp, _ := respAt(t, i).(*data.MsgAnchorResponse); resp != nil {
				if !c.learn(w, a.ContentHash, resp.Iri, "Anchor response") {
					return
				}
			}
		}
		for _, ch := range hs {
			// non-triviality bookkeeping
			fk := string(rawBytes(ch))
			if c.fam[fk] == nil {
				c.fam[fk], c.famSig[fk] = map[string]bool{}, map[string]bool{}
			}
			c.fam[fk][hashKey(ch)] = true
			c.famSig[fk][t.Signer] = true
			if len(c.fam[fk]) >= 2 && len(c.famSig[fk]) >= 2 {
				c.nearDup = true
			}
			// the chain's own conversion
			var r1 data.ConvertHashToIRIResponse
			if err := ch0.Query("/regen.data.v2.Query/ConvertHashToIRI", &data.ConvertHashToIRIRequest{ContentHash: ch}, &r1); err != nil {
				w.Violate("R2", "anchored-hash-not-convertible", "content hash %s was accepted by %s but ConvertHashToIRI fails: %v", describeHash(ch), msgTypeName(m), err)
				return
			}
			if !c.learn(w, ch, r1.Iri, "ConvertHashToIRI") {
				return
			}
			// R2: and back
			var r2 data.ConvertIRIToHashResponse
			if err := ch0.Query("/regen.data.v2.Query/ConvertIRIToHash", &data.ConvertIRIToHashRequest{Iri: r1.Iri}, &r2); err != nil {
				w.Violate("R2", "iri-not-convertible-back", "ConvertIRIToHash(%s) fails: %v", r1.Iri, err)
				return
			}
			if r2.ContentHash == nil || hashKey(r2.ContentHash) != hashKey(ch) {
				sig := "round-trip-changes-hash"
				if r2.ContentHash != nil && differOnlyMod256(r2.ContentHash, ch) {
					sig = "round-trip-changes-hash/algorithm-fields-congruent-mod-256"
				}
				w.Violate("R2", sig, "content hash %s converts to %s which converts back to %s", describeHash(ch), r1.Iri, describeHash(orEmpty(r2.ContentHash)))
				return
			}
			// R4: AnchorByHash answers with this hash's own anchor
			var r3 data.QueryAnchorByHashResponse
			if err := ch0.Query("/regen.data.v2.Query/AnchorByHash", &data.QueryAnchorByHashRequest{ContentHash: ch}, &r3); err == nil && r3.Anchor != nil {
				if r3.Anchor.Iri != r1.Iri || r3.Anchor.ContentHash == nil || hashKey(r3.Anchor.ContentHash) != hashKey(ch) {
					w.Violate("R4", "anchor-by-hash-answers-other-data", "AnchorByHash(%s) answers IRI %s / hash %s", describeHash(ch), r3.Anchor.Iri, describeHash(orEmpty(r3.Anchor.ContentHash)))
					return
				}
			} else if err != nil {
				w.Violate("R4", "anchored-hash-not-found", "AnchorByHash(%s) fails right after the hash was anchored: %v", describeHash(ch), err)
				return
			}
			// R3: hostile spellings of this IRI
			for _, v := range iriVariants(r1.Iri, t.StepIdx) {
				var rv data.ConvertIRIToHashResponse
				if err := ch0.Query("/regen.data.v2.Query/ConvertIRIToHash", &data.ConvertIRIToHashRequest{Iri: v}, &rv); err != nil || rv.ContentHash == nil {
					continue // rejected: fine
				}
				var rb data.ConvertHashToIRIResponse
				err := ch0.Query("/regen.data.v2.Query/ConvertHashToIRI", &data.ConvertHashToIRIRequest{ContentHash: rv.ContentHash}, &rb)
				if err != nil {
					w.Violate("R3", "accepted-iri-does-not-re-encode", "the chain accepts IRI %q (parses to %s) but cannot re-encode it: %v", v, describeHash(rv.ContentHash), firstLine(err.Error()))
					return
				}
				if rb.Iri != v {
					w.Violate("R3", "accepted-iri-re-encodes-differently", "the chain accepts IRI %q but re-encodes it as %q", v, rb.Iri)
					return
				}
				w.Probe("c15_variant_iri_accepted_and_stable")
			}
		}
	}
}

func orEmpty(ch *data.ContentHash) *data.ContentHash {
	if ch == nil {
		return &data.ContentHash{}
	}
	return ch
}

// iriVariants derives hostile spellings from a valid IRI, deterministically.
func iriVariants(iri string, salt int) []string {
	const p = "regen:"
	if !strings.HasPrefix(iri, p) {
		return nil
	}
	rest := iri[len(p):]
	dot := strings.LastIndexByte(rest, '.')
	if dot < 0 {
		return nil
	}
	hp, ext := rest[:dot], rest[dot+1:]
	out := []string{
		p + "1" + hp + "." + ext, // extra leading zero byte in base58
		p + hp + "." + ext + ".", // extra dot
		p + hp + "..",            // empty extension
		p + hp + "." + strings.ToUpper(ext),
		"REGEN:" + rest,
		p + strings.ToLower(hp) + "." + ext,
		p + hp[:len(hp)-1] + "." + ext, // truncated checksum
		p + hp + "." + ext + "x",
		" " + iri,
		iri + " ",
	}
	// structurally valid base58check payloads that are not valid content hashes
	if dec, ver, err := base58.CheckDecode(hp); err == nil && len(dec) > 8 {
		short := append([]byte(nil), dec[:6]...)
		out = append(out, p+base58.CheckEncode(short, ver)+"."+ext)
		other := append([]byte(nil), dec...)
		other[0] = byte(2 + salt%3) // unknown type prefix
		out = append(out, p+base58.CheckEncode(other, ver)+"."+ext)
		out = append(out, p+base58.CheckEncode(dec, ver+1)+"."+ext) // other version
		zero := append([]byte(nil), dec...)
		zero[1] = 0 // algorithm byte 0
		out = append(out, p+base58.CheckEncode(zero, ver)+"."+ext)
		if dec[0] == 1 { // graph with a non-rdf extension
			out = append(out, p+hp+".pdf")
		} else {
			out = append(out, p+hp+".x") // 1-char extension
			out = append(out, p+hp+".toolongext")
		}
	}
	sort.Strings(out)
	return out
}

func (c *C15) NonTrivial(w *World) bool { return c.nearDup }
