package engine

import (
	"bytes"
	"encoding/base64"
	"encoding/json"
	"fmt"
	"os"
	"reflect"
	"strings"
	"time"

	sdk "github.com/cosmos/cosmos-sdk/types"
)

// Trace is the concrete, PRNG-free record of one run. Replaying it consults
// no random source.
type Trace struct {
	Version  int             `json:"version"`
	Property string          `json:"property"`
	Seed     uint64          `json:"seed"`    // run seed (informational)
	VSeed    uint64          `json:"vseed"`   // VERIF_SEED (informational)
	Run      uint64          `json:"run"`     // run index (informational)
	Tier     string          `json:"tier"`    // informational
	Profile  json.RawMessage `json:"profile"` // informational
	World    string          `json:"world"`   // "chain" or "intertx"
	Hasher   *HasherCfg      `json:"hasher,omitempty"`
	Genesis  *GenesisDoc     `json:"genesis"`
	Actors   []string        `json:"actors"`
	Steps    []*Step         `json:"steps"`
	Expect   *ExpectViol     `json:"expect,omitempty"` // set in violation replay files
	ICA      *ICAWorldCfg    `json:"ica,omitempty"`
}

type ExpectViol struct {
	Property  string `json:"property"`
	Rule      string `json:"rule"`
	Signature string `json:"signature"`
	Message   string `json:"message"`
	Step      int    `json:"step"`
}

const (
	KBegin   = "begin"
	KTx      = "tx"
	KCommit  = "commit"
	KCrash   = "crash"   // F7: crash mid-block, rebuild, re-deliver the block so far
	KRestart = "restart" // F9: clean restart at a block boundary
	KGenesis = "genesis_restart"
	KQuery   = "query"
	KICA     = "ica"      // C20 world event
	KSim     = "simulate" // a client's gas estimation: the messages run on a throw-away branch (what the Simulate RPC does)
)

type Step struct {
	Kind string `json:"kind"`
	// begin
	Time string `json:"time,omitempty"` // RFC3339Nano, UTC
	// tx
	Tx *TxStep `json:"tx,omitempty"`
	// commit
	Torn *TornSpec `json:"torn,omitempty"`
	// genesis_restart
	Continue bool `json:"continue,omitempty"`
	// query
	Query *QueryStep `json:"query,omitempty"`
	// ica world
	ICA *ICAEvent `json:"ica,omitempty"`
	// simulate: the dry run is a client's prediction of the state after the first messages of the tx it
	// is building (the later messages are built from that prediction), not a gas estimation
	SimSnap bool `json:"sim_snap,omitempty"`
	// Alt: what replica Q (C10) does differently at this step
	Alt *AltDirective `json:"alt,omitempty"`
}

// AltDirective is the alternative crash/restart schedule of replica Q (C10),
// attached to the step it belongs to so that shrinking keeps the association.
type AltDirective struct {
	CrashAfter   bool      `json:"crash_after,omitempty"`   // after this tx: crash mid-block (F7)
	Torn         *TornSpec `json:"torn,omitempty"`          // this commit is torn (F8)
	RestartAfter bool      `json:"restart_after,omitempty"` // clean restart after this commit (F9)
}

type TxStep struct {
	Signer    string            `json:"signer"`
	Msgs      []json.RawMessage `json:"msgs"`
	Gas       uint64            `json:"gas,omitempty"` // 0 = ample
	BankFault *BankFaultSpec    `json:"bank_fault,omitempty"`
	// Probe marks a faults-stopped probe: the checker itself re-establishes
	// on the pre-state whether the preconditions hold before demanding success.
	Probe bool   `json:"probe,omitempty"`
	Note  string `json:"note,omitempty"`
}

const AmpleGas = uint64(200_000_000)

func FmtTime(t time.Time) string { return t.UTC().Format(time.RFC3339Nano) }
func ParseTime(s string) (time.Time, error) {
	t, err := time.Parse(time.RFC3339Nano, s)
	return t.UTC(), err
}

// EncodeMsg writes a message into the trace: as readable JSON when that carries the message
// exactly, otherwise (values the wire format can carry and JSON cannot, e.g. a timestamp beyond
// year 9999) as the protobuf bytes of its Any.
func EncodeMsg(m sdk.Msg) (json.RawMessage, error) {
	cdc := GetEncoding().Cdc
	want, err := cdc.MarshalInterface(m)
	if err != nil {
		return nil, err
	}
	if bz, err := cdc.MarshalInterfaceJSON(m); err == nil {
		if back, err := DecodeMsg(bz); err == nil {
			if got, err := cdc.MarshalInterface(back); err == nil && bytes.Equal(got, want) {
				return json.RawMessage(bz), nil
			}
		}
	}
	out, _ := json.Marshal(map[string]string{"@bin": base64.StdEncoding.EncodeToString(want), "@type": sdk.MsgTypeURL(m)})
	return json.RawMessage(out), nil
}

func DecodeMsg(bz json.RawMessage) (sdk.Msg, error) {
	var m sdk.Msg
	if bytes.Contains(bz, []byte(`"@bin"`)) {
		var b struct {
			Bin string `json:"@bin"`
		}
		if err := json.Unmarshal(bz, &b); err == nil && b.Bin != "" {
			raw, err := base64.StdEncoding.DecodeString(b.Bin)
			if err != nil {
				return nil, err
			}
			if err := GetEncoding().Cdc.UnmarshalInterface(raw, &m); err != nil {
				return nil, err
			}
			return m, nil
		}
	}
	if err := GetEncoding().Cdc.UnmarshalInterfaceJSON(bz, &m); err != nil {
		return nil, err
	}
	return m, nil
}

func (t *Trace) Save(path string) error {
	bz, err := json.MarshalIndent(t, "", " ")
	if err != nil {
		return err
	}
	return os.WriteFile(path, bz, 0o644)
}

func LoadTrace(path string) (*Trace, error) {
	bz, err := os.ReadFile(path)
	if err != nil {
		return nil, err
	}
	var t Trace
	if err := json.Unmarshal(bz, &t); err != nil {
		return nil, fmt.Errorf("%s: %w", path, err)
	}
	return &t, nil
}

// CloneShallow copies the trace header and the slice of steps (steps shared).
func (t *Trace) CloneWithSteps(steps []*Step) *Trace {
	n := *t
	n.Steps = steps
	return &n
}

// walkStrings applies f to every string reachable through exported fields of a
// message (strings, string slices, nested messages).
func walkStrings(v reflect.Value, f func(string) string) {
	switch v.Kind() {
	case reflect.Ptr, reflect.Interface:
		if !v.IsNil() {
			walkStrings(v.Elem(), f)
		}
	case reflect.Struct:
		for i := 0; i < v.NumField(); i++ {
			if v.Type().Field(i).PkgPath != "" {
				continue // unexported
			}
			walkStrings(v.Field(i), f)
		}
	case reflect.Slice:
		if v.Type().Elem().Kind() == reflect.Uint8 {
			return
		}
		for i := 0; i < v.Len(); i++ {
			walkStrings(v.Index(i), f)
		}
	case reflect.String:
		if v.CanSet() {
			if s := v.String(); s != "" {
				if t := f(s); t != s {
					v.SetString(t)
				}
			}
		}
	}
}

// canonAddr: the all-upper-case spelling of a bech32 address is the same address.
func canonAddr(s string) string {
	if len(s) < 8 || s[0] < 'A' || s[0] > 'Z' || strings.ToUpper(s) != s {
		return s
	}
	a, err := sdk.AccAddressFromBech32(s)
	if err != nil {
		return s
	}
	return a.String()
}

// CanonMsg rewrites every address in m to its canonical spelling: the checkers
// reason about accounts, not about spellings of their addresses.
func CanonMsg(m sdk.Msg) { walkStrings(reflect.ValueOf(m), canonAddr) }
