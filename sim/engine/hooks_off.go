//go:build !verif

package engine

import "github.com/cosmos/cosmos-sdk/types/module"

const HooksEnabled = false

func registerDataServices(c *Chain, cfgr module.Configurator) {
	if h := c.Opts.Hasher; h != nil && h.Kind == "weak" {
		panic("weak hasher requires build tag verif")
	}
	c.Dat.RegisterServices(cfgr)
}
