package engine

import (
	"fmt"
	"math/big"

	sdk "github.com/cosmos/cosmos-sdk/types"

	baskettypes "github.com/regen-network/regen-ledger/x/ecocredit/v3/basket/types/v1"
	markettypes "github.com/regen-network/regen-ledger/x/ecocredit/v3/marketplace/types/v1"
)

// C03 — ownership safety.
type C03 struct {
	BaseChecker
	signers map[string]bool
	bought  bool
	asked   askedDenoms
}

func init() {
	RegisterChecker("C03", func() Checker { return &C03{signers: map[string]bool{}, asked: askedDenoms{}} })
}
func (c *C03) ID() string { return "C03" }

func (c *C03) AfterTx(w *World, t *TxCtx) {
	pre, post := t.Pre, t.Post
	if !t.Res.OK {
		// a failed message changes nothing for anybody
		if string(pre.Digest()) != string(post.Digest()) {
			for _, d := range DiffRows(pre, post) {
				w.Violate("R1", "failed-tx-changed-state", "failed tx [%s] changed row %s[%s]", t.Step.Note, d.Table, d.Key)
				return
			}
			for _, d := range DiffBank(pre, post) {
				w.Violate("R3", "failed-tx-changed-coins", "failed tx [%s] changed %s balance of %q by %s", t.Step.Note, d.Denom, d.Addr, d.Delta)
				return
			}
		}
		return
	}
	c.signers[t.Signer] = true
	defer c.asked.learn(t)
	signer := t.Signer
	pool := AddrStr(feePoolAddr())
	// what the successful messages of this tx legitimately take from non-signers
	escrowAllowed := ratMap{} // "seller|batch" -> purchased quantity
	payExpected := ratMap{}   // "seller|denom" -> exact payment
	payN := map[string]int{}
	payDomain := true
	poolOut := map[string]*big.Int{} // denom -> amount governance sends from the pool
	ordRem := map[uint64]*big.Rat{}
	for _, m := range t.Msgs {
		switch msg := m.(type) {
		case *markettypes.MsgBuyDirect:
			for _, bo := range msg.Orders {
				o := pre.OrderByID(bo.SellOrderId)
				if o == nil {
					continue
				}
				ref, ok := refBuy(pre, o, bo)
				if !ok {
					continue
				}
				if want, known := c.asked[o.Id]; known && want != ref.Denom && ref.Seller != signer {
					w.Violate("R2", "seller-paid-in-other-denomination", "BuyDirect fills sell order %d of %s, which asked in %s, but the order is settled in %s", o.Id, ref.Seller, want, ref.Denom)
					return
				}
				k := fmt.Sprintf("%s|%d", ref.Seller, ref.BatchKey)
				escrowAllowed.add(k, ref.Qty)
				payExpected.add(ref.Seller+"|"+ref.Denom, RatSub(ref.Cost, ref.SellerFee))
				payN[ref.Seller+"|"+ref.Denom]++
				if !ref.InDomain {
					payDomain = false
				}
				ordRem[o.Id] = ref.Qty
				if ref.Seller != signer {
					c.bought = true
				}
			}
		case *markettypes.MsgGovSendFromFeePool:
			if signer == AddrStr(govAddr()) && msg.Authority == signer {
				for _, cn := range msg.Coins {
					if poolOut[cn.Denom] == nil {
						poolOut[cn.Denom] = new(big.Int)
					}
					poolOut[cn.Denom].Add(poolOut[cn.Denom], cn.Amount.BigInt())
				}
			}
		}
	}
	for _, pb := range pre.Balances {
		addr := AddrStr(pb.Address)
		if addr == signer {
			continue
		}
		nb := post.Balance(addr, pb.BatchKey)
		t0, ok0 := DecOrZero(pb.TradableAmount)
		e0, ok1 := DecOrZero(pb.EscrowedAmount)
		if !ok0 || !ok1 {
			continue
		}
		t1, e1 := new(big.Rat), new(big.Rat)
		if nb != nil {
			t1, _ = DecOrZero(nb.TradableAmount)
			e1, _ = DecOrZero(nb.EscrowedAmount)
		}
		if t1.Cmp(t0) < 0 {
			w.Violate("R1", "tradable-of-non-signer-decreased", "tx [%s] signed by %s decreased the tradable balance of %s in batch %d from %s to %s", t.Step.Note, signer, addr, pb.BatchKey, RatStr(t0), RatStr(t1))
			return
		}
		if e1.Cmp(e0) < 0 {
			k := fmt.Sprintf("%s|%d", addr, pb.BatchKey)
			allowed := escrowAllowed[k]
			dec := RatSub(e0, e1)
			if allowed == nil {
				w.Violate("R2", "escrow-of-non-signer-decreased", "tx [%s] signed by %s decreased the escrowed balance of %s in batch %d from %s to %s without buying from its orders", t.Step.Note, signer, addr, pb.BatchKey, RatStr(e0), RatStr(e1))
				return
			}
			if dec.Cmp(allowed) != 0 {
				w.Violate("R2", "escrow-decrease-differs-from-purchase", "BuyDirect bought %s from %s's orders in batch %d but its escrow decreased by %s", RatStr(allowed), addr, pb.BatchKey, RatStr(dec))
				return
			}
		}
	}
	// sellers are paid in the ask denomination
	if payDomain {
		for _, k := range sortedKeys(payExpected) {
			i := lastBar(k)
			addr, denom := k[:i], k[i+1:]
			if addr == signer {
				continue
			}
			got := new(big.Int).Sub(post.BankBal(addr, denom), pre.BankBal(addr, denom))
			lo := RatSub(payExpected[k], RatI64(int64(payN[k])))
			if RatInt(got).Cmp(lo) < 0 {
				w.Violate("R2", "seller-not-paid", "BuyDirect took credits from %s's orders; it should be paid %s %s (±%d) but its balance changed by %s", addr, RatStr(payExpected[k]), denom, payN[k], got)
				return
			}
		}
	}
	// R3: coins of non-signers never decrease
	for _, bd := range DiffBank(pre, post) {
		if bd.Addr == "" || bd.Addr == signer || bd.Delta.Sign() >= 0 {
			continue
		}
		if bd.Addr == pool {
			if out := poolOut[bd.Denom]; out != nil && new(big.Int).Neg(bd.Delta).Cmp(out) <= 0 {
				continue // reduced by a successful authority-signed GovSendFromFeePool, by no more than it names
			}
			w.Violate("R3", "fee-pool-reduced", "tx [%s] signed by %s reduced the marketplace fee pool's %s balance by %s without an authority-signed GovSendFromFeePool for it", t.Step.Note, signer, bd.Denom, new(big.Int).Neg(bd.Delta))
			return
		}
		w.Violate("R3", "coins-of-non-signer-decreased", "tx [%s] signed by %s decreased the %s balance of %s by %s", t.Step.Note, signer, bd.Denom, bd.Addr, new(big.Int).Neg(bd.Delta))
		return
	}
}

func (c *C03) AfterBegin(w *World, b *BeginCtx) {
	pre, post := b.Pre, b.Post
	// R4: block processing only moves an account's own credits from escrow back to tradable
	for _, bd := range DiffBank(pre, post) {
		w.Violate("R4", "beginblock-moved-coins", "BeginBlock changed the %s balance/supply of %q by %s", bd.Denom, bd.Addr, bd.Delta)
		return
	}
	removed := ratMap{}
	for _, o := range pre.Orders {
		if post.OrderByID(o.Id) == nil {
			q, _ := DecOrZero(o.Quantity)
			removed.add(fmt.Sprintf("%s|%d", AddrStr(o.Seller), o.BatchKey), q)
		}
	}
	for _, pb := range pre.Balances {
		addr := AddrStr(pb.Address)
		nb := post.Balance(addr, pb.BatchKey)
		if nb == nil {
			w.Violate("R4", "beginblock-removed-balance", "BeginBlock removed the balance row of %s in batch %d", addr, pb.BatchKey)
			return
		}
		if protoEqual(pb, nb) {
			continue
		}
		t0, _ := DecOrZero(pb.TradableAmount)
		t1, _ := DecOrZero(nb.TradableAmount)
		e0, _ := DecOrZero(pb.EscrowedAmount)
		e1, _ := DecOrZero(nb.EscrowedAmount)
		r0, _ := DecOrZero(pb.RetiredAmount)
		r1, _ := DecOrZero(nb.RetiredAmount)
		k := fmt.Sprintf("%s|%d", addr, pb.BatchKey)
		rq := removed[k]
		if rq == nil {
			rq = new(big.Rat)
		}
		if r0.Cmp(r1) != 0 || RatSub(e0, e1).Cmp(rq) != 0 || RatSub(t1, t0).Cmp(rq) != 0 {
			w.Violate("R4", "beginblock-balance-change-not-an-expiry-refund", "BeginBlock changed %s's balance in batch %d: tradable %s->%s escrowed %s->%s retired %s->%s, but its removed orders total %s",
				addr, pb.BatchKey, RatStr(t0), RatStr(t1), RatStr(e0), RatStr(e1), RatStr(r0), RatStr(r1), RatStr(rq))
			return
		}
	}
	for _, nb := range post.Balances {
		if pre.Balance(AddrStr(nb.Address), nb.BatchKey) == nil {
			w.Violate("R4", "beginblock-created-balance", "BeginBlock created a balance row for %s in batch %d", AddrStr(nb.Address), nb.BatchKey)
			return
		}
	}
}

func (c *C03) NonTrivial(w *World) bool { return len(c.signers) >= 3 && c.bought }

var _ sdk.Msg

// ---------------------------------------------------------------- C05

type C05 struct {
	BaseChecker
	puts  map[uint64]map[string]bool // basket id -> batch denoms put
	takes map[uint64]bool
}

func init() {
	RegisterChecker("C05", func() Checker { return &C05{puts: map[uint64]map[string]bool{}, takes: map[uint64]bool{}} })
}
func (c *C05) ID() string { return "C05" }

func (c *C05) scan(w *World, s *Snapshot, what string) {
	sums := map[uint64]*big.Rat{}
	for _, bb := range s.BasketBals {
		v, ok := DecOrZero(bb.Balance)
		if !ok {
			continue
		}
		if sums[bb.BasketId] == nil {
			sums[bb.BasketId] = new(big.Rat)
		}
		sums[bb.BasketId].Add(sums[bb.BasketId], v)
	}
	exactBroken := ""
	for _, bk := range s.Baskets {
		ct := s.CreditType(bk.CreditTypeAbbrev)
		if ct == nil {
			continue // dangling credit type: C14
		}
		sum := sums[bk.Id]
		if sum == nil {
			sum = new(big.Rat)
		}
		want := RatMul(sum, RatInt(pow10(int(ct.Precision))))
		have := RatInt(s.SupplyOf(bk.BasketDenom))
		if want.Cmp(have) != 0 && exactBroken == "" {
			exactBroken = fmt.Sprintf("basket %s holds %s credits (x 10^%d = %s tokens) but the bank supply of its denom is %s", bk.BasketDenom, RatStr(sum), ct.Precision, RatStr(want), have.Num())
		}
	}
	if exactBroken != "" {
		w.Violate("R1", "basket-supply-not-backed", "%s: %s", what, exactBroken)
		return
	}
	ctx := w.Chain.WorkCtx()
	found := false
	for _, inv := range w.Chain.Invariants {
		if inv.Route == "basket-supply" {
			found = true
			if msg, broken := safeInv(inv, ctx); broken {
				sig := "invariant-reports-broken"
				// the registered invariant multiplies with 34-digit rounding: totals ≥ 10^34 token units
				for _, bk := range s.Baskets {
					if s.SupplyOf(bk.BasketDenom).Cmp(lim34) >= 0 {
						sig = "invariant-reports-broken/total>=1e34"
					}
				}
				w.Violate("R4", sig, "%s: exact scan finds every basket fully backed but the registered basket-supply invariant reports: %s", what, firstLine(msg))
				return
			}
		}
	}
	if !found {
		w.Violate("R4", "invariant-not-registered", "the module registers no basket-supply invariant route")
	}
}

func (c *C05) Init(w *World)                        { c.scan(w, w.Cur, "genesis") }
func (c *C05) AfterBegin(w *World, b *BeginCtx)     { c.scan(w, b.Post, "BeginBlock") }
func (c *C05) AfterRestart(w *World, r *RestartCtx) { c.scan(w, r.Post, "restart("+r.Kind+")") }

func (c *C05) AfterTx(w *World, t *TxCtx) {
	c.scan(w, t.Post, "tx["+t.Step.Note+"]")
	if !t.Res.OK || w.Viol != nil {
		return
	}
	pre, post := t.Pre, t.Post
	single := len(t.Msgs) == 1
	for i, m := range t.Msgs {
		switch msg := m.(type) {
		case *baskettypes.MsgPut:
			bk := pre.BasketByDenom(msg.BasketDenom)
			if bk == nil {
				bk = post.BasketByDenom(msg.BasketDenom)
			}
			if bk == nil {
				continue
			}
			ct := pre.CreditType(bk.CreditTypeAbbrev)
			if ct == nil {
				continue
			}
			sum := new(big.Rat)
			okAll := true
			for _, cr := range msg.Credits {
				v, ok := ParseDec(cr.Amount)
				if !ok {
					okAll = false
					break
				}
				sum.Add(sum, v)
				if c.puts[bk.Id] == nil {
					c.puts[bk.Id] = map[string]bool{}
				}
				c.puts[bk.Id][cr.BatchDenom] = true
			}
			if !okAll {
				continue
			}
			want := RatMul(sum, RatInt(pow10(int(ct.Precision))))
			resp, _ := respAt(t, i).(*baskettypes.MsgPutResponse)
			if resp != nil {
				got, ok := new(big.Int).SetString(resp.AmountReceived, 10)
				if !ok || RatInt(got).Cmp(want) != 0 {
					w.Violate("R2", "put-response-amount-wrong", "Put of %s credits into %s answers amount_received=%q, expected %s", RatStr(sum), msg.BasketDenom, resp.AmountReceived, RatStr(want))
					return
				}
			}
			if single {
				d := new(big.Int).Sub(post.BankBal(t.Signer, bk.BasketDenom), pre.BankBal(t.Signer, bk.BasketDenom))
				if RatInt(d).Cmp(want) != 0 {
					w.Violate("R2", "put-minted-wrong-amount", "Put of %s credits into %s should mint %s tokens to the depositor, whose balance changed by %s", RatStr(sum), msg.BasketDenom, RatStr(want), d)
					return
				}
			}
		case *baskettypes.MsgTake:
			bk := pre.BasketByDenom(msg.BasketDenom)
			if bk == nil {
				continue
			}
			ct := pre.CreditType(bk.CreditTypeAbbrev)
			if ct == nil {
				continue
			}
			// The amount is "an integer in a string". A plain run of decimal digits
			// has one reading. Other accepted spellings (leading zero, sign, base
			// prefix) may be read in base 10 or by Go's base-prefix rules; whichever
			// the chain picks, it must burn and release by that one reading.
			var amt *big.Int
			a10, ok10 := new(big.Int).SetString(msg.Amount, 10)
			a0, ok0 := new(big.Int).SetString(msg.Amount, 0)
			switch {
			case ok10 && a10.String() == msg.Amount:
				amt = a10
			case ok10 || ok0:
				w.Probe("take_amount_noncanonical_accepted")
				if !single {
					// burn not attributable to one message; R1 judges the state
					c.takes[bk.Id] = true
					continue
				}
				burned := new(big.Int).Sub(pre.SupplyOf(bk.BasketDenom), post.SupplyOf(bk.BasketDenom))
				switch {
				case ok10 && burned.Cmp(a10) == 0:
					amt = a10
				case ok0 && burned.Cmp(a0) == 0:
					amt = a0
				default:
					w.Violate("R3", "take-burned-wrong-amount", "Take of %q tokens from %s burned %s, which is no reading of that amount", msg.Amount, msg.BasketDenom, burned)
					return
				}
			default:
				continue
			}
			c.takes[bk.Id] = true
			credits := new(big.Rat).SetFrac(amt, pow10(int(ct.Precision)))
			resp, _ := respAt(t, i).(*baskettypes.MsgTakeResponse)
			if resp != nil {
				sum := new(big.Rat)
				for _, cr := range resp.Credits {
					v, ok := DecOrZero(cr.Amount)
					if ok {
						sum.Add(sum, v)
					}
				}
				if sum.Cmp(credits) != 0 {
					w.Violate("R3", "take-response-total-wrong", "Take of %s tokens from %s must release %s credits in total, the response lists %s", amt, msg.BasketDenom, RatStr(credits), RatStr(sum))
					return
				}
			}
			if single {
				d := new(big.Int).Sub(pre.BankBal(t.Signer, bk.BasketDenom), post.BankBal(t.Signer, bk.BasketDenom))
				ds := new(big.Int).Sub(pre.SupplyOf(bk.BasketDenom), post.SupplyOf(bk.BasketDenom))
				if d.Cmp(amt) != 0 || ds.Cmp(amt) != 0 {
					w.Violate("R3", "take-burned-wrong-amount", "Take of %s tokens from %s: taker's balance decreased by %s and total supply by %s", amt, msg.BasketDenom, d, ds)
					return
				}
				// credits released from the basket
				rel := new(big.Rat)
				for _, pb := range pre.BasketBals {
					if pb.BasketId != bk.Id {
						continue
					}
					v0, _ := DecOrZero(pb.Balance)
					v1 := new(big.Rat)
					for _, nb := range post.BasketBals {
						if nb.BasketId == bk.Id && nb.BatchDenom == pb.BatchDenom {
							v1, _ = DecOrZero(nb.Balance)
						}
					}
					rel.Add(rel, RatSub(v0, v1))
				}
				if rel.Cmp(credits) != 0 {
					w.Violate("R3", "take-released-wrong-amount", "Take of %s tokens from %s must release %s credits, basket balances shrank by %s", amt, msg.BasketDenom, RatStr(credits), RatStr(rel))
					return
				}
			}
		}
	}
}

func (c *C05) NonTrivial(w *World) bool {
	for id, s := range c.puts {
		if len(s) >= 2 && c.takes[id] {
			return true
		}
	}
	return false
}
