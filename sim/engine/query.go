package engine

import (
	"encoding/hex"
	"fmt"
	basketv1 "github.com/regen-network/regen-ledger/api/v2/regen/ecocredit/basket/v1"
	"sort"
	"strings"

	sdk "github.com/cosmos/cosmos-sdk/types"
	"github.com/cosmos/cosmos-sdk/types/query"
	gogoproto "github.com/cosmos/gogoproto/proto"
	gogotypes "github.com/cosmos/gogoproto/types"
	"google.golang.org/protobuf/types/known/timestamppb"

	basev1 "github.com/regen-network/regen-ledger/api/v2/regen/ecocredit/v1"
	"github.com/regen-network/regen-ledger/x/data/v3"
	bt "github.com/regen-network/regen-ledger/x/ecocredit/v3/base/types/v1"
	kt "github.com/regen-network/regen-ledger/x/ecocredit/v3/basket/types/v1"
	mt "github.com/regen-network/regen-ledger/x/ecocredit/v3/marketplace/types/v1"
)

// QueryStep is one recorded query (with its whole page walk parameters).
type QueryStep struct {
	Name       string `json:"name"`
	Arg        string `json:"arg,omitempty"`
	Arg2       string `json:"arg2,omitempty"`
	Back       int    `json:"back,omitempty"` // 0 = last committed height, k = k heights earlier
	Limit      uint64 `json:"limit,omitempty"`
	CountTotal bool   `json:"count_total,omitempty"`
	Reverse    bool   `json:"reverse,omitempty"`
	ByOffset   bool   `json:"by_offset,omitempty"`
	// StartOffset: the offset walk starts here instead of at 0 (also at or beyond the end)
	StartOffset uint64 `json:"start_offset,omitempty"`
}

// QueryCtx is what the checker judges.
type QueryCtx struct {
	Step     *QueryStep
	Spec     *qspec
	Height   int64
	MidBlock bool
	Snap     *Snapshot
	Want     []string
	Exists   bool
	Pages    [][]string
	Total    uint64
	HasTotal bool
	Err      string // error of the first page / the single query
	WalkErr  string // a later page failed, or the walk did not terminate
}

type qspec struct {
	Name   string
	Path   string
	Paged  bool
	Mk     func(a, b string, pg *query.PageRequest) gogoproto.Message
	Resp   func() gogoproto.Message
	Out    func(r gogoproto.Message) ([]string, *query.PageResponse)
	Want   func(s *Snapshot, a, b string) (items []string, exists bool)
	Args   func(g *Gen, s *Snapshot) (string, string)
	ZeroOK bool // when nothing exists, a single item with all-zero amounts is also fine
}

var qspecs []*qspec
var qspecIdx = map[string]*qspec{}

func regQ(q *qspec) { qspecs = append(qspecs, q); qspecIdx[q.Name] = q }

func tsS(t *timestamppb.Timestamp) string {
	if t == nil {
		return "nil"
	}
	return fmt.Sprintf("%d.%09d", t.Seconds, t.Nanos)
}
func gtsS(t *gogotypes.Timestamp) string {
	if t == nil {
		return "nil"
	}
	return fmt.Sprintf("%d.%09d", t.Seconds, t.Nanos)
}

func j(parts ...interface{}) string {
	var sb strings.Builder
	for i, p := range parts {
		if i > 0 {
			sb.WriteByte('|')
		}
		fmt.Fprint(&sb, p)
	}
	return sb.String()
}

// ---- expected item renderers (from decoded state) -----------------------

func wantClass(c *basev1.Class) string {
	return j(c.Id, AddrStr(c.Admin), c.Metadata, c.CreditTypeAbbrev)
}
func gotClass(c *bt.ClassInfo) string { return j(c.Id, c.Admin, c.Metadata, c.CreditTypeAbbrev) }
func wantProject(s *Snapshot, p *basev1.Project) string {
	cid := "?"
	if c := s.ClassByKey(p.ClassKey); c != nil {
		cid = c.Id
	}
	return j(p.Id, AddrStr(p.Admin), cid, p.Jurisdiction, p.Metadata, p.ReferenceId)
}
func gotProject(p *bt.ProjectInfo) string {
	return j(p.Id, p.Admin, p.ClassId, p.Jurisdiction, p.Metadata, p.ReferenceId)
}
func wantBatch(s *Snapshot, b *basev1.Batch) string {
	pid := "?"
	if p := s.ProjectByKey(b.ProjectKey); p != nil {
		pid = p.Id
	}
	return j(AddrStr(b.Issuer), pid, b.Denom, b.Metadata, tsS(b.StartDate), tsS(b.EndDate), tsS(b.IssuanceDate), b.Open)
}
func gotBatch(b *bt.BatchInfo) string {
	return j(b.Issuer, b.ProjectId, b.Denom, b.Metadata, gtsS(b.StartDate), gtsS(b.EndDate), gtsS(b.IssuanceDate), b.Open)
}
func wantBal(s *Snapshot, b *basev1.BatchBalance) string {
	d := "?"
	if bb := s.BatchByKey(b.BatchKey); bb != nil {
		d = bb.Denom
	}
	return j(AddrStr(b.Address), d, b.TradableAmount, b.RetiredAmount, b.EscrowedAmount)
}
func gotBal(b *bt.BatchBalanceInfo) string {
	return j(b.Address, b.BatchDenom, b.TradableAmount, b.RetiredAmount, b.EscrowedAmount)
}

func pgOf(p *query.PageResponse) *query.PageResponse { return p }

// pick helpers for arguments: present value, absent value or string neighbour
func (g *Gen) argFrom(present []string, absent ...string) string {
	r := g.R
	if len(present) > 0 && r.Chance(0.65) {
		v := present[r.Intn(len(present))]
		if r.Chance(0.2) {
			return neighbourID(r, v)
		}
		return v
	}
	if len(absent) > 0 {
		return absent[r.Intn(len(absent))]
	}
	return "nothing"
}

func classIDs(s *Snapshot) (out []string) {
	for _, c := range s.Classes {
		out = append(out, c.Id)
	}
	return
}
func projectIDs(s *Snapshot) (out []string) {
	for _, c := range s.Projects {
		out = append(out, c.Id)
	}
	return
}
func batchDenoms(s *Snapshot) (out []string) {
	for _, c := range s.Batches {
		out = append(out, c.Denom)
	}
	return
}
func (g *Gen) actorAddrs() (out []string) {
	for _, a := range g.Actors {
		out = append(out, a.Addr)
	}
	return append(out, g.Gov.Addr)
}

func validAddr(a string) bool { _, err := sdk.AccAddressFromBech32(a); return err == nil }

func init() {
	base := "/regen.ecocredit.v1.Query/"
	// ---- classes
	regQ(&qspec{Name: "Classes", Path: base + "Classes", Paged: true,
		Mk: func(a, b string, pg *query.PageRequest) gogoproto.Message {
			return &bt.QueryClassesRequest{Pagination: pg}
		},
		Resp: func() gogoproto.Message { return &bt.QueryClassesResponse{} },
		Out: func(r gogoproto.Message) (out []string, p *query.PageResponse) {
			x := r.(*bt.QueryClassesResponse)
			for _, c := range x.Classes {
				out = append(out, gotClass(c))
			}
			return out, x.Pagination
		},
		Want: func(s *Snapshot, a, b string) (out []string, ex bool) {
			for _, c := range s.Classes {
				out = append(out, wantClass(c))
			}
			return out, true
		},
		Args: func(g *Gen, s *Snapshot) (string, string) { return "", "" }})
	regQ(&qspec{Name: "ClassesByAdmin", Path: base + "ClassesByAdmin", Paged: true,
		Mk: func(a, b string, pg *query.PageRequest) gogoproto.Message {
			return &bt.QueryClassesByAdminRequest{Admin: a, Pagination: pg}
		},
		Resp: func() gogoproto.Message { return &bt.QueryClassesByAdminResponse{} },
		Out: func(r gogoproto.Message) (out []string, p *query.PageResponse) {
			x := r.(*bt.QueryClassesByAdminResponse)
			for _, c := range x.Classes {
				out = append(out, gotClass(c))
			}
			return out, x.Pagination
		},
		Want: func(s *Snapshot, a, b string) (out []string, ex bool) {
			for _, c := range s.Classes {
				if AddrStr(c.Admin) == a {
					out = append(out, wantClass(c))
				}
			}
			return out, validAddr(a)
		},
		Args: func(g *Gen, s *Snapshot) (string, string) { return g.argFrom(g.actorAddrs(), "regen1xyz", ""), "" }})
	regQ(&qspec{Name: "Class", Path: base + "Class",
		Mk:   func(a, b string, pg *query.PageRequest) gogoproto.Message { return &bt.QueryClassRequest{ClassId: a} },
		Resp: func() gogoproto.Message { return &bt.QueryClassResponse{} },
		Out: func(r gogoproto.Message) (out []string, p *query.PageResponse) {
			if x := r.(*bt.QueryClassResponse); x.Class != nil {
				out = append(out, gotClass(x.Class))
			}
			return
		},
		Want: func(s *Snapshot, a, b string) (out []string, ex bool) {
			if c := s.ClassByID(a); c != nil {
				return []string{wantClass(c)}, true
			}
			return nil, false
		},
		Args: func(g *Gen, s *Snapshot) (string, string) { return g.argFrom(classIDs(s), "C99", "ZZ01", ""), "" }})
	regQ(&qspec{Name: "ClassIssuers", Path: base + "ClassIssuers", Paged: true,
		Mk: func(a, b string, pg *query.PageRequest) gogoproto.Message {
			return &bt.QueryClassIssuersRequest{ClassId: a, Pagination: pg}
		},
		Resp: func() gogoproto.Message { return &bt.QueryClassIssuersResponse{} },
		Out: func(r gogoproto.Message) (out []string, p *query.PageResponse) {
			x := r.(*bt.QueryClassIssuersResponse)
			return append(out, x.Issuers...), x.Pagination
		},
		Want: func(s *Snapshot, a, b string) (out []string, ex bool) {
			c := s.ClassByID(a)
			if c == nil {
				return nil, false
			}
			for _, is := range s.Issuers {
				if is.ClassKey == c.Key {
					out = append(out, AddrStr(is.Issuer))
				}
			}
			return out, true
		},
		Args: func(g *Gen, s *Snapshot) (string, string) { return g.argFrom(classIDs(s), "C99", ""), "" }})
	// ---- projects
	projOut := func(ps []*bt.ProjectInfo) (out []string) {
		for _, p := range ps {
			out = append(out, gotProject(p))
		}
		return
	}
	regQ(&qspec{Name: "Projects", Path: base + "Projects", Paged: true,
		Mk: func(a, b string, pg *query.PageRequest) gogoproto.Message {
			return &bt.QueryProjectsRequest{Pagination: pg}
		},
		Resp: func() gogoproto.Message { return &bt.QueryProjectsResponse{} },
		Out: func(r gogoproto.Message) ([]string, *query.PageResponse) {
			x := r.(*bt.QueryProjectsResponse)
			return projOut(x.Projects), x.Pagination
		},
		Want: func(s *Snapshot, a, b string) (out []string, ex bool) {
			for _, p := range s.Projects {
				out = append(out, wantProject(s, p))
			}
			return out, true
		},
		Args: func(g *Gen, s *Snapshot) (string, string) { return "", "" }})
	regQ(&qspec{Name: "ProjectsByClass", Path: base + "ProjectsByClass", Paged: true,
		Mk: func(a, b string, pg *query.PageRequest) gogoproto.Message {
			return &bt.QueryProjectsByClassRequest{ClassId: a, Pagination: pg}
		},
		Resp: func() gogoproto.Message { return &bt.QueryProjectsByClassResponse{} },
		Out: func(r gogoproto.Message) ([]string, *query.PageResponse) {
			x := r.(*bt.QueryProjectsByClassResponse)
			return projOut(x.Projects), x.Pagination
		},
		Want: func(s *Snapshot, a, b string) (out []string, ex bool) {
			c := s.ClassByID(a)
			if c == nil {
				return nil, false
			}
			for _, p := range s.Projects {
				if p.ClassKey == c.Key {
					out = append(out, wantProject(s, p))
				}
			}
			return out, true
		},
		Args: func(g *Gen, s *Snapshot) (string, string) { return g.argFrom(classIDs(s), "C99", ""), "" }})
	regQ(&qspec{Name: "ProjectsByReferenceId", Path: base + "ProjectsByReferenceId", Paged: true,
		Mk: func(a, b string, pg *query.PageRequest) gogoproto.Message {
			return &bt.QueryProjectsByReferenceIdRequest{ReferenceId: a, Pagination: pg}
		},
		Resp: func() gogoproto.Message { return &bt.QueryProjectsByReferenceIdResponse{} },
		Out: func(r gogoproto.Message) ([]string, *query.PageResponse) {
			x := r.(*bt.QueryProjectsByReferenceIdResponse)
			return projOut(x.Projects), x.Pagination
		},
		Want: func(s *Snapshot, a, b string) (out []string, ex bool) {
			for _, p := range s.Projects {
				if p.ReferenceId == a {
					out = append(out, wantProject(s, p))
				}
			}
			return out, a != ""
		},
		Args: func(g *Gen, s *Snapshot) (string, string) {
			var refs []string
			for _, p := range s.Projects {
				if p.ReferenceId != "" {
					refs = append(refs, p.ReferenceId)
				}
			}
			return g.argFrom(refs, "VCS-00", "nope", "VCS-0011"), ""
		}})
	regQ(&qspec{Name: "ProjectsByAdmin", Path: base + "ProjectsByAdmin", Paged: true,
		Mk: func(a, b string, pg *query.PageRequest) gogoproto.Message {
			return &bt.QueryProjectsByAdminRequest{Admin: a, Pagination: pg}
		},
		Resp: func() gogoproto.Message { return &bt.QueryProjectsByAdminResponse{} },
		Out: func(r gogoproto.Message) ([]string, *query.PageResponse) {
			x := r.(*bt.QueryProjectsByAdminResponse)
			return projOut(x.Projects), x.Pagination
		},
		Want: func(s *Snapshot, a, b string) (out []string, ex bool) {
			for _, p := range s.Projects {
				if AddrStr(p.Admin) == a {
					out = append(out, wantProject(s, p))
				}
			}
			return out, validAddr(a)
		},
		Args: func(g *Gen, s *Snapshot) (string, string) { return g.argFrom(g.actorAddrs(), "regen1xyz"), "" }})
	regQ(&qspec{Name: "Project", Path: base + "Project",
		Mk: func(a, b string, pg *query.PageRequest) gogoproto.Message {
			return &bt.QueryProjectRequest{ProjectId: a}
		},
		Resp: func() gogoproto.Message { return &bt.QueryProjectResponse{} },
		Out: func(r gogoproto.Message) (out []string, p *query.PageResponse) {
			if x := r.(*bt.QueryProjectResponse); x.Project != nil {
				out = append(out, gotProject(x.Project))
			}
			return
		},
		Want: func(s *Snapshot, a, b string) ([]string, bool) {
			if p := s.ProjectByID(a); p != nil {
				return []string{wantProject(s, p)}, true
			}
			return nil, false
		},
		Args: func(g *Gen, s *Snapshot) (string, string) { return g.argFrom(projectIDs(s), "C01-999", ""), "" }})
	// ---- batches
	batchOut := func(bs []*bt.BatchInfo) (out []string) {
		for _, b := range bs {
			out = append(out, gotBatch(b))
		}
		return
	}
	regQ(&qspec{Name: "Batches", Path: base + "Batches", Paged: true,
		Mk: func(a, b string, pg *query.PageRequest) gogoproto.Message {
			return &bt.QueryBatchesRequest{Pagination: pg}
		},
		Resp: func() gogoproto.Message { return &bt.QueryBatchesResponse{} },
		Out: func(r gogoproto.Message) ([]string, *query.PageResponse) {
			x := r.(*bt.QueryBatchesResponse)
			return batchOut(x.Batches), x.Pagination
		},
		Want: func(s *Snapshot, a, b string) (out []string, ex bool) {
			for _, x := range s.Batches {
				out = append(out, wantBatch(s, x))
			}
			return out, true
		},
		Args: func(g *Gen, s *Snapshot) (string, string) { return "", "" }})
	regQ(&qspec{Name: "BatchesByIssuer", Path: base + "BatchesByIssuer", Paged: true,
		Mk: func(a, b string, pg *query.PageRequest) gogoproto.Message {
			return &bt.QueryBatchesByIssuerRequest{Issuer: a, Pagination: pg}
		},
		Resp: func() gogoproto.Message { return &bt.QueryBatchesByIssuerResponse{} },
		Out: func(r gogoproto.Message) ([]string, *query.PageResponse) {
			x := r.(*bt.QueryBatchesByIssuerResponse)
			return batchOut(x.Batches), x.Pagination
		},
		Want: func(s *Snapshot, a, b string) (out []string, ex bool) {
			for _, x := range s.Batches {
				if AddrStr(x.Issuer) == a {
					out = append(out, wantBatch(s, x))
				}
			}
			return out, validAddr(a)
		},
		Args: func(g *Gen, s *Snapshot) (string, string) { return g.argFrom(g.actorAddrs(), "regen1xyz"), "" }})
	regQ(&qspec{Name: "BatchesByClass", Path: base + "BatchesByClass", Paged: true,
		Mk: func(a, b string, pg *query.PageRequest) gogoproto.Message {
			return &bt.QueryBatchesByClassRequest{ClassId: a, Pagination: pg}
		},
		Resp: func() gogoproto.Message { return &bt.QueryBatchesByClassResponse{} },
		Out: func(r gogoproto.Message) ([]string, *query.PageResponse) {
			x := r.(*bt.QueryBatchesByClassResponse)
			return batchOut(x.Batches), x.Pagination
		},
		Want: func(s *Snapshot, a, b string) (out []string, ex bool) {
			c := s.ClassByID(a)
			if c == nil {
				return nil, false
			}
			for _, x := range s.Batches {
				if cl := s.ClassOfBatch(x); cl != nil && cl.Key == c.Key {
					out = append(out, wantBatch(s, x))
				}
			}
			return out, true
		},
		Args: func(g *Gen, s *Snapshot) (string, string) { return g.argFrom(classIDs(s), "C99", ""), "" }})
	regQ(&qspec{Name: "BatchesByProject", Path: base + "BatchesByProject", Paged: true,
		Mk: func(a, b string, pg *query.PageRequest) gogoproto.Message {
			return &bt.QueryBatchesByProjectRequest{ProjectId: a, Pagination: pg}
		},
		Resp: func() gogoproto.Message { return &bt.QueryBatchesByProjectResponse{} },
		Out: func(r gogoproto.Message) ([]string, *query.PageResponse) {
			x := r.(*bt.QueryBatchesByProjectResponse)
			return batchOut(x.Batches), x.Pagination
		},
		Want: func(s *Snapshot, a, b string) (out []string, ex bool) {
			p := s.ProjectByID(a)
			if p == nil {
				return nil, false
			}
			for _, x := range s.Batches {
				if x.ProjectKey == p.Key {
					out = append(out, wantBatch(s, x))
				}
			}
			return out, true
		},
		Args: func(g *Gen, s *Snapshot) (string, string) { return g.argFrom(projectIDs(s), "C01-999", ""), "" }})
	regQ(&qspec{Name: "Batch", Path: base + "Batch",
		Mk: func(a, b string, pg *query.PageRequest) gogoproto.Message {
			return &bt.QueryBatchRequest{BatchDenom: a}
		},
		Resp: func() gogoproto.Message { return &bt.QueryBatchResponse{} },
		Out: func(r gogoproto.Message) (out []string, p *query.PageResponse) {
			if x := r.(*bt.QueryBatchResponse); x.Batch != nil {
				out = append(out, gotBatch(x.Batch))
			}
			return
		},
		Want: func(s *Snapshot, a, b string) ([]string, bool) {
			if x := s.BatchByDenom(a); x != nil {
				return []string{wantBatch(s, x)}, true
			}
			return nil, false
		},
		Args: func(g *Gen, s *Snapshot) (string, string) {
			return g.argFrom(batchDenoms(s), "C01-001-20200101-20210101-999", ""), ""
		}})
	// ---- balances
	balOut := func(bs []*bt.BatchBalanceInfo) (out []string) {
		for _, b := range bs {
			out = append(out, gotBal(b))
		}
		return
	}
	regQ(&qspec{Name: "Balance", Path: base + "Balance", ZeroOK: true,
		Mk: func(a, b string, pg *query.PageRequest) gogoproto.Message {
			return &bt.QueryBalanceRequest{Address: a, BatchDenom: b}
		},
		Resp: func() gogoproto.Message { return &bt.QueryBalanceResponse{} },
		Out: func(r gogoproto.Message) (out []string, p *query.PageResponse) {
			if x := r.(*bt.QueryBalanceResponse); x.Balance != nil {
				out = append(out, gotBal(x.Balance))
			}
			return
		},
		Want: func(s *Snapshot, a, b string) ([]string, bool) {
			bb := s.BatchByDenom(b)
			if bb == nil {
				return nil, false
			}
			if r := s.Balance(a, bb.Key); r != nil {
				return []string{wantBal(s, r)}, true
			}
			return nil, false
		},
		Args: func(g *Gen, s *Snapshot) (string, string) {
			return g.argFrom(g.actorAddrs(), "regen1xyz"), g.argFrom(batchDenoms(s), "C01-001-20200101-20210101-999")
		}})
	regQ(&qspec{Name: "Balances", Path: base + "Balances", Paged: true,
		Mk: func(a, b string, pg *query.PageRequest) gogoproto.Message {
			return &bt.QueryBalancesRequest{Address: a, Pagination: pg}
		},
		Resp: func() gogoproto.Message { return &bt.QueryBalancesResponse{} },
		Out: func(r gogoproto.Message) ([]string, *query.PageResponse) {
			x := r.(*bt.QueryBalancesResponse)
			return balOut(x.Balances), x.Pagination
		},
		Want: func(s *Snapshot, a, b string) (out []string, ex bool) {
			for _, x := range s.Balances {
				if AddrStr(x.Address) == a {
					out = append(out, wantBal(s, x))
				}
			}
			return out, validAddr(a)
		},
		Args: func(g *Gen, s *Snapshot) (string, string) { return g.argFrom(g.actorAddrs(), "regen1xyz"), "" }})
	regQ(&qspec{Name: "BalancesByBatch", Path: base + "BalancesByBatch", Paged: true,
		Mk: func(a, b string, pg *query.PageRequest) gogoproto.Message {
			return &bt.QueryBalancesByBatchRequest{BatchDenom: a, Pagination: pg}
		},
		Resp: func() gogoproto.Message { return &bt.QueryBalancesByBatchResponse{} },
		Out: func(r gogoproto.Message) ([]string, *query.PageResponse) {
			x := r.(*bt.QueryBalancesByBatchResponse)
			return balOut(x.Balances), x.Pagination
		},
		Want: func(s *Snapshot, a, b string) (out []string, ex bool) {
			bb := s.BatchByDenom(a)
			if bb == nil {
				return nil, false
			}
			for _, x := range s.Balances {
				if x.BatchKey == bb.Key {
					out = append(out, wantBal(s, x))
				}
			}
			return out, true
		},
		Args: func(g *Gen, s *Snapshot) (string, string) {
			return g.argFrom(batchDenoms(s), "C01-001-20200101-20210101-999"), ""
		}})
	regQ(&qspec{Name: "AllBalances", Path: base + "AllBalances", Paged: true,
		Mk: func(a, b string, pg *query.PageRequest) gogoproto.Message {
			return &bt.QueryAllBalancesRequest{Pagination: pg}
		},
		Resp: func() gogoproto.Message { return &bt.QueryAllBalancesResponse{} },
		Out: func(r gogoproto.Message) ([]string, *query.PageResponse) {
			x := r.(*bt.QueryAllBalancesResponse)
			return balOut(x.Balances), x.Pagination
		},
		Want: func(s *Snapshot, a, b string) (out []string, ex bool) {
			for _, x := range s.Balances {
				out = append(out, wantBal(s, x))
			}
			return out, true
		},
		Args: func(g *Gen, s *Snapshot) (string, string) { return "", "" }})
	regQ(&qspec{Name: "Supply", Path: base + "Supply",
		Mk: func(a, b string, pg *query.PageRequest) gogoproto.Message {
			return &bt.QuerySupplyRequest{BatchDenom: a}
		},
		Resp: func() gogoproto.Message { return &bt.QuerySupplyResponse{} },
		Out: func(r gogoproto.Message) (out []string, p *query.PageResponse) {
			x := r.(*bt.QuerySupplyResponse)
			return []string{j(x.TradableAmount, x.RetiredAmount, x.CancelledAmount)}, nil
		},
		Want: func(s *Snapshot, a, b string) ([]string, bool) {
			bb := s.BatchByDenom(a)
			if bb == nil {
				return nil, false
			}
			if sp := s.SupplyRow(bb.Key); sp != nil {
				return []string{j(sp.TradableAmount, sp.RetiredAmount, sp.CancelledAmount)}, true
			}
			return nil, false
		},
		Args: func(g *Gen, s *Snapshot) (string, string) {
			return g.argFrom(batchDenoms(s), "C01-001-20200101-20210101-999"), ""
		}})
	regQ(&qspec{Name: "CreditTypes", Path: base + "CreditTypes",
		Mk:   func(a, b string, pg *query.PageRequest) gogoproto.Message { return &bt.QueryCreditTypesRequest{} },
		Resp: func() gogoproto.Message { return &bt.QueryCreditTypesResponse{} },
		Out: func(r gogoproto.Message) (out []string, p *query.PageResponse) {
			for _, c := range r.(*bt.QueryCreditTypesResponse).CreditTypes {
				out = append(out, j(c.Abbreviation, c.Name, c.Unit, c.Precision))
			}
			return
		},
		Want: func(s *Snapshot, a, b string) (out []string, ex bool) {
			for _, c := range s.CreditTypes {
				out = append(out, j(c.Abbreviation, c.Name, c.Unit, c.Precision))
			}
			return out, true
		},
		Args: func(g *Gen, s *Snapshot) (string, string) { return "", "" }})
	regQ(&qspec{Name: "CreditType", Path: base + "CreditType",
		Mk: func(a, b string, pg *query.PageRequest) gogoproto.Message {
			return &bt.QueryCreditTypeRequest{Abbreviation: a}
		},
		Resp: func() gogoproto.Message { return &bt.QueryCreditTypeResponse{} },
		Out: func(r gogoproto.Message) (out []string, p *query.PageResponse) {
			if c := r.(*bt.QueryCreditTypeResponse).CreditType; c != nil {
				out = append(out, j(c.Abbreviation, c.Name, c.Unit, c.Precision))
			}
			return
		},
		Want: func(s *Snapshot, a, b string) ([]string, bool) {
			if c := s.CreditType(a); c != nil {
				return []string{j(c.Abbreviation, c.Name, c.Unit, c.Precision)}, true
			}
			return nil, false
		},
		Args: func(g *Gen, s *Snapshot) (string, string) {
			return Pick(g.R, []string{"C", "BIO", "KSH", "B", "CC", "c"}), ""
		}})
	regQ(&qspec{Name: "ClassCreatorAllowlist", Path: base + "ClassCreatorAllowlist",
		Mk: func(a, b string, pg *query.PageRequest) gogoproto.Message {
			return &bt.QueryClassCreatorAllowlistRequest{}
		},
		Resp: func() gogoproto.Message { return &bt.QueryClassCreatorAllowlistResponse{} },
		Out: func(r gogoproto.Message) (out []string, p *query.PageResponse) {
			return []string{fmt.Sprint(r.(*bt.QueryClassCreatorAllowlistResponse).Enabled)}, nil
		},
		Want: func(s *Snapshot, a, b string) ([]string, bool) {
			return []string{fmt.Sprint(s.Allowlist != nil && s.Allowlist.Enabled)}, true
		},
		Args: func(g *Gen, s *Snapshot) (string, string) { return "", "" }})
	regQ(&qspec{Name: "AllowedClassCreators", Path: base + "AllowedClassCreators", Paged: true,
		Mk: func(a, b string, pg *query.PageRequest) gogoproto.Message {
			return &bt.QueryAllowedClassCreatorsRequest{Pagination: pg}
		},
		Resp: func() gogoproto.Message { return &bt.QueryAllowedClassCreatorsResponse{} },
		Out: func(r gogoproto.Message) ([]string, *query.PageResponse) {
			x := r.(*bt.QueryAllowedClassCreatorsResponse)
			return append([]string(nil), x.ClassCreators...), x.Pagination
		},
		Want: func(s *Snapshot, a, b string) (out []string, ex bool) {
			for _, c := range s.Creators {
				out = append(out, AddrStr(c.Address))
			}
			return out, true
		},
		Args: func(g *Gen, s *Snapshot) (string, string) { return "", "" }})
	regQ(&qspec{Name: "ClassFee", Path: base + "ClassFee",
		Mk:   func(a, b string, pg *query.PageRequest) gogoproto.Message { return &bt.QueryClassFeeRequest{} },
		Resp: func() gogoproto.Message { return &bt.QueryClassFeeResponse{} },
		Out: func(r gogoproto.Message) (out []string, p *query.PageResponse) {
			if f := r.(*bt.QueryClassFeeResponse).Fee; f != nil && f.Denom != "" { // an unset fee is rendered as the empty coin
				return []string{f.Amount.String() + f.Denom}, nil
			}
			return []string{"unset"}, nil
		},
		Want: func(s *Snapshot, a, b string) ([]string, bool) {
			if s.ClassFee != nil && s.ClassFee.Fee != nil {
				return []string{s.ClassFee.Fee.Amount + s.ClassFee.Fee.Denom}, true
			}
			return []string{"unset"}, true
		},
		Args: func(g *Gen, s *Snapshot) (string, string) { return "", "" }})
	regQ(&qspec{Name: "AllowedBridgeChains", Path: base + "AllowedBridgeChains",
		Mk: func(a, b string, pg *query.PageRequest) gogoproto.Message {
			return &bt.QueryAllowedBridgeChainsRequest{}
		},
		Resp: func() gogoproto.Message { return &bt.QueryAllowedBridgeChainsResponse{} },
		Out: func(r gogoproto.Message) (out []string, p *query.PageResponse) {
			return append(out, r.(*bt.QueryAllowedBridgeChainsResponse).AllowedBridgeChains...), nil
		},
		Want: func(s *Snapshot, a, b string) (out []string, ex bool) {
			for _, c := range s.BridgeChains {
				out = append(out, c.ChainName)
			}
			return out, true
		},
		Args: func(g *Gen, s *Snapshot) (string, string) { return "", "" }})

	regQ(&qspec{Name: "Params", Path: base + "Params",
		Mk:   func(a, b string, pg *query.PageRequest) gogoproto.Message { return &bt.QueryParamsRequest{} },
		Resp: func() gogoproto.Message { return &bt.QueryParamsResponse{} },
		Out: func(r gogoproto.Message) (out []string, p *query.PageResponse) {
			x := r.(*bt.QueryParamsResponse).Params
			if x == nil {
				return nil, nil
			}
			fee := func(cs sdk.Coins) string {
				for _, c := range cs {
					if c.Denom != "" && !c.Amount.IsNil() {
						return c.Amount.String() + c.Denom
					}
				}
				return "unset"
			}
			var ds []string
			for _, d := range x.AllowedDenoms {
				ds = append(ds, j(d.BankDenom, d.DisplayDenom, d.Exponent))
			}
			return []string{j("creators", strings.Join(sortedCopy(x.AllowedClassCreators), ","), "allowlist", x.AllowlistEnabled, "classfee", fee(x.CreditClassFee),
				"basketfee", fee(x.BasketFee), "denoms", strings.Join(sortedCopy(ds), ","), "chains", strings.Join(sortedCopy(x.AllowedBridgeChains), ","))}, nil
		},
		Want: func(s *Snapshot, a, b string) ([]string, bool) {
			var cr, ds, ch []string
			for _, c := range s.Creators {
				cr = append(cr, AddrStr(c.Address))
			}
			for _, d := range s.AllowedDenoms {
				ds = append(ds, j(d.BankDenom, d.DisplayDenom, d.Exponent))
			}
			for _, c := range s.BridgeChains {
				ch = append(ch, c.ChainName)
			}
			cf, bf := "unset", "unset"
			if s.ClassFee != nil && s.ClassFee.Fee != nil {
				cf = s.ClassFee.Fee.Amount + s.ClassFee.Fee.Denom
			}
			if s.BasketFee != nil && s.BasketFee.Fee != nil {
				bf = s.BasketFee.Fee.Amount + s.BasketFee.Fee.Denom
			}
			return []string{j("creators", strings.Join(sortedCopy(cr), ","), "allowlist", s.Allowlist != nil && s.Allowlist.Enabled, "classfee", cf,
				"basketfee", bf, "denoms", strings.Join(sortedCopy(ds), ","), "chains", strings.Join(sortedCopy(ch), ","))}, true
		},
		Args: func(g *Gen, s *Snapshot) (string, string) { return "", "" }})

	// ---- basket
	kb := "/regen.ecocredit.basket.v1.Query/"
	basketDenoms := func(s *Snapshot) (out []string) {
		for _, b := range s.Baskets {
			out = append(out, b.BasketDenom)
		}
		return
	}
	// the date criterion, field by field as seconds / nanoseconds / years ("-" = not set)
	wantCrit := func(dc *basketv1.DateCriteria) string {
		if dc == nil {
			return "-"
		}
		out := ""
		if x := dc.MinStartDate; x != nil {
			out += fmt.Sprintf("min:%d.%d;", x.Seconds, x.Nanos)
		}
		if x := dc.StartDateWindow; x != nil {
			out += fmt.Sprintf("win:%d.%d;", x.Seconds, x.Nanos)
		}
		if dc.YearsInThePast != 0 {
			out += fmt.Sprintf("years:%d;", dc.YearsInThePast)
		}
		if out == "" {
			return "-"
		}
		return out
	}
	gotCrit := func(dc *kt.DateCriteria) string {
		if dc == nil {
			return "-"
		}
		out := ""
		if x := dc.GetMinStartDate(); x != nil {
			out += fmt.Sprintf("min:%d.%d;", x.Seconds, x.Nanos)
		}
		if x := dc.GetStartDateWindow(); x != nil {
			out += fmt.Sprintf("win:%d.%d;", x.Seconds, x.Nanos)
		}
		if dc.GetYearsInThePast() != 0 {
			out += fmt.Sprintf("years:%d;", dc.GetYearsInThePast())
		}
		if out == "" {
			return "-"
		}
		return out
	}
	wantBasketInfo := func(s *Snapshot, b *basketv1.Basket) string {
		return j(b.GetBasketDenom(), b.GetName(), b.GetDisableAutoRetire(), b.GetCreditTypeAbbrev(), AddrStr(b.GetCurator()), wantCrit(b.DateCriteria))
	}
	gotBasketInfo := func(b *kt.BasketInfo) string {
		return j(b.BasketDenom, b.Name, b.DisableAutoRetire, b.CreditTypeAbbrev, b.Curator, gotCrit(b.DateCriteria))
	}
	regQ(&qspec{Name: "Baskets", Path: kb + "Baskets", Paged: true,
		Mk: func(a, b string, pg *query.PageRequest) gogoproto.Message {
			return &kt.QueryBasketsRequest{Pagination: pg}
		},
		Resp: func() gogoproto.Message { return &kt.QueryBasketsResponse{} },
		Out: func(r gogoproto.Message) (out []string, p *query.PageResponse) {
			x := r.(*kt.QueryBasketsResponse)
			for _, b := range x.BasketsInfo {
				out = append(out, gotBasketInfo(b))
			}
			return out, x.Pagination
		},
		Want: func(s *Snapshot, a, b string) (out []string, ex bool) {
			for _, x := range s.Baskets {
				out = append(out, wantBasketInfo(s, x))
			}
			return out, true
		},
		Args: func(g *Gen, s *Snapshot) (string, string) { return "", "" }})
	regQ(&qspec{Name: "Basket", Path: kb + "Basket",
		Mk: func(a, b string, pg *query.PageRequest) gogoproto.Message {
			return &kt.QueryBasketRequest{BasketDenom: a}
		},
		Resp: func() gogoproto.Message { return &kt.QueryBasketResponse{} },
		Out: func(r gogoproto.Message) (out []string, p *query.PageResponse) {
			x := r.(*kt.QueryBasketResponse)
			if x.BasketInfo != nil {
				cl := append([]string(nil), x.Classes...)
				sort.Strings(cl)
				out = append(out, gotBasketInfo(x.BasketInfo)+"|"+strings.Join(cl, ","))
			}
			return
		},
		Want: func(s *Snapshot, a, b string) ([]string, bool) {
			x := s.BasketByDenom(a)
			if x == nil {
				return nil, false
			}
			var cl []string
			for _, bc := range s.BasketClasses {
				if bc.BasketId == x.Id {
					cl = append(cl, bc.ClassId)
				}
			}
			sort.Strings(cl)
			return []string{wantBasketInfo(s, x) + "|" + strings.Join(cl, ",")}, true
		},
		Args: func(g *Gen, s *Snapshot) (string, string) {
			return g.argFrom(basketDenoms(s), "eco.uC.NOPE", "eco.uC.NC"), ""
		}})
	regQ(&qspec{Name: "BasketBalances", Path: kb + "BasketBalances", Paged: true,
		Mk: func(a, b string, pg *query.PageRequest) gogoproto.Message {
			return &kt.QueryBasketBalancesRequest{BasketDenom: a, Pagination: pg}
		},
		Resp: func() gogoproto.Message { return &kt.QueryBasketBalancesResponse{} },
		Out: func(r gogoproto.Message) (out []string, p *query.PageResponse) {
			x := r.(*kt.QueryBasketBalancesResponse)
			for _, b := range x.BalancesInfo {
				out = append(out, j(b.BatchDenom, b.Balance))
			}
			return out, x.Pagination
		},
		Want: func(s *Snapshot, a, b string) (out []string, ex bool) {
			x := s.BasketByDenom(a)
			if x == nil {
				return nil, false
			}
			for _, bb := range s.BasketBals {
				if bb.BasketId == x.Id {
					out = append(out, j(bb.BatchDenom, bb.Balance))
				}
			}
			return out, true
		},
		Args: func(g *Gen, s *Snapshot) (string, string) { return g.argFrom(basketDenoms(s), "eco.uC.NOPE"), "" }})
	regQ(&qspec{Name: "BasketBalance", Path: kb + "BasketBalance", ZeroOK: true,
		Mk: func(a, b string, pg *query.PageRequest) gogoproto.Message {
			return &kt.QueryBasketBalanceRequest{BasketDenom: a, BatchDenom: b}
		},
		Resp: func() gogoproto.Message { return &kt.QueryBasketBalanceResponse{} },
		Out: func(r gogoproto.Message) (out []string, p *query.PageResponse) {
			return []string{r.(*kt.QueryBasketBalanceResponse).Balance}, nil
		},
		Want: func(s *Snapshot, a, b string) ([]string, bool) {
			x := s.BasketByDenom(a)
			if x == nil {
				return nil, false
			}
			for _, bb := range s.BasketBals {
				if bb.BasketId == x.Id && bb.BatchDenom == b {
					return []string{bb.Balance}, true
				}
			}
			return nil, false
		},
		Args: func(g *Gen, s *Snapshot) (string, string) {
			return g.argFrom(basketDenoms(s), "eco.uC.NOPE"), g.argFrom(batchDenoms(s), "C01-001-20200101-20210101-999")
		}})
	regQ(&qspec{Name: "BasketFee", Path: kb + "BasketFee",
		Mk:   func(a, b string, pg *query.PageRequest) gogoproto.Message { return &kt.QueryBasketFeeRequest{} },
		Resp: func() gogoproto.Message { return &kt.QueryBasketFeeResponse{} },
		Out: func(r gogoproto.Message) (out []string, p *query.PageResponse) {
			if f := r.(*kt.QueryBasketFeeResponse).Fee; f != nil && f.Denom != "" {
				return []string{f.Amount.String() + f.Denom}, nil
			}
			return []string{"unset"}, nil
		},
		Want: func(s *Snapshot, a, b string) ([]string, bool) {
			if s.BasketFee != nil && s.BasketFee.Fee != nil {
				return []string{s.BasketFee.Fee.Amount + s.BasketFee.Fee.Denom}, true
			}
			return []string{"unset"}, true
		},
		Args: func(g *Gen, s *Snapshot) (string, string) { return "", "" }})

	// ---- marketplace
	mb := "/regen.ecocredit.marketplace.v1.Query/"
	gotOrder := func(o *mt.SellOrderInfo) string {
		return j(o.Id, o.Seller, o.BatchDenom, o.Quantity, o.AskDenom, o.AskAmount, o.DisableAutoRetire, gtsS(o.Expiration))
	}
	wantOrder := func(s *Snapshot, o interface {
		GetId() uint64
		GetSeller() []byte
		GetBatchKey() uint64
		GetQuantity() string
		GetMarketId() uint64
		GetAskAmount() string
		GetDisableAutoRetire() bool
		GetExpiration() *timestamppb.Timestamp
	}) string {
		d, ad := "?", "?"
		if b := s.BatchByKey(o.GetBatchKey()); b != nil {
			d = b.Denom
		}
		if m := s.MarketByID(o.GetMarketId()); m != nil {
			ad = m.BankDenom
		}
		return j(o.GetId(), AddrStr(o.GetSeller()), d, o.GetQuantity(), ad, o.GetAskAmount(), o.GetDisableAutoRetire(), tsS(o.GetExpiration()))
	}
	ordersOut := func(os []*mt.SellOrderInfo) (out []string) {
		for _, o := range os {
			out = append(out, gotOrder(o))
		}
		return
	}
	regQ(&qspec{Name: "SellOrders", Path: mb + "SellOrders", Paged: true,
		Mk: func(a, b string, pg *query.PageRequest) gogoproto.Message {
			return &mt.QuerySellOrdersRequest{Pagination: pg}
		},
		Resp: func() gogoproto.Message { return &mt.QuerySellOrdersResponse{} },
		Out: func(r gogoproto.Message) ([]string, *query.PageResponse) {
			x := r.(*mt.QuerySellOrdersResponse)
			return ordersOut(x.SellOrders), x.Pagination
		},
		Want: func(s *Snapshot, a, b string) (out []string, ex bool) {
			for _, o := range s.Orders {
				out = append(out, wantOrder(s, o))
			}
			return out, true
		},
		Args: func(g *Gen, s *Snapshot) (string, string) { return "", "" }})
	regQ(&qspec{Name: "SellOrdersByBatch", Path: mb + "SellOrdersByBatch", Paged: true,
		Mk: func(a, b string, pg *query.PageRequest) gogoproto.Message {
			return &mt.QuerySellOrdersByBatchRequest{BatchDenom: a, Pagination: pg}
		},
		Resp: func() gogoproto.Message { return &mt.QuerySellOrdersByBatchResponse{} },
		Out: func(r gogoproto.Message) ([]string, *query.PageResponse) {
			x := r.(*mt.QuerySellOrdersByBatchResponse)
			return ordersOut(x.SellOrders), x.Pagination
		},
		Want: func(s *Snapshot, a, b string) (out []string, ex bool) {
			bb := s.BatchByDenom(a)
			if bb == nil {
				return nil, false
			}
			for _, o := range s.Orders {
				if o.BatchKey == bb.Key {
					out = append(out, wantOrder(s, o))
				}
			}
			return out, true
		},
		Args: func(g *Gen, s *Snapshot) (string, string) {
			return g.argFrom(batchDenoms(s), "C01-001-20200101-20210101-999"), ""
		}})
	regQ(&qspec{Name: "SellOrdersBySeller", Path: mb + "SellOrdersBySeller", Paged: true,
		Mk: func(a, b string, pg *query.PageRequest) gogoproto.Message {
			return &mt.QuerySellOrdersBySellerRequest{Seller: a, Pagination: pg}
		},
		Resp: func() gogoproto.Message { return &mt.QuerySellOrdersBySellerResponse{} },
		Out: func(r gogoproto.Message) ([]string, *query.PageResponse) {
			x := r.(*mt.QuerySellOrdersBySellerResponse)
			return ordersOut(x.SellOrders), x.Pagination
		},
		Want: func(s *Snapshot, a, b string) (out []string, ex bool) {
			for _, o := range s.Orders {
				if AddrStr(o.Seller) == a {
					out = append(out, wantOrder(s, o))
				}
			}
			return out, validAddr(a)
		},
		Args: func(g *Gen, s *Snapshot) (string, string) { return g.argFrom(g.actorAddrs(), "regen1xyz"), "" }})
	regQ(&qspec{Name: "SellOrder", Path: mb + "SellOrder",
		Mk: func(a, b string, pg *query.PageRequest) gogoproto.Message {
			var id uint64
			fmt.Sscan(a, &id)
			return &mt.QuerySellOrderRequest{SellOrderId: id}
		},
		Resp: func() gogoproto.Message { return &mt.QuerySellOrderResponse{} },
		Out: func(r gogoproto.Message) (out []string, p *query.PageResponse) {
			if o := r.(*mt.QuerySellOrderResponse).SellOrder; o != nil {
				out = append(out, gotOrder(o))
			}
			return
		},
		Want: func(s *Snapshot, a, b string) ([]string, bool) {
			var id uint64
			fmt.Sscan(a, &id)
			if o := s.OrderByID(id); o != nil {
				return []string{wantOrder(s, o)}, true
			}
			return nil, false
		},
		Args: func(g *Gen, s *Snapshot) (string, string) {
			var ids []string
			for _, o := range s.Orders {
				ids = append(ids, fmt.Sprint(o.Id))
			}
			if len(ids) > 0 && g.R.Chance(0.7) {
				return ids[g.R.Intn(len(ids))], ""
			}
			return fmt.Sprint(g.R.Range(0, 40)), ""
		}})
	regQ(&qspec{Name: "AllowedDenoms", Path: mb + "AllowedDenoms", Paged: true,
		Mk: func(a, b string, pg *query.PageRequest) gogoproto.Message {
			return &mt.QueryAllowedDenomsRequest{Pagination: pg}
		},
		Resp: func() gogoproto.Message { return &mt.QueryAllowedDenomsResponse{} },
		Out: func(r gogoproto.Message) (out []string, p *query.PageResponse) {
			x := r.(*mt.QueryAllowedDenomsResponse)
			for _, d := range x.AllowedDenoms {
				out = append(out, j(d.BankDenom, d.DisplayDenom, d.Exponent))
			}
			return out, x.Pagination
		},
		Want: func(s *Snapshot, a, b string) (out []string, ex bool) {
			for _, d := range s.AllowedDenoms {
				out = append(out, j(d.BankDenom, d.DisplayDenom, d.Exponent))
			}
			return out, true
		},
		Args: func(g *Gen, s *Snapshot) (string, string) { return "", "" }})

	// ---- data
	db := "/regen.data.v2.Query/"
	iris := func(s *Snapshot) (out []string) {
		for _, d := range s.DataIDs {
			out = append(out, d.Iri)
		}
		return
	}
	idOfIRI := func(s *Snapshot, iri string) ([]byte, bool) {
		for _, d := range s.DataIDs {
			if d.Iri == iri {
				return d.Id, true
			}
		}
		return nil, false
	}
	iriOfID := func(s *Snapshot, id []byte) string {
		for _, d := range s.DataIDs {
			if string(d.Id) == string(id) {
				return d.Iri
			}
		}
		return "?"
	}
	attOut := func(as []*data.AttestationInfo) (out []string) {
		for _, a := range as {
			out = append(out, j(a.Iri, a.Attestor, gtsS(a.Timestamp)))
		}
		return
	}
	wantAtts := func(s *Snapshot, f func(iri, att string) bool) (out []string) {
		for _, a := range s.Attestors {
			iri := iriOfID(s, a.Id)
			if f(iri, AddrStr(a.Attestor)) {
				out = append(out, j(iri, AddrStr(a.Attestor), tsS(a.Timestamp)))
			}
		}
		return
	}
	hashArg := func(g *Gen, s *Snapshot) string {
		// the content hash is carried hex(proto) in the step
		var ch *data.ContentHash
		if len(s.DataIDs) > 0 && g.R.Chance(0.7) {
			c, err := data.ParseIRI(s.DataIDs[g.R.Intn(len(s.DataIDs))].Iri)
			if err == nil {
				ch = c
			}
		}
		if ch == nil {
			ch = g.contentHash(ModeValid, false)
		}
		bz, _ := gogoproto.Marshal(ch)
		return hex.EncodeToString(bz)
	}
	decHash := func(a string) *data.ContentHash {
		bz, err := hex.DecodeString(a)
		if err != nil {
			return nil
		}
		var ch data.ContentHash
		if gogoproto.Unmarshal(bz, &ch) != nil {
			return nil
		}
		return &ch
	}
	iriOfHashArg := func(a string) (string, bool) {
		ch := decHash(a)
		if ch == nil {
			return "", false
		}
		iri, err := ch.ToIRI()
		return iri, err == nil
	}
	regQ(&qspec{Name: "AnchorByIRI", Path: db + "AnchorByIRI",
		Mk: func(a, b string, pg *query.PageRequest) gogoproto.Message {
			return &data.QueryAnchorByIRIRequest{Iri: a}
		},
		Resp: func() gogoproto.Message { return &data.QueryAnchorByIRIResponse{} },
		Out: func(r gogoproto.Message) (out []string, p *query.PageResponse) {
			if a := r.(*data.QueryAnchorByIRIResponse).Anchor; a != nil {
				out = append(out, j(a.Iri, gtsS(a.Timestamp)))
			}
			return
		},
		Want: func(s *Snapshot, a, b string) ([]string, bool) {
			id, ok := idOfIRI(s, a)
			if !ok {
				return nil, false
			}
			for _, an := range s.Anchors {
				if string(an.Id) == string(id) {
					return []string{j(a, tsS(an.Timestamp))}, true
				}
			}
			return nil, false
		},
		Args: func(g *Gen, s *Snapshot) (string, string) { return g.argFrom(iris(s), "regen:nope.rdf", ""), "" }})
	regQ(&qspec{Name: "AnchorByHash", Path: db + "AnchorByHash",
		Mk: func(a, b string, pg *query.PageRequest) gogoproto.Message {
			return &data.QueryAnchorByHashRequest{ContentHash: decHash(a)}
		},
		Resp: func() gogoproto.Message { return &data.QueryAnchorByHashResponse{} },
		Out: func(r gogoproto.Message) (out []string, p *query.PageResponse) {
			if a := r.(*data.QueryAnchorByHashResponse).Anchor; a != nil {
				out = append(out, j(a.Iri, gtsS(a.Timestamp)))
			}
			return
		},
		Want: func(s *Snapshot, a, b string) ([]string, bool) {
			iri, ok := iriOfHashArg(a)
			if !ok {
				return nil, false
			}
			id, ok := idOfIRI(s, iri)
			if !ok {
				return nil, false
			}
			for _, an := range s.Anchors {
				if string(an.Id) == string(id) {
					return []string{j(iri, tsS(an.Timestamp))}, true
				}
			}
			return nil, false
		},
		Args: func(g *Gen, s *Snapshot) (string, string) { return hashArg(g, s), "" }})
	regQ(&qspec{Name: "AttestationsByAttestor", Path: db + "AttestationsByAttestor", Paged: true,
		Mk: func(a, b string, pg *query.PageRequest) gogoproto.Message {
			return &data.QueryAttestationsByAttestorRequest{Attestor: a, Pagination: pg}
		},
		Resp: func() gogoproto.Message { return &data.QueryAttestationsByAttestorResponse{} },
		Out: func(r gogoproto.Message) ([]string, *query.PageResponse) {
			x := r.(*data.QueryAttestationsByAttestorResponse)
			return attOut(x.Attestations), x.Pagination
		},
		Want: func(s *Snapshot, a, b string) ([]string, bool) {
			return wantAtts(s, func(iri, att string) bool { return att == a }), validAddr(a)
		},
		Args: func(g *Gen, s *Snapshot) (string, string) { return g.argFrom(g.actorAddrs(), "regen1xyz"), "" }})
	regQ(&qspec{Name: "AttestationsByIRI", Path: db + "AttestationsByIRI", Paged: true,
		Mk: func(a, b string, pg *query.PageRequest) gogoproto.Message {
			return &data.QueryAttestationsByIRIRequest{Iri: a, Pagination: pg}
		},
		Resp: func() gogoproto.Message { return &data.QueryAttestationsByIRIResponse{} },
		Out: func(r gogoproto.Message) ([]string, *query.PageResponse) {
			x := r.(*data.QueryAttestationsByIRIResponse)
			return attOut(x.Attestations), x.Pagination
		},
		Want: func(s *Snapshot, a, b string) ([]string, bool) {
			_, ok := idOfIRI(s, a)
			return wantAtts(s, func(iri, att string) bool { return iri == a }), ok
		},
		Args: func(g *Gen, s *Snapshot) (string, string) { return g.argFrom(iris(s), "regen:nope.rdf"), "" }})
	regQ(&qspec{Name: "AttestationsByHash", Path: db + "AttestationsByHash", Paged: true,
		Mk: func(a, b string, pg *query.PageRequest) gogoproto.Message {
			return &data.QueryAttestationsByHashRequest{ContentHash: decHash(a), Pagination: pg}
		},
		Resp: func() gogoproto.Message { return &data.QueryAttestationsByHashResponse{} },
		Out: func(r gogoproto.Message) ([]string, *query.PageResponse) {
			x := r.(*data.QueryAttestationsByHashResponse)
			return attOut(x.Attestations), x.Pagination
		},
		Want: func(s *Snapshot, a, b string) ([]string, bool) {
			iri, ok := iriOfHashArg(a)
			if !ok {
				return nil, false
			}
			_, ok = idOfIRI(s, iri)
			return wantAtts(s, func(i, att string) bool { return i == iri }), ok
		},
		Args: func(g *Gen, s *Snapshot) (string, string) { return hashArg(g, s), "" }})
	resOut := func(rs []*data.ResolverInfo) (out []string) {
		for _, r := range rs {
			out = append(out, j(r.Id, r.Url, r.Manager))
		}
		return
	}
	wantResolversOf := func(s *Snapshot, iri string) (out []string, ok bool) {
		id, ok := idOfIRI(s, iri)
		if !ok {
			return nil, false
		}
		for _, dr := range s.DataResolvers {
			if string(dr.Id) == string(id) {
				for _, r := range s.Resolvers {
					if r.Id == dr.ResolverId {
						out = append(out, j(r.Id, r.Url, AddrStr(r.Manager)))
					}
				}
			}
		}
		return out, true
	}
	regQ(&qspec{Name: "Resolver", Path: db + "Resolver",
		Mk: func(a, b string, pg *query.PageRequest) gogoproto.Message {
			var id uint64
			fmt.Sscan(a, &id)
			return &data.QueryResolverRequest{Id: id}
		},
		Resp: func() gogoproto.Message { return &data.QueryResolverResponse{} },
		Out: func(r gogoproto.Message) (out []string, p *query.PageResponse) {
			if x := r.(*data.QueryResolverResponse).Resolver; x != nil {
				out = append(out, j(x.Id, x.Url, x.Manager))
			}
			return
		},
		Want: func(s *Snapshot, a, b string) ([]string, bool) {
			var id uint64
			fmt.Sscan(a, &id)
			for _, r := range s.Resolvers {
				if r.Id == id {
					return []string{j(r.Id, r.Url, AddrStr(r.Manager))}, true
				}
			}
			return nil, false
		},
		Args: func(g *Gen, s *Snapshot) (string, string) { return fmt.Sprint(g.R.Range(0, len(s.Resolvers)+2)), "" }})
	regQ(&qspec{Name: "ResolversByIRI", Path: db + "ResolversByIRI", Paged: true,
		Mk: func(a, b string, pg *query.PageRequest) gogoproto.Message {
			return &data.QueryResolversByIRIRequest{Iri: a, Pagination: pg}
		},
		Resp: func() gogoproto.Message { return &data.QueryResolversByIRIResponse{} },
		Out: func(r gogoproto.Message) ([]string, *query.PageResponse) {
			x := r.(*data.QueryResolversByIRIResponse)
			return resOut(x.Resolvers), x.Pagination
		},
		Want: func(s *Snapshot, a, b string) ([]string, bool) { return wantResolversOf(s, a) },
		Args: func(g *Gen, s *Snapshot) (string, string) { return g.argFrom(iris(s), "regen:nope.rdf"), "" }})
	regQ(&qspec{Name: "ResolversByHash", Path: db + "ResolversByHash", Paged: true,
		Mk: func(a, b string, pg *query.PageRequest) gogoproto.Message {
			return &data.QueryResolversByHashRequest{ContentHash: decHash(a), Pagination: pg}
		},
		Resp: func() gogoproto.Message { return &data.QueryResolversByHashResponse{} },
		Out: func(r gogoproto.Message) ([]string, *query.PageResponse) {
			x := r.(*data.QueryResolversByHashResponse)
			return resOut(x.Resolvers), x.Pagination
		},
		Want: func(s *Snapshot, a, b string) ([]string, bool) {
			iri, ok := iriOfHashArg(a)
			if !ok {
				return nil, false
			}
			return wantResolversOf(s, iri)
		},
		Args: func(g *Gen, s *Snapshot) (string, string) { return hashArg(g, s), "" }})
	regQ(&qspec{Name: "ResolversByURL", Path: db + "ResolversByURL", Paged: true,
		Mk: func(a, b string, pg *query.PageRequest) gogoproto.Message {
			return &data.QueryResolversByURLRequest{Url: a, Pagination: pg}
		},
		Resp: func() gogoproto.Message { return &data.QueryResolversByURLResponse{} },
		Out: func(r gogoproto.Message) ([]string, *query.PageResponse) {
			x := r.(*data.QueryResolversByURLResponse)
			return resOut(x.Resolvers), x.Pagination
		},
		Want: func(s *Snapshot, a, b string) (out []string, ex bool) {
			for _, r := range s.Resolvers {
				if r.Url == a {
					out = append(out, j(r.Id, r.Url, AddrStr(r.Manager)))
				}
			}
			return out, a != ""
		},
		Args: func(g *Gen, s *Snapshot) (string, string) {
			var urls []string
			for _, r := range s.Resolvers {
				urls = append(urls, r.Url)
			}
			return g.argFrom(urls, "https://foo.bar", "https://foo.bar/", "https://nope"), ""
		}})
}

// ---------------------------------------------------------------- execution

const maxPagesWalk = 400

func (w *World) execQuery(st *Step) {
	qs := st.Query
	if qs == nil {
		return
	}
	spec := qspecIdx[qs.Name]
	if spec == nil {
		w.HarnessFail("unknown query %q", qs.Name)
		return
	}
	last := w.Chain.Height()
	h := last - int64(qs.Back)
	if last < 1 || h < 1 {
		return
	}
	snap := w.Committed[h]
	if snap == nil {
		return
	}
	ctx, err := w.Chain.App.CreateQueryContext(h, false)
	if err != nil {
		w.HarnessFail("CreateQueryContext(%d): %v", h, err)
		return
	}
	q := &QueryCtx{Step: qs, Spec: spec, Height: h, MidBlock: w.inBlock, Snap: snap}
	q.Want, q.Exists = spec.Want(snap, qs.Arg, qs.Arg2)
	w.QueryLog++
	w.Probe("queries_executed")
	if w.inBlock {
		w.Probe("query_mid_block_against_committed_height")
	}
	if qs.Back > 0 {
		w.Probe("query_at_older_height")
	}
	if !spec.Paged {
		resp := spec.Resp()
		if err := w.Chain.QueryAt(ctx, spec.Path, spec.Mk(qs.Arg, qs.Arg2, nil), resp); err != nil {
			q.Err = err.Error()
		} else {
			items, _ := spec.Out(resp)
			q.Pages = [][]string{items}
		}
	} else {
		pg := &query.PageRequest{Limit: qs.Limit, CountTotal: qs.CountTotal, Reverse: qs.Reverse}
		var offset uint64
		if qs.ByOffset && qs.StartOffset > 0 {
			offset = qs.StartOffset
			pg.Offset = offset
		}
		for n := 0; ; n++ {
			if n >= maxPagesWalk {
				q.WalkErr = "page walk did not terminate"
				break
			}
			resp := spec.Resp()
			if err := w.Chain.QueryAt(ctx, spec.Path, spec.Mk(qs.Arg, qs.Arg2, pg), resp); err != nil {
				if n == 0 {
					q.Err = err.Error()
				} else {
					q.WalkErr = fmt.Sprintf("page %d failed: %v", n, err)
				}
				break
			}
			items, pr := spec.Out(resp)
			q.Pages = append(q.Pages, items)
			if n == 0 && qs.CountTotal && pr != nil {
				q.Total, q.HasTotal = pr.Total, true
			}
			if qs.Limit == 0 {
				break // default page size: one page is judged as a prefix only
			}
			if qs.ByOffset {
				offset += qs.Limit
				if uint64(len(items)) < qs.Limit {
					break
				}
				pg = &query.PageRequest{Offset: offset, Limit: qs.Limit, Reverse: qs.Reverse}
			} else {
				if pr == nil || len(pr.NextKey) == 0 {
					break
				}
				pg = &query.PageRequest{Key: pr.NextKey, Limit: qs.Limit, Reverse: qs.Reverse}
			}
		}
	}
	w.digest("query", []byte(qs.Name), []byte(q.Err), []byte(fmt.Sprint(q.Pages)))
	if w.Checker != nil {
		w.Checker.AfterQuery(w, q)
	}
}

// genQueries emits a few query steps.
func (g *Gen) genQueries(midBlock bool) bool {
	if len(g.W.Committed) == 0 {
		return true
	}
	n := g.R.Range(1, 5)
	for i := 0; i < n; i++ {
		spec := qspecs[g.R.Intn(len(qspecs))]
		qs := &QueryStep{Name: spec.Name}
		if g.R.Chance(0.15) {
			qs.Back = g.R.Range(1, 4)
		}
		h := g.W.Chain.Height() - int64(qs.Back)
		s := g.W.Committed[h]
		if s == nil {
			continue
		}
		qs.Arg, qs.Arg2 = spec.Args(g, s)
		if spec.Paged {
			want, _ := spec.Want(s, qs.Arg, qs.Arg2)
			nw := uint64(len(want))
			lims := []uint64{1, 2, 3, 0}
			if nw > 1 {
				lims = append(lims, nw-1, nw, nw+1)
			}
			if g.R.Chance(0.1) {
				// "no limit" as clients say it, and page sizes around 2^63
				lims = []uint64{1<<64 - 1, 1 << 63, 1<<63 - 1, 1<<64 - 2}
			}
			qs.Limit = Pick(g.R, lims)
			qs.CountTotal = g.R.Chance(0.5)
			qs.Reverse = g.R.Chance(0.3)
			qs.ByOffset = g.R.Chance(0.4)
			if qs.ByOffset && qs.Limit > 0 && g.R.Chance(0.3) {
				qs.StartOffset = Pick(g.R, []uint64{1, nw / 2, nw, nw + 1, nw + 7, 1000})
			}
		}
		if !g.emit(&Step{Kind: KQuery, Query: qs}) {
			return false
		}
	}
	return true
}
