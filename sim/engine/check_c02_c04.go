package engine

import (
	"fmt"
	"math/big"

	sdk "github.com/cosmos/cosmos-sdk/types"

	basetypes "github.com/regen-network/regen-ledger/x/ecocredit/v3/base/types/v1"
)

// supplySum returns tradable+retired+cancelled of a supply row (exact).
func supplySum(sp interface {
	GetTradableAmount() string
	GetRetiredAmount() string
	GetCancelledAmount() string
}) (*big.Rat, bool) {
	t, ok1 := DecOrZero(sp.GetTradableAmount())
	r, ok2 := DecOrZero(sp.GetRetiredAmount())
	c, ok3 := DecOrZero(sp.GetCancelledAmount())
	if !ok1 || !ok2 || !ok3 {
		return nil, false
	}
	return RatAdd(RatAdd(t, r), c), true
}

func issuanceSum(is []*basetypes.BatchIssuance) (*big.Rat, bool) {
	sum := new(big.Rat)
	for _, i := range is {
		t, ok1 := DecOrZero(i.TradableAmount)
		r, ok2 := DecOrZero(i.RetiredAmount)
		if !ok1 || !ok2 {
			return nil, false
		}
		sum.Add(sum, t)
		sum.Add(sum, r)
	}
	return sum, true
}

// C02 — issuance accounting.
type C02 struct {
	BaseChecker
	issued     map[uint64]*big.Rat
	issuingCnt map[uint64]int
	reduced    bool
}

func init() {
	RegisterChecker("C02", func() Checker { return &C02{issued: map[uint64]*big.Rat{}, issuingCnt: map[uint64]int{}} })
}

func (c *C02) ID() string { return "C02" }

func (c *C02) Init(w *World) {
	// the ghost ledger starts from whatever the genesis holds
	for _, sp := range w.Cur.Supplies {
		if s, ok := supplySum(sp); ok {
			c.issued[sp.BatchKey] = s
		}
	}
}

func (c *C02) add(k uint64, x *big.Rat) {
	if c.issued[k] == nil {
		c.issued[k] = new(big.Rat)
	}
	c.issued[k].Add(c.issued[k], x)
	c.issuingCnt[k]++
}

// compare checks every batch's stored sum against the ghost ledger and the
// previous snapshot. issuedNow = batches that received an accepted issuing
// message in this step.
func (c *C02) compare(w *World, pre, post *Snapshot, issuedNow map[uint64]bool, what string) {
	for _, sp := range post.Supplies {
		sum, ok := supplySum(sp)
		if !ok {
			continue // unparsable amounts are C01.R3's business
		}
		want := c.issued[sp.BatchKey]
		if want == nil {
			want = new(big.Rat)
		}
		var before *big.Rat
		if pre != nil {
			if psp := pre.SupplyRow(sp.BatchKey); psp != nil {
				before, _ = supplySum(psp)
			}
		}
		changed := before != nil && before.Cmp(sum) != 0
		if changed && pre != nil {
			// R3: once sealed the total never changes again, whatever message does it (issuing ones included)
			if b := pre.BatchByKey(sp.BatchKey); b != nil && !b.Open {
				w.Violate("R3", "sealed-total-changed", "%s: batch %s is sealed but tradable+retired+cancelled changed from %s to %s", what, b.Denom, RatStr(before), RatStr(sum))
				return
			}
		}
		if changed && !issuedNow[sp.BatchKey] {
			if b := pre.BatchByKey(sp.BatchKey); b != nil && !b.Open {
				w.Violate("R3", "sealed-total-changed", "%s: batch %s is sealed but tradable+retired+cancelled changed from %s to %s", what, b.Denom, RatStr(before), RatStr(sum))
				return
			}
			w.Violate("R2", "total-changed-by-non-issuing-step", "%s: batch %d total changed from %s to %s although the step issues nothing into it", what, sp.BatchKey, RatStr(before), RatStr(sum))
			return
		}
		if sum.Cmp(want) != 0 {
			if b := post.BatchByKey(sp.BatchKey); b != nil && pre != nil {
				if pb := pre.BatchByKey(sp.BatchKey); pb != nil && !pb.Open && changed {
					w.Violate("R3", "sealed-total-changed", "%s: batch %s is sealed but its total changed from %s to %s", what, b.Denom, RatStr(before), RatStr(sum))
					return
				}
			}
			w.Violate("R1", "total-differs-from-issued", "%s: batch %d tradable+retired+cancelled = %s but successfully issued amounts total %s", what, sp.BatchKey, RatStr(sum), RatStr(want))
			return
		}
	}
	// a batch whose supply row vanished
	if pre != nil {
		for _, psp := range pre.Supplies {
			if post.SupplyRow(psp.BatchKey) == nil {
				if want := c.issued[psp.BatchKey]; want != nil && want.Sign() != 0 {
					w.Violate("R1", "supply-row-vanished", "%s: supply row of batch %d disappeared (issued %s)", what, psp.BatchKey, RatStr(want))
					return
				}
			}
		}
	}
}

func (c *C02) AfterBegin(w *World, b *BeginCtx) {
	c.compare(w, b.Pre, b.Post, nil, "BeginBlock")
}

func (c *C02) AfterRestart(w *World, r *RestartCtx) {
	c.compare(w, r.Pre, r.Post, nil, "restart("+r.Kind+")")
}

func (c *C02) AfterTx(w *World, t *TxCtx) {
	issuedNow := map[uint64]bool{}
	if t.Res.OK {
		for i, m := range t.Msgs {
			switch msg := m.(type) {
			case *basetypes.MsgCreateBatch:
				resp, _ := respAt(t, i).(*basetypes.MsgCreateBatchResponse)
				if resp == nil {
					continue
				}
				b := t.Post.BatchByDenom(resp.BatchDenom)
				sum, ok := issuanceSum(msg.Issuance)
				if b == nil || !ok {
					w.Violate("R1", "created-batch-not-found", "accepted CreateBatch answered %q but no such batch exists afterwards", resp.BatchDenom)
					return
				}
				c.add(b.Key, sum)
				issuedNow[b.Key] = true
			case *basetypes.MsgMintBatchCredits:
				b := t.Post.BatchByDenom(msg.BatchDenom)
				sum, ok := issuanceSum(msg.Issuance)
				if b == nil || !ok {
					continue
				}
				c.add(b.Key, sum)
				issuedNow[b.Key] = true
			case *basetypes.MsgBridgeReceive:
				resp, _ := respAt(t, i).(*basetypes.MsgBridgeReceiveResponse)
				if resp == nil {
					continue
				}
				b := t.Post.BatchByDenom(resp.BatchDenom)
				amt, ok := ParseDec(msg.Batch.Amount)
				if b == nil || !ok {
					w.Violate("R1", "bridged-batch-not-found", "accepted BridgeReceive answered %q but no such batch exists afterwards", resp.BatchDenom)
					return
				}
				c.add(b.Key, amt)
				issuedNow[b.Key] = true
			case *basetypes.MsgRetire, *basetypes.MsgCancel:
				c.reduced = true
			default:
				switch msgTypeName(m) {
				case "basket.MsgTake", "marketplace.MsgBuyDirect":
					c.reduced = true
				}
			}
		}
	}
	c.compare(w, t.Pre, t.Post, issuedNow, "tx["+t.Step.Note+"]")
}

func (c *C02) NonTrivial(w *World) bool {
	if !c.reduced {
		return false
	}
	for _, n := range c.issuingCnt {
		if n >= 2 {
			return true
		}
	}
	return false
}

func respAt(t *TxCtx, i int) interface{} {
	if i < len(t.Res.Responses) {
		return t.Res.Responses[i]
	}
	return nil
}

var _ = sdk.Msg(nil)

// C04 — permanence of retirement and cancellation.
type C04 struct {
	BaseChecker
	writers map[string]map[string]bool // "addr|batch" with retired>0 -> set of msg types that wrote the row afterwards
}

func init() {
	RegisterChecker("C04", func() Checker { return &C04{writers: map[string]map[string]bool{}} })
}

func (c *C04) ID() string { return "C04" }

func (c *C04) mono(w *World, pre, post *Snapshot, what string) {
	for _, pb := range pre.Balances {
		r0, ok := DecOrZero(pb.RetiredAmount)
		if !ok || r0.Sign() <= 0 {
			continue
		}
		addr := AddrStr(pb.Address)
		nb := post.Balance(addr, pb.BatchKey)
		r1 := new(big.Rat)
		if nb != nil {
			var ok bool
			r1, ok = DecOrZero(nb.RetiredAmount)
			if !ok {
				continue
			}
		}
		if r1.Cmp(r0) < 0 {
			w.Violate("R1", "retired-balance-decreased", "%s: retired balance of %s in batch %d decreased from %s to %s", what, addr, pb.BatchKey, RatStr(r0), RatStr(r1))
			return
		}
	}
	for _, ps := range pre.Supplies {
		ns := post.SupplyRow(ps.BatchKey)
		r0, ok0 := DecOrZero(ps.RetiredAmount)
		c0, ok1 := DecOrZero(ps.CancelledAmount)
		if !ok0 || !ok1 {
			continue
		}
		r1, c1 := new(big.Rat), new(big.Rat)
		if ns != nil {
			var oka, okb bool
			r1, oka = DecOrZero(ns.RetiredAmount)
			c1, okb = DecOrZero(ns.CancelledAmount)
			if !oka || !okb {
				continue
			}
		}
		if r1.Cmp(r0) < 0 {
			w.Violate("R2", "retired-supply-decreased", "%s: retired supply of batch %d decreased from %s to %s", what, ps.BatchKey, RatStr(r0), RatStr(r1))
			return
		}
		if c1.Cmp(c0) < 0 {
			w.Violate("R3", "cancelled-supply-decreased", "%s: cancelled supply of batch %d decreased from %s to %s", what, ps.BatchKey, RatStr(c0), RatStr(c1))
			return
		}
	}
}

// pools returns, per batch key, the credits that can still be spent (tradable and escrowed
// balances, basket holdings) and the credits that are dead (retired balances, cancelled supply).
func pools(s *Snapshot) (live, dead map[uint64]*big.Rat, ok bool) {
	live, dead = map[uint64]*big.Rat{}, map[uint64]*big.Rat{}
	add := func(m map[uint64]*big.Rat, k uint64, v string) bool {
		x, good := DecOrZero(v)
		if !good {
			return false
		}
		if m[k] == nil {
			m[k] = new(big.Rat)
		}
		m[k].Add(m[k], x)
		return true
	}
	for _, b := range s.Balances {
		if !add(live, b.BatchKey, b.TradableAmount) || !add(live, b.BatchKey, b.EscrowedAmount) || !add(dead, b.BatchKey, b.RetiredAmount) {
			return nil, nil, false
		}
	}
	for _, sp := range s.Supplies {
		if !add(dead, sp.BatchKey, sp.CancelledAmount) {
			return nil, nil, false
		}
	}
	for _, bb := range s.BasketBals {
		b := s.BatchByDenom(bb.BatchDenom)
		if b == nil || !add(live, b.Key, bb.Balance) {
			return nil, nil, false
		}
	}
	return live, dead, true
}

// second: the corollary. Outside issuance, every credit that becomes retired or cancelled leaves
// the pool of spendable credits one for one - otherwise it could be sent, sold, put, bridged or
// retired a second time.
func (c *C04) second(w *World, pre, post *Snapshot, what string) {
	l0, d0, ok0 := pools(pre)
	l1, d1, ok1 := pools(post)
	if !ok0 || !ok1 {
		return
	}
	z := new(big.Rat)
	get := func(m map[uint64]*big.Rat, k uint64) *big.Rat {
		if m[k] == nil {
			return z
		}
		return m[k]
	}
	for _, b := range pre.Batches {
		died := RatSub(get(d1, b.Key), get(d0, b.Key))
		left := RatSub(get(l0, b.Key), get(l1, b.Key))
		if died.Cmp(left) != 0 {
			w.Violate("R4", "retired-or-cancelled-credits-still-spendable", "%s: in batch %s retired balances + cancelled supply grew by %s while tradable + escrowed + basket holdings shrank by %s: the difference stays spendable (or vanished) although it was retired or cancelled", what, b.Denom, RatStr(died), RatStr(left))
			return
		}
	}
}

func issues(msgs []sdk.Msg) bool {
	for _, m := range msgs {
		switch msgTypeName(m) {
		case "v1.MsgCreateBatch", "v1.MsgMintBatchCredits", "v1.MsgBridgeReceive", "ecocredit.MsgCreateBatch", "ecocredit.MsgMintBatchCredits", "ecocredit.MsgBridgeReceive":
			return true
		}
	}
	return false
}

func (c *C04) AfterBegin(w *World, b *BeginCtx) {
	c.mono(w, b.Pre, b.Post, "BeginBlock")
	if w.Viol == nil {
		c.second(w, b.Pre, b.Post, "BeginBlock")
	}
}
func (c *C04) AfterRestart(w *World, r *RestartCtx) { c.mono(w, r.Pre, r.Post, "restart("+r.Kind+")") }
func (c *C04) AfterTx(w *World, t *TxCtx) {
	c.mono(w, t.Pre, t.Post, fmt.Sprintf("tx[%s ok=%v]", t.Step.Note, t.Res.OK))
	if w.Viol == nil && !issues(t.Msgs) {
		c.second(w, t.Pre, t.Post, fmt.Sprintf("tx[%s ok=%v]", t.Step.Note, t.Res.OK))
	}
	if !t.Res.OK || w.Viol != nil {
		return
	}
	// non-triviality bookkeeping: rows with retired > 0 that get rewritten by different message types
	for _, d := range DiffRows(t.Pre, t.Post) {
		if d.Table != "regen.ecocredit.v1.BatchBalance" || d.Before == nil {
			continue
		}
		pb := d.Before.(interface{ GetRetiredAmount() string })
		if r, ok := DecOrZero(pb.GetRetiredAmount()); ok && r.Sign() > 0 {
			if c.writers[d.Key] == nil {
				c.writers[d.Key] = map[string]bool{}
			}
			for _, m := range t.Msgs {
				c.writers[d.Key][msgTypeName(m)] = true
			}
		}
	}
}

func (c *C04) NonTrivial(w *World) bool {
	for _, s := range c.writers {
		if len(s) >= 3 {
			return true
		}
	}
	return false
}
