//go:build verif

package engine

import (
	"github.com/cosmos/cosmos-sdk/types/module"

	"github.com/regen-network/regen-ledger/x/data/v3/server/hasher"
)

const HooksEnabled = true

func registerDataServices(c *Chain, cfgr module.Configurator) {
	h := c.Opts.Hasher
	if h == nil || h.Kind == "" || h.Kind == "prod" {
		c.Dat.RegisterServices(cfgr)
		return
	}
	hs, err := hasher.NewHasherWithOptions(hasher.HashOptions{NewHash: h.NewHash(), MinLength: h.MinLength})
	if err != nil {
		panic(err)
	}
	c.Dat.RegisterServicesWithHasher(cfgr, hs)
}
