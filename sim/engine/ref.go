package engine

import (
	"fmt"
	"math/big"
	"strings"
)

// Exact decimal handling for the oracles. Deliberately independent of
// regen-ledger's types/math: own parser, math/big only.

// ParseDec parses a decimal string (optional sign, digits, optional fraction,
// optional exponent) into an exact rational. ok=false if it is not a finite
// decimal number.
func ParseDec(s string) (*big.Rat, bool) {
	if s == "" {
		return nil, false
	}
	str := s
	neg := false
	if str[0] == '+' || str[0] == '-' {
		neg = str[0] == '-'
		str = str[1:]
	}
	exp := 0
	if i := strings.IndexAny(str, "eE"); i >= 0 {
		es := str[i+1:]
		str = str[:i]
		if es == "" {
			return nil, false
		}
		sign := 1
		if es[0] == '+' || es[0] == '-' {
			if es[0] == '-' {
				sign = -1
			}
			es = es[1:]
		}
		if es == "" || len(es) > 6 {
			return nil, false
		}
		for _, c := range es {
			if c < '0' || c > '9' {
				return nil, false
			}
			exp = exp*10 + int(c-'0')
		}
		if exp > 100000 {
			return nil, false // beyond what a decimal string may say (the decimal library's own bound)
		}
		exp *= sign
	}
	intPart, frac := str, ""
	if i := strings.IndexByte(str, '.'); i >= 0 {
		intPart, frac = str[:i], str[i+1:]
	}
	if intPart == "" && frac == "" {
		return nil, false
	}
	for _, c := range intPart + frac {
		if c < '0' || c > '9' {
			return nil, false
		}
	}
	coef, ok := new(big.Int).SetString(intPart+frac+"", 10)
	if !ok {
		if intPart+frac == "" {
			return nil, false
		}
		return nil, false
	}
	e := exp - len(frac)
	r := new(big.Rat).SetInt(coef)
	if e > 0 {
		r.Mul(r, new(big.Rat).SetInt(pow10(e)))
	} else if e < 0 {
		r.Quo(r, new(big.Rat).SetInt(pow10(-e)))
	}
	if neg {
		r.Neg(r)
	}
	return r, true
}

func pow10(n int) *big.Int { return new(big.Int).Exp(big.NewInt(10), big.NewInt(int64(n)), nil) }

// DecOrZero parses s; empty string counts as zero (the chain stores "" for zero in places).
func DecOrZero(s string) (*big.Rat, bool) {
	if s == "" {
		return new(big.Rat), true
	}
	return ParseDec(s)
}

// WithinPrecision: v * 10^p is an integer.
func WithinPrecision(v *big.Rat, p int) bool {
	x := new(big.Rat).Mul(v, new(big.Rat).SetInt(pow10(p)))
	return x.IsInt()
}

func RatStr(r *big.Rat) string {
	if r == nil {
		return "<nil>"
	}
	if r.IsInt() {
		return r.Num().String()
	}
	// try finite decimal
	for p := 1; p <= 60; p++ {
		x := new(big.Rat).Mul(r, new(big.Rat).SetInt(pow10(p)))
		if x.IsInt() {
			s := x.Num().String()
			neg := strings.HasPrefix(s, "-")
			s = strings.TrimPrefix(s, "-")
			for len(s) <= p {
				s = "0" + s
			}
			out := s[:len(s)-p] + "." + s[len(s)-p:]
			if neg {
				out = "-" + out
			}
			return out
		}
	}
	return r.String()
}

func RatAdd(a, b *big.Rat) *big.Rat { return new(big.Rat).Add(a, b) }
func RatSub(a, b *big.Rat) *big.Rat { return new(big.Rat).Sub(a, b) }
func RatMul(a, b *big.Rat) *big.Rat { return new(big.Rat).Mul(a, b) }
func RatInt(i *big.Int) *big.Rat    { return new(big.Rat).SetInt(i) }
func RatI64(i int64) *big.Rat       { return new(big.Rat).SetInt64(i) }

// Floor of a rational (toward negative infinity).
func RatFloor(r *big.Rat) *big.Int {
	q := new(big.Int)
	m := new(big.Int)
	q.DivMod(r.Num(), r.Denom(), m)
	return q
}

func mustDec(s string) *big.Rat {
	r, ok := DecOrZero(s)
	if !ok {
		panic(fmt.Sprintf("not a decimal: %q", s))
	}
	return r
}
