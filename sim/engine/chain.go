package engine

import (
	"encoding/json"
	"fmt"
	"sort"
	"time"

	abci "github.com/cometbft/cometbft/abci/types"
	"github.com/cometbft/cometbft/libs/log"
	tmproto "github.com/cometbft/cometbft/proto/tendermint/types"

	"github.com/cosmos/cosmos-sdk/baseapp"
	"github.com/cosmos/cosmos-sdk/client"
	"github.com/cosmos/cosmos-sdk/codec"
	codectypes "github.com/cosmos/cosmos-sdk/codec/types"
	"github.com/cosmos/cosmos-sdk/std"
	storetypes "github.com/cosmos/cosmos-sdk/store/types"
	sdk "github.com/cosmos/cosmos-sdk/types"
	"github.com/cosmos/cosmos-sdk/types/module"
	"github.com/cosmos/cosmos-sdk/x/auth/ante"
	authkeeper "github.com/cosmos/cosmos-sdk/x/auth/keeper"
	authtx "github.com/cosmos/cosmos-sdk/x/auth/tx"
	authtypes "github.com/cosmos/cosmos-sdk/x/auth/types"
	bankkeeper "github.com/cosmos/cosmos-sdk/x/bank/keeper"
	banktypes "github.com/cosmos/cosmos-sdk/x/bank/types"
	govtypes "github.com/cosmos/cosmos-sdk/x/gov/types"
	paramskeeper "github.com/cosmos/cosmos-sdk/x/params/keeper"
	paramstypes "github.com/cosmos/cosmos-sdk/x/params/types"

	"github.com/regen-network/regen-ledger/x/data/v3"
	datamodule "github.com/regen-network/regen-ledger/x/data/v3/module"
	"github.com/regen-network/regen-ledger/x/ecocredit/v3"
	"github.com/regen-network/regen-ledger/x/ecocredit/v3/basket"
	"github.com/regen-network/regen-ledger/x/ecocredit/v3/marketplace"
	ecomodule "github.com/regen-network/regen-ledger/x/ecocredit/v3/module"
)

const (
	ChainID      = "simchain-1"
	Bech32Prefix = "regen"
)

func init() {
	cfg := sdk.GetConfig()
	cfg.SetBech32PrefixForAccount(Bech32Prefix, Bech32Prefix+"pub")
	cfg.SetBech32PrefixForValidator(Bech32Prefix+"valoper", Bech32Prefix+"valoperpub")
	cfg.SetBech32PrefixForConsensusNode(Bech32Prefix+"valcons", Bech32Prefix+"valconspub")
	cfg.Seal()
}

// StoreNames is the fixed, sorted list of mounted IAVL stores.
var StoreNames = []string{authtypes.StoreKey, banktypes.StoreKey, data.ModuleName, ecocredit.ModuleName, paramstypes.StoreKey}

var maccPerms = map[string][]string{
	authtypes.FeeCollectorName: nil,
	govtypes.ModuleName:        {authtypes.Burner},
	ecocredit.ModuleName:       {authtypes.Burner},
	basket.BasketSubModuleName: {authtypes.Burner, authtypes.Minter},
	marketplace.FeePoolName:    {authtypes.Burner},
	FaucetModule:               {authtypes.Minter, authtypes.Burner},
}

// FaucetModule is a harness-only module account used to fund actors at
// genesis and by explicit "fund" steps. It never signs messages.
const FaucetModule = "simfaucet"

// ModuleAccountNames in a fixed order (never range over maccPerms for decisions).
var ModuleAccountNames = []string{
	basket.BasketSubModuleName, ecocredit.ModuleName, authtypes.FeeCollectorName,
	govtypes.ModuleName, marketplace.FeePoolName, FaucetModule,
}

// Encoding is built once per process: the proto registries are process
// global anyway.
type Encoding struct {
	IR    codectypes.InterfaceRegistry
	Cdc   *codec.ProtoCodec
	Amino *codec.LegacyAmino
	TxCfg client.TxConfig
}

var theEncoding *Encoding

func GetEncoding() *Encoding {
	if theEncoding != nil {
		return theEncoding
	}
	ir := codectypes.NewInterfaceRegistry()
	std.RegisterInterfaces(ir)
	authtypes.RegisterInterfaces(ir)
	banktypes.RegisterInterfaces(ir)
	ecomodule.Module{}.RegisterInterfaces(ir)
	datamodule.Module{}.RegisterInterfaces(ir)
	registerExtraInterfaces(ir)
	cdc := codec.NewProtoCodec(ir)
	amino := codec.NewLegacyAmino()
	theEncoding = &Encoding{IR: ir, Cdc: cdc, Amino: amino, TxCfg: authtx.NewTxConfig(cdc, authtx.DefaultSignModes)}
	return theEncoding
}

// ChainOpts are the configuration knobs of one node.
type ChainOpts struct {
	// Hasher configuration for the data module (nil = production hasher).
	Hasher *HasherCfg
	// ICA: the stub IBC world of C20 (nil = intertx not wired)
	ICA *ICAWorld
}

// Chain is one node: the real application object graph over a SimDB.
type Chain struct {
	Enc   *Encoding
	DB    *SimDB
	App   *baseapp.BaseApp
	Keys  map[string]*storetypes.KVStoreKey
	TKeys map[string]*storetypes.TransientStoreKey
	AK    authkeeper.AccountKeeper
	BK    bankkeeper.BaseKeeper
	FB    *FaultBank
	Eco   *ecomodule.Module
	Dat   *datamodule.Module
	Opts  ChainOpts

	Authority sdk.AccAddress

	Invariants []NamedInvariant

	// genesis used by InitChainer
	pendingGenesis *GenesisDoc

	Header tmproto.Header // header of the block in progress / last block
	InBlk  bool
}

type NamedInvariant struct {
	Module, Route string
	Inv           sdk.Invariant
}

type invRegistry struct{ c *Chain }

func (r invRegistry) RegisterRoute(moduleName, route string, inv sdk.Invariant) {
	r.c.Invariants = append(r.c.Invariants, NamedInvariant{moduleName, route, inv})
}

// GenesisDoc is what InitChain consumes.
type GenesisDoc struct {
	Time     time.Time                  `json:"time"`
	Eco      json.RawMessage            `json:"ecocredit"`
	Data     json.RawMessage            `json:"data"`
	Bank     json.RawMessage            `json:"bank,omitempty"` // banktypes.GenesisState (cdc JSON); nil = empty
	Auth     json.RawMessage            `json:"auth,omitempty"`
	Balances []GenesisBalance           `json:"balances,omitempty"` // funded via faucet mint at genesis
	Extra    map[string]json.RawMessage `json:"extra,omitempty"`
	// Unvalidated: hand-written replay files may carry a genesis that is not validated first
	Unvalidated bool `json:"unvalidated,omitempty"`
}

type GenesisBalance struct {
	Addr  string `json:"addr"`
	Coins string `json:"coins"`
}

// NewChain builds the object graph over db and loads the latest version.
func NewChain(db *SimDB, opts ChainOpts) (*Chain, error) {
	enc := GetEncoding()
	c := &Chain{Enc: enc, DB: db, Opts: opts}
	c.Authority = authtypes.NewModuleAddress(govtypes.ModuleName)

	app := baseapp.NewBaseApp("simchain", log.NewNopLogger(), db, enc.TxCfg.TxDecoder(), baseapp.SetChainID(ChainID))
	app.SetInterfaceRegistry(enc.IR)
	c.App = app

	c.Keys = map[string]*storetypes.KVStoreKey{}
	for _, n := range StoreNames {
		c.Keys[n] = storetypes.NewKVStoreKey(n)
	}
	c.TKeys = map[string]*storetypes.TransientStoreKey{paramstypes.TStoreKey: storetypes.NewTransientStoreKey(paramstypes.TStoreKey)}

	pk := paramskeeper.NewKeeper(enc.Cdc, enc.Amino, c.Keys[paramstypes.StoreKey], c.TKeys[paramstypes.TStoreKey])
	ecoSub := pk.Subspace(ecocredit.DefaultParamspace)

	c.AK = authkeeper.NewAccountKeeper(enc.Cdc, c.Keys[authtypes.StoreKey], authtypes.ProtoBaseAccount, maccPerms, Bech32Prefix, c.Authority.String())
	blocked := map[string]bool{}
	for _, n := range ModuleAccountNames {
		if n == govtypes.ModuleName {
			continue
		}
		blocked[authtypes.NewModuleAddress(n).String()] = true
	}
	c.BK = bankkeeper.NewBaseKeeper(enc.Cdc, c.Keys[banktypes.StoreKey], c.AK, blocked, c.Authority.String())
	c.FB = &FaultBank{K: c.BK}

	c.Eco = ecomodule.NewModule(c.Keys[ecocredit.ModuleName], c.Authority, c.AK, c.FB, ecoSub, nil)
	c.Dat = datamodule.NewModule(c.Keys[data.ModuleName], c.AK, c.FB)

	cfgr := module.NewConfigurator(enc.Cdc, app.MsgServiceRouter(), app.GRPCQueryRouter())
	c.Eco.RegisterServices(cfgr)
	registerDataServices(c, cfgr)
	banktypes.RegisterMsgServer(app.MsgServiceRouter(), bankkeeper.NewMsgServerImpl(c.BK))
	banktypes.RegisterQueryServer(app.GRPCQueryRouter(), c.BK)
	registerExtraServices(c)

	c.Eco.RegisterInvariants(invRegistry{c})

	for _, n := range StoreNames {
		app.MountStore(c.Keys[n], storetypes.StoreTypeIAVL)
	}
	app.MountStore(c.TKeys[paramstypes.TStoreKey], storetypes.StoreTypeTransient)

	app.SetInitChainer(c.initChainer)
	app.SetBeginBlocker(c.beginBlocker)
	app.SetEndBlocker(func(ctx sdk.Context, req abci.RequestEndBlock) abci.ResponseEndBlock { return abci.ResponseEndBlock{} })
	app.SetAnteHandler(sdk.ChainAnteDecorators(ante.NewSetUpContextDecorator()))

	if err := app.LoadLatestVersion(); err != nil {
		return nil, err
	}
	return c, nil
}

func (c *Chain) beginBlocker(ctx sdk.Context, req abci.RequestBeginBlock) abci.ResponseBeginBlock {
	// Exactly what the production module manager does for these modules:
	// ecocredit's BeginBlock (x/ecocredit/module/module.go) is the only one.
	c.Eco.BeginBlock(ctx, req)
	return abci.ResponseBeginBlock{Events: ctx.EventManager().ABCIEvents()}
}

func (c *Chain) initChainer(ctx sdk.Context, req abci.RequestInitChain) abci.ResponseInitChain {
	g := c.pendingGenesis
	if g == nil {
		panic("no genesis")
	}
	// auth first (accounts), then bank, then the regen modules.
	if len(g.Auth) > 0 {
		var gs authtypes.GenesisState
		c.Enc.Cdc.MustUnmarshalJSON(g.Auth, &gs)
		c.AK.InitGenesis(ctx, gs)
	} else {
		c.AK.InitGenesis(ctx, *authtypes.DefaultGenesisState())
	}
	if len(g.Bank) > 0 {
		var gs banktypes.GenesisState
		c.Enc.Cdc.MustUnmarshalJSON(g.Bank, &gs)
		c.BK.InitGenesis(ctx, &gs)
	} else {
		c.BK.InitGenesis(ctx, banktypes.DefaultGenesisState())
	}
	// make sure all module accounts exist (what the SDK does lazily)
	for _, n := range ModuleAccountNames {
		c.AK.GetModuleAccount(ctx, n)
	}
	c.Eco.InitGenesis(ctx, c.Enc.Cdc, g.Eco)
	c.Dat.InitGenesis(ctx, c.Enc.Cdc, g.Data)
	for _, b := range g.Balances {
		coins, err := sdk.ParseCoinsNormalized(b.Coins)
		if err != nil {
			panic(err)
		}
		addr := sdk.MustAccAddressFromBech32(b.Addr)
		if err := c.BK.MintCoins(ctx, FaucetModule, coins); err != nil {
			panic(err)
		}
		if err := c.BK.SendCoinsFromModuleToAccount(ctx, FaucetModule, addr, coins); err != nil {
			panic(err)
		}
	}
	return abci.ResponseInitChain{}
}

// InitChain runs ABCI InitChain with the given genesis and commits height 0→1 state lazily
// (the first block commits it, as on a real chain).
func (c *Chain) InitChain(g *GenesisDoc) (err error) {
	defer func() {
		if r := recover(); r != nil {
			if IsCrash(r) {
				panic(r)
			}
			err = fmt.Errorf("InitChain panic: %v", r)
		}
	}()
	c.pendingGenesis = g
	c.App.InitChain(abci.RequestInitChain{ChainId: ChainID, Time: g.Time, InitialHeight: 1})
	c.pendingGenesis = nil
	c.Header = tmproto.Header{ChainID: ChainID, Height: 0, Time: g.Time}
	// InitChain leaves the genesis writes in the deliver state (they are
	// committed with the first block): read through it until then.
	c.InBlk = true
	return nil
}

// Height of the last committed block.
func (c *Chain) Height() int64 { return c.App.LastBlockHeight() }

type BeginResult struct {
	Events []abci.Event
	Panic  string
}

func (c *Chain) BeginBlock(height int64, t time.Time) (res BeginResult) {
	c.Header = tmproto.Header{ChainID: ChainID, Height: height, Time: t}
	defer func() {
		if r := recover(); r != nil {
			if IsCrash(r) {
				panic(r)
			}
			res.Panic = fmt.Sprint(r)
		}
	}()
	r := c.App.BeginBlock(abci.RequestBeginBlock{Header: c.Header})
	c.InBlk = true
	res.Events = r.Events
	return
}

func (c *Chain) DeliverTx(bz []byte) abci.ResponseDeliverTx {
	return c.App.DeliverTx(abci.RequestDeliverTx{Tx: bz})
}

func (c *Chain) EndBlock() abci.ResponseEndBlock {
	return c.App.EndBlock(abci.RequestEndBlock{Height: c.Header.Height})
}

// Commit returns the app hash.
func (c *Chain) Commit() []byte {
	r := c.App.Commit()
	c.InBlk = false
	return r.Data
}

// WorkCtx is a context over the in-block working state (deliver state) when
// a block is in progress, or over the last committed state otherwise. The
// returned context is branched: nothing done through it is ever written back.
func (c *Chain) WorkCtx() sdk.Context {
	var ctx sdk.Context
	if c.InBlk {
		ctx = c.App.NewContext(false, c.Header)
	} else {
		// checkState is reset to the committed state on every Commit / InitChain.
		ctx = c.App.NewContext(true, c.Header)
	}
	ms := ctx.MultiStore().CacheMultiStore()
	return ctx.WithMultiStore(ms).WithGasMeter(sdk.NewInfiniteGasMeter()).WithBlockGasMeter(sdk.NewInfiniteGasMeter()).WithEventManager(sdk.NewEventManager())
}

// BuildTx encodes msgs into real tx bytes (unsigned).
func (c *Chain) BuildTx(msgs []sdk.Msg, gasLimit uint64) ([]byte, error) {
	b := c.Enc.TxCfg.NewTxBuilder()
	if err := b.SetMsgs(msgs...); err != nil {
		return nil, err
	}
	b.SetGasLimit(gasLimit)
	return c.Enc.TxCfg.TxEncoder()(b.GetTx())
}

// DryRunGas runs msgs on a throw-away branch of the working state with an
// infinite meter and returns the gas consumed and whether all succeeded.
func (c *Chain) DryRunGas(msgs []sdk.Msg) (gas uint64, ok bool) {
	gas, ok, _ = c.dryRun(msgs)
	return
}

// DryRunCtx is DryRunGas that also hands out the throw-away branch the messages ran on (only
// meaningful when ok): a client that builds a tx whose later messages use what its earlier ones
// create predicts the state in between exactly like this.
func (c *Chain) DryRunCtx(msgs []sdk.Msg) (ctx sdk.Context, ok bool) {
	_, ok, ctx = c.dryRun(msgs)
	return
}

func (c *Chain) dryRun(msgs []sdk.Msg) (gas uint64, ok bool, ctx sdk.Context) {
	ctx = c.WorkCtx()
	ok = true
	if c.Opts.ICA != nil {
		// the stub IBC world must not keep anything a dry run did
		c.Opts.ICA.BeginTx()
		defer c.Opts.ICA.EndTx(false)
	}
	defer func() {
		if r := recover(); r != nil {
			if IsCrash(r) {
				panic(r)
			}
			ok = false
			gas = ctx.GasMeter().GasConsumed()
		}
	}()
	// the ante handler consumes nothing before the msgs except tx-size gas (not installed)
	for _, m := range msgs {
		h := c.App.MsgServiceRouter().Handler(m)
		if h == nil {
			return ctx.GasMeter().GasConsumed(), false, ctx
		}
		if err := m.ValidateBasic(); err != nil {
			return ctx.GasMeter().GasConsumed(), false, ctx
		}
		if _, err := h(ctx, m); err != nil {
			return ctx.GasMeter().GasConsumed(), false, ctx
		}
	}
	return ctx.GasMeter().GasConsumed(), true, ctx
}

// ExportGenesis exports all module state from ctx.
func (c *Chain) ExportGenesis(ctx sdk.Context) (g *GenesisDoc, err error) {
	defer func() {
		if r := recover(); r != nil {
			if IsCrash(r) {
				panic(r)
			}
			err = fmt.Errorf("ExportGenesis panic: %v", r)
		}
	}()
	g = &GenesisDoc{Time: ctx.BlockTime()}
	g.Eco = c.Eco.ExportGenesis(ctx, c.Enc.Cdc)
	g.Data = c.Dat.ExportGenesis(ctx, c.Enc.Cdc)
	g.Bank = c.Enc.Cdc.MustMarshalJSON(c.BK.ExportGenesis(ctx))
	ag := c.AK.ExportGenesis(ctx)
	g.Auth = c.Enc.Cdc.MustMarshalJSON(ag)
	return g, nil
}

// RawDump returns every key/value of every mounted IAVL store, in store then key order.
type KV struct {
	Store string
	K, V  []byte
}

func (c *Chain) RawDump(ctx sdk.Context) []KV {
	var out []KV
	for _, n := range StoreNames {
		st := ctx.MultiStore().GetKVStore(c.Keys[n])
		it := st.Iterator(nil, nil)
		for ; it.Valid(); it.Next() {
			k := append([]byte(nil), it.Key()...)
			v := append([]byte(nil), it.Value()...)
			out = append(out, KV{n, k, v})
		}
		it.Close()
	}
	return out
}

func sortedKeys[V any](m map[string]V) []string {
	ks := make([]string, 0, len(m))
	for k := range m {
		ks = append(ks, k)
	}
	sort.Strings(ks)
	return ks
}
