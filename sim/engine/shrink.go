package engine

import (
	"time"
)

// Shrinker minimises a failing trace by re-execution (no PRNG involved).
type Shrinker struct {
	Base     *Trace
	Want     *Violation
	Deadline time.Time
	MaxExec  int
	Execs    int
	MkCheck  func() Checker
	// Repeats > 1: the violation may depend on Go map iteration order (C10), which no
	// seed controls; a candidate counts as failing if any of Repeats executions fails.
	Repeats int
	// AnyRule: accept any rule of the same property (C10: the same map-order defect
	// shows as R1, R2 or R4 depending on where the orders happen to differ).
	AnyRule bool
}

func (s *Shrinker) fails(steps []*Step) bool {
	n := s.Repeats
	if n < 1 {
		n = 1
	}
	for i := 0; i < n; i++ {
		if s.Execs >= s.MaxExec || time.Now().After(s.Deadline) {
			return false
		}
		s.Execs++
		tr := s.Base.CloneWithSteps(steps)
		w, err := ReplayTrace(tr, s.MkCheck())
		if err != nil || w == nil || len(w.Harness) > 0 || w.Viol == nil {
			continue
		}
		if w.Viol.Property != s.Want.Property {
			continue
		}
		if s.AnyRule || (w.Viol.Rule == s.Want.Rule && w.Viol.Signature == s.Want.Signature) {
			return true
		}
	}
	return false
}

type blockSpan struct{ from, to int } // [from,to)

func blocksOf(steps []*Step) []blockSpan {
	var out []blockSpan
	start := 0
	for i, st := range steps {
		if st.Kind == KBegin && i > start {
			out = append(out, blockSpan{start, i})
			start = i
		}
	}
	if start < len(steps) {
		out = append(out, blockSpan{start, len(steps)})
	}
	return out
}

func without(steps []*Step, from, to int) []*Step {
	out := make([]*Step, 0, len(steps)-(to-from))
	out = append(out, steps[:from]...)
	out = append(out, steps[to:]...)
	return out
}

// Shrink returns a (locally) minimal failing step list. The input must fail.
func (s *Shrinker) Shrink(steps []*Step) []*Step {
	cur := steps
	// 1. drop whole blocks, ddmin style
	for n := 2; ; {
		bl := blocksOf(cur)
		if len(bl) < 2 {
			break
		}
		if n > len(bl) {
			n = len(bl)
		}
		chunk := (len(bl) + n - 1) / n
		reduced := false
		for i := 0; i < len(bl); i += chunk {
			j := i + chunk
			if j > len(bl) {
				j = len(bl)
			}
			cand := without(cur, bl[i].from, bl[j-1].to)
			if len(cand) > 0 && s.fails(cand) {
				cur = cand
				reduced = true
				break
			}
		}
		if reduced {
			if n > 2 {
				n--
			}
			continue
		}
		if chunk == 1 {
			break
		}
		n *= 2
		if s.Execs >= s.MaxExec || time.Now().After(s.Deadline) {
			break
		}
	}
	// 2. drop single non-structural steps (tx, crash, restart, genesis, query), last first
	for pass := 0; pass < 3; pass++ {
		changed := false
		for i := len(cur) - 1; i >= 0; i-- {
			if i >= len(cur) {
				continue
			}
			k := cur[i].Kind
			if k == KBegin || k == KCommit {
				continue
			}
			cand := without(cur, i, i+1)
			if s.fails(cand) {
				cur = cand
				changed = true
			}
		}
		// merge adjacent blocks: drop a commit together with the following begin
		for i := len(cur) - 2; i >= 0; i-- {
			if i+1 < len(cur) && cur[i].Kind == KCommit && cur[i+1].Kind == KBegin {
				cand := without(cur, i, i+2)
				if s.fails(cand) {
					cur = cand
					changed = true
				}
			}
		}
		if !changed {
			break
		}
	}
	// 3. simplify faults and messages
	for i := range cur {
		st := cur[i]
		try := func(ns *Step) {
			cand := append([]*Step(nil), cur...)
			cand[i] = ns
			if s.fails(cand) {
				cur = cand
				st = ns
			}
		}
		if st.Alt != nil {
			c := *st
			c.Alt = nil
			try(&c)
		}
		switch st.Kind {
		case KCommit:
			if st.Torn != nil {
				try(&Step{Kind: KCommit, Alt: st.Alt})
			}
		case KGenesis:
			if st.Continue {
				try(&Step{Kind: KGenesis})
			}
		case KTx:
			if st.Tx.Gas != 0 {
				c := *st.Tx
				c.Gas = 0
				try(&Step{Kind: KTx, Tx: &c, Alt: st.Alt})
			}
			if st.Tx.BankFault != nil {
				c := *st.Tx
				c.BankFault = nil
				try(&Step{Kind: KTx, Tx: &c, Alt: st.Alt})
			}
			if len(st.Tx.Msgs) > 1 {
				for j := len(st.Tx.Msgs) - 1; j >= 0 && len(st.Tx.Msgs) > 1; j-- {
					c := *st.Tx
					c.Msgs = append(append([]jsonRaw(nil), st.Tx.Msgs[:j]...), st.Tx.Msgs[j+1:]...)
					try(&Step{Kind: KTx, Tx: &c, Alt: st.Alt})
				}
			}
		}
	}
	// 4. normalise block times to 5 s steps where the violation persists
	{
		cand := append([]*Step(nil), cur...)
		var last time.Time
		okAll := true
		for i, st := range cand {
			if st.Kind != KBegin {
				continue
			}
			t, err := ParseTime(st.Time)
			if err != nil {
				okAll = false
				break
			}
			if last.IsZero() {
				last = t
				continue
			}
			nt := last.Add(5 * time.Second)
			cand[i] = &Step{Kind: KBegin, Time: FmtTime(nt)}
			last = nt
		}
		if okAll && s.fails(cand) {
			cur = cand
		}
	}
	return cur
}
