package engine

import (
	"fmt"
	"sort"
	"strings"

	sdk "github.com/cosmos/cosmos-sdk/types"
	"google.golang.org/protobuf/proto"
	"google.golang.org/protobuf/reflect/protoreflect"

	"github.com/regen-network/regen-ledger/x/data/v3"
	basetypes "github.com/regen-network/regen-ledger/x/ecocredit/v3/base/types/v1"
	baskettypes "github.com/regen-network/regen-ledger/x/ecocredit/v3/basket/types/v1"
	markettypes "github.com/regen-network/regen-ledger/x/ecocredit/v3/marketplace/types/v1"
)

// C08 — roles and sealing.
type C08 struct {
	BaseChecker
	former map[string]map[string]bool // entity -> former role holders
	nt     bool
	ghost  *roleGhost
}

func (c *C08) Init(w *World) { c.ghost = newRoleGhost(w.Cur) }

func init() {
	RegisterChecker("C08", func() Checker { return &C08{former: map[string]map[string]bool{}} })
}
func (c *C08) ID() string { return "C08" }

const (
	tClass        = "regen.ecocredit.v1.Class"
	tClassIssuer  = "regen.ecocredit.v1.ClassIssuer"
	tProject      = "regen.ecocredit.v1.Project"
	tBatch        = "regen.ecocredit.v1.Batch"
	tClassSeq     = "regen.ecocredit.v1.ClassSequence"
	tProjectSeq   = "regen.ecocredit.v1.ProjectSequence"
	tBatchSeq     = "regen.ecocredit.v1.BatchSequence"
	tBalance      = "regen.ecocredit.v1.BatchBalance"
	tSupply       = "regen.ecocredit.v1.BatchSupply"
	tOriginTx     = "regen.ecocredit.v1.OriginTxIndex"
	tContract     = "regen.ecocredit.v1.BatchContract"
	tAllowlist    = "regen.ecocredit.v1.ClassCreatorAllowlist"
	tCreator      = "regen.ecocredit.v1.AllowedClassCreator"
	tClassFee     = "regen.ecocredit.v1.ClassFee"
	tBridgeChain  = "regen.ecocredit.v1.AllowedBridgeChain"
	tCreditType   = "regen.ecocredit.v1.CreditType"
	tBasket       = "regen.ecocredit.basket.v1.Basket"
	tBasketClass  = "regen.ecocredit.basket.v1.BasketClass"
	tBasketBal    = "regen.ecocredit.basket.v1.BasketBalance"
	tBasketFee    = "regen.ecocredit.basket.v1.BasketFee"
	tOrder        = "regen.ecocredit.marketplace.v1.SellOrder"
	tAllowedDenom = "regen.ecocredit.marketplace.v1.AllowedDenom"
	tMarket       = "regen.ecocredit.marketplace.v1.Market"
	tFeeParams    = "regen.ecocredit.marketplace.v1.FeeParams"
	tDataID       = "regen.data.v1.DataID"
	tDataAnchor   = "regen.data.v1.DataAnchor"
	tDataAttestor = "regen.data.v1.DataAttestor"
	tResolver     = "regen.data.v1.Resolver"
	tDataResolver = "regen.data.v1.DataResolver"
)

// changedFields lists the names of the fields that differ between two rows.
func changedFields(a, b proto.Message) []string {
	var out []string
	fa := a.ProtoReflect()
	fb := b.ProtoReflect()
	fds := fa.Descriptor().Fields()
	for i := 0; i < fds.Len(); i++ {
		fd := fds.Get(i)
		va, vb := fa.Get(fd), fb.Get(fd)
		eq := false
		switch {
		case fd.Kind() == protoreflect.MessageKind:
			eq = (!fa.Has(fd) && !fb.Has(fd)) || (fa.Has(fd) && fb.Has(fd) && proto.Equal(va.Message().Interface(), vb.Message().Interface()))
		case fd.Kind() == protoreflect.BytesKind:
			eq = string(va.Bytes()) == string(vb.Bytes())
		default:
			eq = va.Interface() == vb.Interface()
		}
		if !eq {
			out = append(out, string(fd.Name()))
		}
	}
	sort.Strings(out)
	return out
}

// frame describes what one accepted message may write.
type frame struct {
	// rows maps table -> predicate over a row diff of that table.
	rows map[string]func(d RowDiff) bool
	// bank: predicate over a bank diff (Addr=="" is a supply change).
	bank func(d BankDiff) bool
}

func only(fields ...string) func([]string) bool {
	return func(ch []string) bool {
		for _, c := range ch {
			ok := false
			for _, f := range fields {
				if c == f {
					ok = true
				}
			}
			if !ok {
				return false
			}
		}
		return true
	}
}

// update: the row with this key may be updated, changing only these fields.
func update(key string, fields ...string) func(RowDiff) bool {
	return func(d RowDiff) bool {
		return d.Key == key && d.Before != nil && d.After != nil && only(fields...)(changedFields(d.Before, d.After))
	}
}
func insertOnly(pred func(proto.Message) bool) func(RowDiff) bool {
	return func(d RowDiff) bool { return d.Before == nil && d.After != nil && pred(d.After) }
}
func anyOf(fs ...func(RowDiff) bool) func(RowDiff) bool {
	return func(d RowDiff) bool {
		for _, f := range fs {
			if f(d) {
				return true
			}
		}
		return false
	}
}
func anyChange(d RowDiff) bool { return true }

func u64Field(m proto.Message, name string) uint64 {
	fd := m.ProtoReflect().Descriptor().Fields().ByName(protoreflect.Name(name))
	if fd == nil {
		return 0
	}
	return m.ProtoReflect().Get(fd).Uint()
}
func bytesField(m proto.Message, name string) []byte {
	fd := m.ProtoReflect().Descriptor().Fields().ByName(protoreflect.Name(name))
	if fd == nil {
		return nil
	}
	return m.ProtoReflect().Get(fd).Bytes()
}

func noBank(d BankDiff) bool { return false }

func isGov(addr string) bool { return addr == AddrStr(govAddr()) }

// roleAndFrame evaluates the role predicate on the pre-state and builds the
// frame of one accepted message. role=="" means the role predicate holds.
// judged=false: the message type is not covered by C08.
func (c *C08) roleAndFrame(t *TxCtx, m sdk.Msg, resp interface{}) (roleErr string, fr *frame, judged bool) {
	pre, post := t.Pre, t.Post
	signer := t.Signer
	fr = &frame{rows: map[string]func(RowDiff) bool{}, bank: noBank}
	authority := func(a string) string {
		if a != AddrStr(govAddr()) || signer != a {
			return fmt.Sprintf("authority message accepted from %s (authority field %s), the governance authority is %s", signer, a, AddrStr(govAddr()))
		}
		return ""
	}
	feeBurn := func(denom string) func(BankDiff) bool {
		// the creator pays and the fee is burned: creator balance and total supply of the fee denom shrink
		return func(d BankDiff) bool {
			return d.Denom == denom && (d.Addr == signer || d.Addr == "") && d.Delta.Sign() < 0
		}
	}
	switch msg := m.(type) {
	case *basetypes.MsgCreateClass:
		if pre.Allowlist != nil && pre.Allowlist.Enabled {
			ok := false
			for _, cr := range pre.Creators {
				if AddrStr(cr.Address) == signer {
					ok = true
				}
			}
			if !ok {
				roleErr = fmt.Sprintf("CreateClass by %s accepted although the class creator allowlist is on and does not contain it", signer)
			}
		}
		r, _ := resp.(*basetypes.MsgCreateClassResponse)
		var key uint64
		if r != nil {
			if cl := post.ClassByID(r.ClassId); cl != nil {
				key = cl.Key
			}
		}
		fr.rows[tClass] = insertOnly(func(p proto.Message) bool { return u64Field(p, "key") == key })
		fr.rows[tClassSeq] = func(d RowDiff) bool { return d.Key == msg.CreditTypeAbbrev }
		fr.rows[tClassIssuer] = insertOnly(func(p proto.Message) bool { return u64Field(p, "class_key") == key })
		if pre.ClassFee != nil && pre.ClassFee.Fee != nil {
			fr.bank = feeBurn(pre.ClassFee.Fee.Denom)
		}
	case *basetypes.MsgCreateProject:
		cl := pre.ClassByID(msg.ClassId)
		if cl == nil {
			return "", nil, false
		}
		if !pre.IsIssuer(cl.Key, signer) {
			roleErr = fmt.Sprintf("CreateProject in class %s by %s accepted although it is not an issuer of the class", cl.Id, signer)
		}
		r, _ := resp.(*basetypes.MsgCreateProjectResponse)
		pid := ""
		if r != nil {
			pid = r.ProjectId
		}
		fr.rows[tProject] = insertOnly(func(p proto.Message) bool { return getStr(p, "id") == pid && u64Field(p, "class_key") == cl.Key })
		fr.rows[tProjectSeq] = func(d RowDiff) bool { return d.Key == fmt.Sprint(cl.Key) }
	case *basetypes.MsgCreateBatch:
		p := pre.ProjectByID(msg.ProjectId)
		if p == nil {
			return "", nil, false
		}
		if !pre.IsIssuer(p.ClassKey, signer) {
			roleErr = fmt.Sprintf("CreateBatch in project %s by %s accepted although it is not an issuer of the project's class", p.Id, signer)
		}
		r, _ := resp.(*basetypes.MsgCreateBatchResponse)
		var bkey uint64
		if r != nil {
			if b := post.BatchByDenom(r.BatchDenom); b != nil {
				bkey = b.Key
			}
		}
		fr.rows[tBatch] = insertOnly(func(x proto.Message) bool { return u64Field(x, "key") == bkey && u64Field(x, "project_key") == p.Key })
		fr.rows[tBatchSeq] = func(d RowDiff) bool { return d.Key == fmt.Sprint(p.Key) }
		fr.rows[tSupply] = insertOnly(func(x proto.Message) bool { return u64Field(x, "batch_key") == bkey })
		fr.rows[tBalance] = insertOnly(func(x proto.Message) bool { return u64Field(x, "batch_key") == bkey })
		fr.rows[tOriginTx] = insertOnly(func(x proto.Message) bool {
			return msg.OriginTx != nil && u64Field(x, "class_key") == p.ClassKey && getStr(x, "id") == msg.OriginTx.Id
		})
		fr.rows[tContract] = insertOnly(func(x proto.Message) bool { return u64Field(x, "batch_key") == bkey })
	case *basetypes.MsgMintBatchCredits:
		b := pre.BatchByDenom(msg.BatchDenom)
		if b == nil {
			return "", nil, false
		}
		if AddrStr(b.Issuer) != signer {
			roleErr = fmt.Sprintf("MintBatchCredits into %s by %s accepted, the batch issuer is %s", b.Denom, signer, AddrStr(b.Issuer))
		} else if !b.Open {
			roleErr = fmt.Sprintf("MintBatchCredits into %s accepted although the batch is sealed", b.Denom)
		}
		recips := map[string]bool{}
		for _, is := range msg.Issuance {
			recips[is.Recipient] = true
		}
		fr.rows[tBalance] = func(d RowDiff) bool {
			return d.After != nil && u64Field(d.After, "batch_key") == b.Key && recips[AddrStr(bytesField(d.After, "address"))] &&
				(d.Before == nil || only("tradable_amount", "retired_amount")(changedFields(d.Before, d.After)))
		}
		fr.rows[tSupply] = update(fmt.Sprint(b.Key), "tradable_amount", "retired_amount")
		fr.rows[tOriginTx] = insertOnly(func(x proto.Message) bool { return msg.OriginTx != nil && getStr(x, "id") == msg.OriginTx.Id })
	case *basetypes.MsgSealBatch:
		b := pre.BatchByDenom(msg.BatchDenom)
		if b == nil {
			return "", nil, false
		}
		if AddrStr(b.Issuer) != signer {
			roleErr = fmt.Sprintf("SealBatch of %s by %s accepted, the batch issuer is %s", b.Denom, signer, AddrStr(b.Issuer))
		}
		fr.rows[tBatch] = update(fmt.Sprint(b.Key), "open")
	case *basetypes.MsgUpdateBatchMetadata:
		b := pre.BatchByDenom(msg.BatchDenom)
		if b == nil {
			return "", nil, false
		}
		if AddrStr(b.Issuer) != signer {
			roleErr = fmt.Sprintf("UpdateBatchMetadata of %s by %s accepted, the batch issuer is %s", b.Denom, signer, AddrStr(b.Issuer))
		} else if !b.Open {
			roleErr = fmt.Sprintf("UpdateBatchMetadata of %s accepted although the batch is sealed", b.Denom)
		}
		fr.rows[tBatch] = update(fmt.Sprint(b.Key), "metadata")
	case *basetypes.MsgBridgeReceive:
		cl := pre.ClassByID(msg.ClassId)
		if cl == nil || msg.OriginTx == nil {
			return "", nil, false
		}
		var bound *uint64
		for _, bc := range pre.Contracts {
			if bc.ClassKey == cl.Key && bc.Contract == msg.OriginTx.Contract {
				k := bc.BatchKey
				bound = &k
			}
		}
		if bound != nil {
			b := pre.BatchByKey(*bound)
			if b != nil {
				if AddrStr(b.Issuer) != signer {
					roleErr = fmt.Sprintf("BridgeReceive minting into %s by %s accepted, the batch issuer is %s", b.Denom, signer, AddrStr(b.Issuer))
				} else if !b.Open {
					roleErr = fmt.Sprintf("BridgeReceive minting into %s accepted although the batch is sealed", b.Denom)
				}
			}
		} else if !pre.IsIssuer(cl.Key, signer) {
			roleErr = fmt.Sprintf("BridgeReceive in class %s by %s accepted although it is not an issuer of the class", cl.Id, signer)
		}
		// frame: issuance-related tables only
		for _, tb := range []string{tProject, tProjectSeq, tBatch, tBatchSeq, tSupply, tBalance, tOriginTx, tContract} {
			fr.rows[tb] = anyChange
		}
	case *basetypes.MsgUpdateClassAdmin:
		cl := pre.ClassByID(msg.ClassId)
		if cl == nil {
			return "", nil, false
		}
		if AddrStr(cl.Admin) != signer {
			roleErr = fmt.Sprintf("UpdateClassAdmin of %s by %s accepted, the class admin is %s", cl.Id, signer, AddrStr(cl.Admin))
		}
		fr.rows[tClass] = update(fmt.Sprint(cl.Key), "admin")
	case *basetypes.MsgUpdateClassMetadata:
		cl := pre.ClassByID(msg.ClassId)
		if cl == nil {
			return "", nil, false
		}
		if AddrStr(cl.Admin) != signer {
			roleErr = fmt.Sprintf("UpdateClassMetadata of %s by %s accepted, the class admin is %s", cl.Id, signer, AddrStr(cl.Admin))
		}
		fr.rows[tClass] = update(fmt.Sprint(cl.Key), "metadata")
	case *basetypes.MsgUpdateClassIssuers:
		cl := pre.ClassByID(msg.ClassId)
		if cl == nil {
			return "", nil, false
		}
		if AddrStr(cl.Admin) != signer {
			roleErr = fmt.Sprintf("UpdateClassIssuers of %s by %s accepted, the class admin is %s", cl.Id, signer, AddrStr(cl.Admin))
		}
		add, rem := map[string]bool{}, map[string]bool{}
		for _, a := range msg.AddIssuers {
			add[a] = true
		}
		for _, a := range msg.RemoveIssuers {
			rem[a] = true
		}
		fr.rows[tClassIssuer] = func(d RowDiff) bool {
			row := d.After
			if row == nil {
				row = d.Before
			}
			if u64Field(row, "class_key") != cl.Key {
				return false
			}
			a := AddrStr(bytesField(row, "issuer"))
			if d.Before == nil {
				return add[a]
			}
			if d.After == nil {
				return rem[a]
			}
			return false
		}
	case *basetypes.MsgUpdateProjectAdmin:
		p := pre.ProjectByID(msg.ProjectId)
		if p == nil {
			return "", nil, false
		}
		if AddrStr(p.Admin) != signer {
			roleErr = fmt.Sprintf("UpdateProjectAdmin of %s by %s accepted, the project admin is %s", p.Id, signer, AddrStr(p.Admin))
		}
		fr.rows[tProject] = update(fmt.Sprint(p.Key), "admin")
	case *basetypes.MsgUpdateProjectMetadata:
		p := pre.ProjectByID(msg.ProjectId)
		if p == nil {
			return "", nil, false
		}
		if AddrStr(p.Admin) != signer {
			roleErr = fmt.Sprintf("UpdateProjectMetadata of %s by %s accepted, the project admin is %s", p.Id, signer, AddrStr(p.Admin))
		}
		fr.rows[tProject] = update(fmt.Sprint(p.Key), "metadata")
	case *basetypes.MsgAddCreditType:
		roleErr = authority(msg.Authority)
		fr.rows[tCreditType] = insertOnly(func(x proto.Message) bool {
			return msg.CreditType != nil && getStr(x, "abbreviation") == msg.CreditType.Abbreviation
		})
	case *basetypes.MsgSetClassCreatorAllowlist:
		roleErr = authority(msg.Authority)
		fr.rows[tAllowlist] = anyChange
	case *basetypes.MsgAddClassCreator:
		roleErr = authority(msg.Authority)
		fr.rows[tCreator] = func(d RowDiff) bool { return d.Before == nil && AddrStr(bytesField(d.After, "address")) == msg.Creator }
	case *basetypes.MsgRemoveClassCreator:
		roleErr = authority(msg.Authority)
		fr.rows[tCreator] = func(d RowDiff) bool { return d.After == nil && AddrStr(bytesField(d.Before, "address")) == msg.Creator }
	case *basetypes.MsgUpdateClassFee:
		roleErr = authority(msg.Authority)
		fr.rows[tClassFee] = anyChange
	case *basetypes.MsgAddAllowedBridgeChain:
		roleErr = authority(msg.Authority)
		fr.rows[tBridgeChain] = func(d RowDiff) bool {
			return d.Before == nil && getStr(d.After, "chain_name") == strings.ToLower(msg.ChainName)
		}
	case *basetypes.MsgRemoveAllowedBridgeChain:
		roleErr = authority(msg.Authority)
		fr.rows[tBridgeChain] = func(d RowDiff) bool {
			return d.After == nil && getStr(d.Before, "chain_name") == strings.ToLower(msg.ChainName)
		}
	case *baskettypes.MsgUpdateCurator:
		bk := pre.BasketByDenom(msg.Denom)
		if bk == nil {
			return "", nil, false
		}
		if AddrStr(bk.Curator) != signer {
			roleErr = fmt.Sprintf("UpdateCurator of %s by %s accepted, the curator is %s", bk.BasketDenom, signer, AddrStr(bk.Curator))
		}
		fr.rows[tBasket] = update(fmt.Sprint(bk.Id), "curator")
	case *baskettypes.MsgUpdateBasketFee:
		roleErr = authority(msg.Authority)
		fr.rows[tBasketFee] = anyChange
	case *baskettypes.MsgUpdateDateCriteria:
		roleErr = authority(msg.Authority)
		bk := pre.BasketByDenom(msg.Denom)
		if bk == nil {
			return roleErr, nil, roleErr != ""
		}
		fr.rows[tBasket] = update(fmt.Sprint(bk.Id), "date_criteria")
	case *markettypes.MsgUpdateSellOrders:
		ids := map[string]bool{}
		batches := map[uint64]bool{}
		for _, u := range msg.Updates {
			o := pre.OrderByID(u.SellOrderId)
			if o == nil {
				return "", nil, false
			}
			if AddrStr(o.Seller) != signer && roleErr == "" {
				roleErr = fmt.Sprintf("UpdateSellOrders of order %d by %s accepted, the seller is %s", o.Id, signer, AddrStr(o.Seller))
			}
			ids[fmt.Sprint(o.Id)] = true
			batches[o.BatchKey] = true
		}
		fr.rows[tOrder] = func(d RowDiff) bool {
			return ids[d.Key] && d.Before != nil && d.After != nil && only("quantity", "ask_amount", "market_id", "expiration", "disable_auto_retire", "maker")(changedFields(d.Before, d.After))
		}
		fr.rows[tBalance] = func(d RowDiff) bool {
			return d.Before != nil && d.After != nil && AddrStr(bytesField(d.After, "address")) == signer && batches[u64Field(d.After, "batch_key")] && only("tradable_amount", "escrowed_amount")(changedFields(d.Before, d.After))
		}
		fr.rows[tMarket] = func(d RowDiff) bool { return d.Before == nil }
	case *markettypes.MsgCancelSellOrder:
		o := pre.OrderByID(msg.SellOrderId)
		if o == nil {
			return "", nil, false
		}
		if AddrStr(o.Seller) != signer {
			roleErr = fmt.Sprintf("CancelSellOrder of order %d by %s accepted, the seller is %s", o.Id, signer, AddrStr(o.Seller))
		}
		fr.rows[tOrder] = func(d RowDiff) bool { return d.Key == fmt.Sprint(o.Id) && d.After == nil }
		fr.rows[tBalance] = func(d RowDiff) bool {
			return d.Before != nil && d.After != nil && AddrStr(bytesField(d.After, "address")) == AddrStr(o.Seller) && u64Field(d.After, "batch_key") == o.BatchKey && only("tradable_amount", "escrowed_amount")(changedFields(d.Before, d.After))
		}
	case *markettypes.MsgAddAllowedDenom:
		roleErr = authority(msg.Authority)
		fr.rows[tAllowedDenom] = func(d RowDiff) bool { return d.Before == nil && getStr(d.After, "bank_denom") == msg.BankDenom }
	case *markettypes.MsgRemoveAllowedDenom:
		roleErr = authority(msg.Authority)
		fr.rows[tAllowedDenom] = func(d RowDiff) bool { return d.After == nil && getStr(d.Before, "bank_denom") == msg.Denom }
	case *markettypes.MsgGovSetFeeParams:
		roleErr = authority(msg.Authority)
		fr.rows[tFeeParams] = anyChange
	case *markettypes.MsgGovSendFromFeePool:
		roleErr = authority(msg.Authority)
		pool := AddrStr(feePoolAddr())
		fr.bank = func(d BankDiff) bool {
			return (d.Addr == pool && d.Delta.Sign() < 0) || (d.Addr == msg.Recipient && d.Delta.Sign() > 0)
		}
	case *data.MsgRegisterResolver:
		var found bool
		for _, r := range pre.Resolvers {
			if r.Id == msg.ResolverId {
				found = true
				if len(r.Manager) != 0 && AddrStr(r.Manager) != signer {
					roleErr = fmt.Sprintf("RegisterResolver to resolver %d by %s accepted, the resolver is not public and its manager is %s", r.Id, signer, AddrStr(r.Manager))
				}
			}
		}
		if !found {
			return "", nil, false
		}
		fr.rows[tDataID] = func(d RowDiff) bool { return d.Before == nil }
		fr.rows[tDataAnchor] = func(d RowDiff) bool { return d.Before == nil }
		fr.rows[tDataResolver] = func(d RowDiff) bool { return d.Before == nil && u64Field(d.After, "resolver_id") == msg.ResolverId }
	default:
		return "", nil, false
	}
	return roleErr, fr, true
}

// movesRoles: the message can change who holds a role, the open flag of a batch, the
// allowlist, or create an entity that a later message of the same tx may name.
func movesRoles(m sdk.Msg) bool {
	switch m.(type) {
	case *basetypes.MsgUpdateClassAdmin, *basetypes.MsgUpdateClassIssuers, *basetypes.MsgUpdateProjectAdmin, *baskettypes.MsgUpdateCurator,
		*basetypes.MsgSealBatch, *basetypes.MsgCreateClass, *basetypes.MsgCreateProject, *basetypes.MsgCreateBatch, *basetypes.MsgBridgeReceive,
		*baskettypes.MsgCreate, *markettypes.MsgSell, *data.MsgDefineResolver,
		*basetypes.MsgSetClassCreatorAllowlist, *basetypes.MsgAddClassCreator, *basetypes.MsgRemoveClassCreator:
		return true
	}
	return false
}

func (c *C08) noteFormer(entity, who string) {
	if c.former[entity] == nil {
		c.former[entity] = map[string]bool{}
	}
	c.former[entity][who] = true
}

// entityOf names the entity whose role a message needs (for non-triviality bookkeeping).
func entityOf(m sdk.Msg) string {
	switch msg := m.(type) {
	case *basetypes.MsgUpdateClassAdmin:
		return "class:" + msg.ClassId
	case *basetypes.MsgUpdateClassMetadata:
		return "class:" + msg.ClassId
	case *basetypes.MsgUpdateClassIssuers:
		return "class:" + msg.ClassId
	case *basetypes.MsgCreateProject:
		return "issuer:" + msg.ClassId
	case *basetypes.MsgUpdateProjectAdmin:
		return "project:" + msg.ProjectId
	case *basetypes.MsgUpdateProjectMetadata:
		return "project:" + msg.ProjectId
	case *baskettypes.MsgUpdateCurator:
		return "basket:" + msg.Denom
	}
	return ""
}

func (c *C08) AfterTx(w *World, t *TxCtx) {
	pre, post := t.Pre, t.Post
	// non-triviality: an attempt by a former role holder
	for _, m := range t.Msgs {
		if e := entityOf(m); e != "" && c.former[e][t.Signer] {
			c.nt = true
			w.Probe("c08_former_holder_attempt")
		}
	}
	// R3: sealing is permanent; a sealed batch row never changes
	c.sealCheck(w, pre, post, "tx["+t.Step.Note+"]")
	if w.Viol != nil || !t.Res.OK {
		return
	}
	// the stored role assignment must be what genesis and the accepted messages make it
	c.ghost.apply(t)
	if what, detail := c.ghost.diff(post); what != "" {
		w.Violate("R2", "role-state-differs-from-accepted-messages/"+what, "after tx [%s]: %s", t.Step.Note, detail)
		return
	}
	if len(t.Msgs) != 1 {
		// Role predicates are evaluated on the pre-state. In a multi-message tx that is only
		// meaningful when no message of the tx can itself move a role or create the entity
		// another message needs; then every message's role is judged (frames are not).
		for _, m := range t.Msgs {
			if movesRoles(m) {
				return
			}
		}
		for i, m := range t.Msgs {
			roleErr, _, judged := c.roleAndFrame(t, m, respAt(t, i))
			if judged && roleErr != "" {
				w.Violate("R1", "accepted-without-role/"+msgTypeName(m), "%s (message %d of a %d-message tx)", roleErr, i, len(t.Msgs))
				return
			}
		}
		w.Probe("c08_multi_msg_roles_judged")
		return
	}
	m := t.Msgs[0]
	roleErr, fr, judged := c.roleAndFrame(t, m, respAt(t, 0))
	if !judged {
		return
	}
	if roleErr != "" {
		w.Violate("R1", "accepted-without-role/"+msgTypeName(m), "%s", roleErr)
		return
	}
	if fr != nil {
		for _, d := range DiffRows(pre, post) {
			f := fr.rows[d.Table]
			if f == nil || !f(d) {
				ch := ""
				if d.Before != nil && d.After != nil {
					ch = " fields " + strings.Join(changedFields(d.Before, d.After), ",")
				}
				w.Violate("R2", "wrote-outside-named-entity/"+msgTypeName(m), "accepted %s changed row %s[%s]%s, which is not (that part of) the entity the message names", msgTypeName(m), d.Table, d.Key, ch)
				return
			}
		}
		for _, d := range DiffBank(pre, post) {
			if !fr.bank(d) {
				w.Violate("R2", "moved-coins-outside-frame/"+msgTypeName(m), "accepted %s changed the %s balance of %q by %s", msgTypeName(m), d.Denom, d.Addr, d.Delta)
				return
			}
		}
	}
	// bookkeeping of role moves
	switch msg := m.(type) {
	case *basetypes.MsgUpdateClassAdmin:
		c.noteFormer("class:"+msg.ClassId, t.Signer)
	case *basetypes.MsgUpdateClassIssuers:
		for _, a := range msg.RemoveIssuers {
			c.noteFormer("issuer:"+msg.ClassId, a)
		}
	case *basetypes.MsgUpdateProjectAdmin:
		c.noteFormer("project:"+msg.ProjectId, t.Signer)
	case *baskettypes.MsgUpdateCurator:
		c.noteFormer("basket:"+msg.Denom, t.Signer)
	}
}

func (c *C08) sealCheck(w *World, pre, post *Snapshot, what string) {
	for _, pb := range pre.Batches {
		nb := post.BatchByKey(pb.Key)
		if nb == nil {
			w.Violate("R3", "batch-disappeared", "%s: batch %s disappeared", what, pb.Denom)
			return
		}
		if !pb.Open {
			if nb.Open {
				w.Violate("R3", "sealed-batch-reopened", "%s: sealed batch %s is open again", what, pb.Denom)
				return
			}
			if !protoEqual(pb, nb) {
				w.Violate("R3", "sealed-batch-row-changed", "%s: sealed batch %s changed fields %s", what, pb.Denom, strings.Join(changedFields(pb, nb), ","))
				return
			}
			ps, ns := pre.SupplyRow(pb.Key), post.SupplyRow(pb.Key)
			if ps != nil && ns != nil {
				a, ok1 := supplySum(ps)
				b, ok2 := supplySum(ns)
				if ok1 && ok2 && a.Cmp(b) != 0 {
					w.Violate("R3", "sealed-batch-minted-into", "%s: sealed batch %s total changed from %s to %s", what, pb.Denom, RatStr(a), RatStr(b))
					return
				}
			}
		}
	}
}

func (c *C08) AfterBegin(w *World, b *BeginCtx) { c.sealCheck(w, b.Pre, b.Post, "BeginBlock") }
func (c *C08) AfterRestart(w *World, r *RestartCtx) {
	c.sealCheck(w, r.Pre, r.Post, "restart("+r.Kind+")")
}
func (c *C08) NonTrivial(w *World) bool { return c.nt }
