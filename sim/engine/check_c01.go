package engine

import (
	"fmt"
	"math/big"
)

// C01 — credit conservation.
type C01 struct {
	BaseChecker
	modulesMoved map[string]bool
}

func init() { RegisterChecker("C01", func() Checker { return &C01{modulesMoved: map[string]bool{}} }) }

func (c *C01) ID() string { return "C01" }

func (c *C01) Init(w *World) { c.check(w, w.Cur, "genesis") }

func (c *C01) AfterBegin(w *World, b *BeginCtx) { c.check(w, b.Post, "BeginBlock") }

func (c *C01) AfterTx(w *World, t *TxCtx) {
	c.check(w, t.Post, "tx")
	if t.Res.OK {
		for _, m := range t.Msgs {
			switch msgTypeName(m) {
			case "ecocredit.MsgSend", "ecocredit.MsgRetire", "ecocredit.MsgCancel", "ecocredit.MsgMintBatchCredits", "ecocredit.MsgBridge", "ecocredit.MsgBridgeReceive":
				c.modulesMoved["base"] = true
			case "basket.MsgPut", "basket.MsgTake":
				c.modulesMoved["basket"] = true
			case "marketplace.MsgSell", "marketplace.MsgBuyDirect", "marketplace.MsgUpdateSellOrders", "marketplace.MsgCancelSellOrder":
				c.modulesMoved["market"] = true
			}
		}
	}
}

func (c *C01) AfterRestart(w *World, r *RestartCtx) { c.check(w, r.Post, "restart:"+r.Kind) }

func (c *C01) NonTrivial(w *World) bool { return len(c.modulesMoved) >= 2 }

// ConservationReport is the exact-rational scan shared by C01 and others.
type batchTotals struct {
	tradable, retired *big.Rat // Σ accounts (tradable+escrowed), Σ retired
	basket            *big.Rat
}

func (c *C01) check(w *World, s *Snapshot, where string) {
	if w.Viol != nil {
		return
	}
	tot := map[uint64]*batchTotals{}
	get := func(k uint64) *batchTotals {
		t := tot[k]
		if t == nil {
			t = &batchTotals{new(big.Rat), new(big.Rat), new(big.Rat)}
			tot[k] = t
		}
		return t
	}
	precOf := func(batchKey uint64) int {
		b := s.BatchByKey(batchKey)
		if b == nil {
			return -1
		}
		return s.PrecisionOfBatch(b)
	}
	// R3: every stored amount parses, is non-negative and within precision
	amt := func(what, val string, p int) *big.Rat {
		r, ok := DecOrZero(val)
		if !ok {
			w.Violate("R3", "unparsable-amount/"+what, "%s after %s: stored amount %q is not a decimal", what, where, val)
			return new(big.Rat)
		}
		if r.Sign() < 0 {
			w.Violate("R3", "negative-amount/"+what, "%s after %s: stored amount %q is negative", what, where, val)
		}
		if p >= 0 && !WithinPrecision(r, p) {
			w.Violate("R3", "over-precision/"+what, "%s after %s: stored amount %q has more than %d decimal places", what, where, val, p)
		}
		return r
	}
	for _, b := range s.Balances {
		p := precOf(b.BatchKey)
		who := fmt.Sprintf("balance(%s,batch %d)", AddrStr(b.Address), b.BatchKey)
		t := get(b.BatchKey)
		t.tradable.Add(t.tradable, amt(who+".tradable", b.TradableAmount, p))
		t.tradable.Add(t.tradable, amt(who+".escrowed", b.EscrowedAmount, p))
		t.retired.Add(t.retired, amt(who+".retired", b.RetiredAmount, p))
	}
	for _, bb := range s.BasketBals {
		b := s.BatchByDenom(bb.BatchDenom)
		if b == nil {
			// dangling reference is C14's business; it cannot be attributed to a batch here
			continue
		}
		p := s.PrecisionOfBatch(b)
		t := get(b.Key)
		t.basket.Add(t.basket, amt(fmt.Sprintf("basket %d balance of %s", bb.BasketId, bb.BatchDenom), bb.Balance, p))
	}
	for _, o := range s.Orders {
		amt(fmt.Sprintf("sell order %d quantity", o.Id), o.Quantity, precOf(o.BatchKey))
	}
	exactBroken := ""
	seen := map[uint64]bool{}
	for _, sp := range s.Supplies {
		seen[sp.BatchKey] = true
		p := precOf(sp.BatchKey)
		who := fmt.Sprintf("supply(batch %d)", sp.BatchKey)
		st := amt(who+".tradable", sp.TradableAmount, p)
		sr := amt(who+".retired", sp.RetiredAmount, p)
		amt(who+".cancelled", sp.CancelledAmount, p)
		t := get(sp.BatchKey)
		have := RatAdd(t.tradable, t.basket)
		if have.Cmp(st) != 0 && exactBroken == "" {
			exactBroken = fmt.Sprintf("R1|batch %d: tradable supply %s but accounts(tradable+escrowed) %s + baskets %s = %s", sp.BatchKey, RatStr(st), RatStr(t.tradable), RatStr(t.basket), RatStr(have))
		}
		if t.retired.Cmp(sr) != 0 && exactBroken == "" {
			exactBroken = fmt.Sprintf("R2|batch %d: retired supply %s but sum of retired balances %s", sp.BatchKey, RatStr(sr), RatStr(t.retired))
		}
	}
	for _, k := range sortedU64(tot) {
		if !seen[k] {
			t := tot[k]
			if (t.tradable.Sign() != 0 || t.basket.Sign() != 0 || t.retired.Sign() != 0) && exactBroken == "" {
				exactBroken = fmt.Sprintf("R1|batch %d: holdings exist (tradable+escrowed %s, baskets %s, retired %s) but there is no supply row", k, RatStr(t.tradable), RatStr(t.basket), RatStr(t.retired))
			}
		}
	}
	if w.Viol != nil {
		return
	}
	// R4: the chain's registered batch-supply invariant
	ctx := w.Chain.WorkCtx()
	chainMsg, chainBroken := "", false
	found := false
	for _, inv := range w.Chain.Invariants {
		if inv.Route == "batch-supply" {
			found = true
			chainMsg, chainBroken = safeInv(inv, ctx)
		}
	}
	if !found {
		w.Violate("R4", "invariant-not-registered", "the module registers no batch-supply invariant route")
		return
	}
	if exactBroken != "" {
		rule := exactBroken[:2]
		w.Violate(rule, "conservation", "after %s (height %d): %s", where, s.Height, exactBroken[3:])
		return
	}
	if chainBroken {
		w.Violate("R4", "invariant-reports-broken", "after %s (height %d): exact scan finds conservation intact but the registered batch-supply invariant reports: %s", where, s.Height, chainMsg)
	}
}

func sortedU64[V any](m map[uint64]V) []uint64 {
	ks := make([]uint64, 0, len(m))
	for k := range m {
		ks = append(ks, k)
	}
	for i := 1; i < len(ks); i++ {
		for j := i; j > 0 && ks[j-1] > ks[j]; j-- {
			ks[j-1], ks[j] = ks[j], ks[j-1]
		}
	}
	return ks
}
