package engine

import (
	"hash"
	"hash/fnv"
)

// HasherCfg selects the data-ID hash function (F11). Kind "" or "prod" is the
// production hasher; "weak" is a hash with only Outputs distinct values.
type HasherCfg struct {
	Kind      string `json:"kind"`
	Outputs   int    `json:"outputs,omitempty"`
	HashLen   int    `json:"hash_len,omitempty"`
	MinLength int    `json:"min_length,omitempty"`
}

type weakHash struct {
	buf     []byte
	outputs int
	n       int
}

func (w *weakHash) Write(p []byte) (int, error) { w.buf = append(w.buf, p...); return len(p), nil }
func (w *weakHash) Reset()                      { w.buf = nil }
func (w *weakHash) Size() int                   { return w.n }
func (w *weakHash) BlockSize() int              { return 1 }
func (w *weakHash) Sum(b []byte) []byte {
	h := fnv.New64a()
	h.Write(w.buf)
	v := h.Sum64() % uint64(w.outputs)
	// expand the class number v into n bytes, all derived from v only
	out := make([]byte, w.n)
	x := v*0x9e3779b97f4a7c15 + 0x1234567
	for i := range out {
		out[i] = byte(splitmix64(&x))
	}
	return append(b, out...)
}

func (h *HasherCfg) NewHash() func() hash.Hash {
	return func() hash.Hash { return &weakHash{outputs: h.Outputs, n: h.HashLen} }
}
