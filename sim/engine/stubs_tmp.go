package engine

type QueryStep struct{}
type QueryCtx struct{}
type ICAWorld struct{}
type ICAEvent struct{}
type ICAWorldCfg struct{}

func (w *World) execQuery(st *Step) {}
func (w *World) execICA(st *Step)   {}
func replayICATrace(tr *Trace, ck Checker) (*World, error) { return nil, nil }
