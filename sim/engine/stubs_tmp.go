package engine

type ICAWorld struct{}
type ICAEvent struct{}
type ICAWorldCfg struct{}

func (w *World) execICA(st *Step)   {}
func replayICATrace(tr *Trace, ck Checker) (*World, error) { return nil, nil }
