package engine
