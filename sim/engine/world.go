package engine

import (
	"bytes"
	"crypto/sha256"
	"encoding/binary"
	"encoding/json"
	"fmt"
	"hash"
	"math/big"
	"sort"
	"strings"
	"time"

	abci "github.com/cometbft/cometbft/abci/types"
	sdk "github.com/cosmos/cosmos-sdk/types"
	gogoproto "github.com/cosmos/gogoproto/proto"
	"google.golang.org/protobuf/proto"
)

type Violation struct {
	Property  string `json:"property"`
	Rule      string `json:"rule"`
	Signature string `json:"signature"` // specific failing shape (for known findings)
	Message   string `json:"message"`
	Step      int    `json:"step"`
}

func (v *Violation) Key() string { return v.Property + "." + v.Rule }

type TxResult struct {
	Delivered bool // false: rejected before DeliverTx (signature rule / undecodable)
	OK        bool
	Code      uint32
	Codespace string
	Log       string
	GasWanted int64
	GasUsed   int64
	Events    []abci.Event
	Data      []byte
	Responses []gogoproto.Message
}

func (r *TxResult) Panicked() bool {
	return r.Delivered && r.Codespace == "undefined" && r.Code == 111222
}
func (r *TxResult) OutOfGas() bool { return r.Delivered && r.Codespace == "sdk" && r.Code == 11 }

// Outcome is a short classification string (statistics only).
func (r *TxResult) Outcome() string {
	switch {
	case !r.Delivered:
		return "notdelivered"
	case r.OK:
		return "ok"
	default:
		return fmt.Sprintf("err:%s:%d", r.Codespace, r.Code)
	}
}

type TxCtx struct {
	StepIdx   int
	Step      *TxStep
	Signer    string
	Msgs      []sdk.Msg
	Pre, Post *Snapshot
	RawPre    []KV
	RawPost   []KV
	Res       TxResult
	BlockTime time.Time
	BankFired bool
	SigFail   bool
}

type BeginCtx struct {
	StepIdx   int
	Pre, Post *Snapshot
	Time      time.Time
	Res       BeginResult
}

type RestartCtx struct {
	StepIdx   int
	Kind      string // crash | torn | restart | genesis
	Pre, Post *Snapshot
	// genesis restart details
	Gen *GenesisRoundTrip
}

type GenesisRoundTrip struct {
	Export       *GenesisDoc
	ExportErr    string
	ValidateEco  string
	ValidateData string
	InitErr      string
	ReExport     *GenesisDoc
	ReExportErr  string
	NewChain     *Chain
	NewSnap      *Snapshot
	Continued    bool
	InvBroken    []string
	// RawDiff: first difference between the raw key/value content of the two modules' stores on
	// the exporting and on the importing chain ("" = identical): rows, index entries and the ORM's
	// auto-increment sequences, i.e. also what a decoded-row comparison and a re-export cannot see
	RawDiff string
}

type TxRecord struct {
	Bytes []byte
	Res   TxResult
	Fault *BankFaultSpec
	Fired bool
}

type BlockRecord struct {
	Height      int64
	Time        time.Time
	BeginEvents []abci.Event
	BeginPanic  string
	Txs         []TxRecord
	AppHash     []byte
	Epoch       int // chain epoch (incremented by continued genesis restarts)
}

// Checker is one property's oracle. Only the active checker can raise
// violations.
type Checker interface {
	ID() string
	Init(w *World)
	AfterBegin(w *World, b *BeginCtx)
	AfterTx(w *World, t *TxCtx)
	AfterCommit(w *World, blk *BlockRecord)
	AfterRestart(w *World, r *RestartCtx)
	AfterQuery(w *World, q *QueryCtx)
	End(w *World)
	// NonTrivial reports whether this run is non-trivial by the property's rule.
	NonTrivial(w *World) bool
	// WantRaw: the checker needs raw KV dumps around every tx.
	WantRaw() bool
}

type BaseChecker struct{}

func (BaseChecker) Init(*World)                      {}
func (BaseChecker) AfterBegin(*World, *BeginCtx)     {}
func (BaseChecker) AfterTx(*World, *TxCtx)           {}
func (BaseChecker) AfterCommit(*World, *BlockRecord) {}
func (BaseChecker) AfterRestart(*World, *RestartCtx) {}
func (BaseChecker) AfterQuery(*World, *QueryCtx)     {}
func (BaseChecker) End(*World)                       {}
func (BaseChecker) NonTrivial(*World) bool           { return false }
func (BaseChecker) WantRaw() bool                    { return false }

// RunStats are the measured coverage numbers of one run.
type RunStats struct {
	Steps, Blocks, Txs, TxOK, TxFail, TxNotDelivered int
	SimNanos                                         int64          // simulated time covered
	MsgOutcomes                                      map[string]int // "<msg type>|ok" / "|fail"
	Faults                                           map[string]int // fired fault kinds
	FaultsConfigured                                 map[string]int
	Probes                                           map[string]int // reach probes
	StateHashes                                      []uint64
	TransHashes                                      []uint64
	ShapeHash                                        uint64
	NonTrivial                                       bool
	Digest                                           string
}

func newRunStats() *RunStats {
	return &RunStats{MsgOutcomes: map[string]int{}, Faults: map[string]int{}, FaultsConfigured: map[string]int{}, Probes: map[string]int{}}
}

// World executes steps against the real application and feeds the checkers.
type World struct {
	Property string
	Opts     ChainOpts
	Genesis  *GenesisDoc

	DB    *SimDB
	Chain *Chain
	Obs   *Observer
	Cur   *Snapshot

	Checker Checker
	wantRaw bool

	StepIdx int
	Viol    *Violation
	Stats   *RunStats

	// current block bookkeeping (for re-delivery after a crash)
	inBlock   bool
	curBlock  *BlockRecord
	Blocks    []*BlockRecord
	Epoch     int
	epochBase []*GenesisDoc // genesis of each epoch (for replica re-execution)
	epochAt   []int         // index into Blocks where each epoch starts

	LastTime   time.Time
	lastRedo   *BlockRecord
	Aborted    bool // the run cannot go on for a reason that is another property's symptom
	LastSimGas uint64
	// LastSimSnap: the predicted state after a tx prefix (only while generating; a replay executes the
	// same dry run but has no use for the observation)
	LastSimSnap *Snapshot
	Generating  bool
	LastSimOK  bool
	Trace      *Trace  // the trace being generated / replayed (read by C10)
	Executed   []*Step // steps executed so far
	Replica    bool    // this world is a secondary replica (no statistics)
	// Committed: decoded snapshot per committed height of the current chain (last few)
	Committed map[int64]*Snapshot

	dig      hash.Hash
	shape    hash.Hash
	Views    []*Snapshot // recent snapshots, newest last (for stale client views)
	Harness  []string    // harness self-check failures (exit 2 material, never VIOLATION)
	ICA      *ICAWorld
	QueryLog int
}

const maxViews = 24

func NewWorld(property string, g *GenesisDoc, opts ChainOpts, ck Checker) (*World, error) {
	w := &World{Property: property, Opts: opts, Genesis: g, Checker: ck, Stats: newRunStats(), dig: sha256.New(), shape: sha256.New()}
	if ck != nil {
		w.wantRaw = ck.WantRaw()
	}
	w.DB = NewSimDB()
	w.ICA = opts.ICA
	c, err := NewChain(w.DB, opts)
	if err != nil {
		return nil, err
	}
	// the genesis must be one the modules' own validation accepts (else the generator is wrong)
	if e := safeErr(func() error { return c.Eco.ValidateGenesis(c.Enc.Cdc, c.Enc.TxCfg, g.Eco) }); e != nil && !g.Unvalidated {
		return nil, fmt.Errorf("generated ecocredit genesis rejected by ValidateGenesis: %w", e)
	}
	if e := safeErr(func() error { return c.Dat.ValidateGenesis(c.Enc.Cdc, c.Enc.TxCfg, g.Data) }); e != nil && !g.Unvalidated {
		return nil, fmt.Errorf("generated data genesis rejected by ValidateGenesis: %w", e)
	}
	if err := c.InitChain(g); err != nil {
		// A genesis accepted by the modules' validation that cannot be imported: C09.R2. For every
		// other property the run cannot start (not their business).
		w.Chain = c
		w.Cur = &Snapshot{Rows: map[string][]proto.Message{}, Bank: map[string]map[string]*big.Int{}, Supply: map[string]*big.Int{}}
		w.Aborted = true
		if property == "C09" {
			w.Violate("R2", "validated-genesis-cannot-be-imported", "a genesis accepted by ValidateGenesis cannot be imported into an empty chain: %s", firstLine(err.Error()))
		}
		w.Probe("run_aborted_genesis_import_failed")
		return w, nil
	}
	w.Chain = c
	w.Obs = NewObserver(c)
	w.Cur = w.Obs.Take(c)
	w.LastTime = g.Time
	w.epochBase = []*GenesisDoc{g}
	w.epochAt = []int{0}
	w.pushView(w.Cur)
	w.digest("init", w.Cur.Digest())
	if ck != nil {
		ck.Init(w)
	}
	return w, nil
}

func (w *World) pushView(s *Snapshot) {
	w.Views = append(w.Views, s)
	if len(w.Views) > maxViews {
		w.Views = w.Views[len(w.Views)-maxViews:]
	}
}

func (w *World) digest(tag string, parts ...[]byte) {
	var lb [8]byte
	w.dig.Write([]byte(tag))
	for _, p := range parts {
		binary.BigEndian.PutUint64(lb[:], uint64(len(p)))
		w.dig.Write(lb[:])
		w.dig.Write(p)
	}
}

func (w *World) DigestHex() string { return fmt.Sprintf("%x", w.dig.Sum(nil)) }

func h64(parts ...string) uint64 {
	h := sha256.New()
	for _, p := range parts {
		h.Write([]byte(p))
		h.Write([]byte{0})
	}
	return binary.BigEndian.Uint64(h.Sum(nil)[:8])
}

// Violate records the first violation of the run.
func (w *World) Violate(rule, signature, format string, a ...interface{}) {
	if w.Viol != nil {
		return
	}
	w.Viol = &Violation{Property: w.Property, Rule: rule, Signature: signature, Message: fmt.Sprintf(format, a...), Step: w.StepIdx}
}

// HarnessFail records a self-inconsistency of the machinery (never a VIOLATION).
func (w *World) HarnessFail(format string, a ...interface{}) {
	w.Harness = append(w.Harness, fmt.Sprintf("step %d: ", w.StepIdx)+fmt.Sprintf(format, a...))
}

func (w *World) Probe(name string) { w.Stats.Probes[name]++ }
func (w *World) Fault(name string) { w.Stats.Faults[name]++ }

func (w *World) noteState(s *Snapshot) {
	w.Stats.StateHashes = append(w.Stats.StateHashes, binary.BigEndian.Uint64(s.Digest()[:8]))
}

// Exec executes one step. It returns false when the run must stop (violation
// or harness failure).
func (w *World) Exec(st *Step) bool {
	if w.Aborted {
		return false
	}
	defer func() { w.StepIdx++ }()
	w.Stats.Steps++
	w.Executed = append(w.Executed, st)
	switch st.Kind {
	case KBegin:
		w.execBegin(st)
	case KTx:
		w.execTx(st)
	case KCommit:
		w.execCommit(st)
	case KCrash:
		w.execCrash(st)
	case KRestart:
		w.execRestart(st)
	case KGenesis:
		w.execGenesisRestart(st)
	case KQuery:
		w.execQuery(st)
	case KICA:
		w.execICA(st)
	case KSim:
		w.execSim(st)
	default:
		w.HarnessFail("unknown step kind %q", st.Kind)
	}
	return w.Viol == nil && len(w.Harness) == 0 && !w.Aborted
}

func (w *World) execBegin(st *Step) {
	if w.inBlock {
		return // malformed (shrunk) trace: ignore
	}
	t, err := ParseTime(st.Time)
	if err != nil {
		w.HarnessFail("bad time %q", st.Time)
		return
	}
	if !t.After(w.LastTime) {
		// BFT time is strictly increasing; a shrunk trace may violate that: fix up deterministically.
		t = w.LastTime.Add(time.Nanosecond)
	}
	pre := w.Cur
	h := w.Chain.Height() + 1
	res := w.Chain.BeginBlock(h, t)
	if res.Panic != "" && w.Property != "C12" {
		// a panicking BeginBlock halts a real chain: that is C12's subject, every other checker's run ends here
		w.Aborted = true
		w.Probe("run_aborted_beginblock_panic")
		return
	}
	w.inBlock = true
	w.Stats.SimNanos += satSub(t, w.LastTime)
	w.LastTime = t
	w.curBlock = &BlockRecord{Height: h, Time: t, BeginEvents: res.Events, BeginPanic: res.Panic, Epoch: w.Epoch}
	post := w.Obs.Take(w.Chain)
	w.Cur = post
	w.noteState(post)
	w.digest("begin", []byte(st.Time), post.Digest(), eventsBytes(res.Events), []byte(res.Panic))
	if w.Checker != nil {
		w.Checker.AfterBegin(w, &BeginCtx{StepIdx: w.StepIdx, Pre: pre, Post: post, Time: t, Res: res})
	}
}

func satSub(a, b time.Time) int64 {
	d := a.Sub(b)
	return int64(d)
}

func eventsBytes(evs []abci.Event) []byte {
	var buf bytes.Buffer
	for _, e := range evs {
		buf.WriteString(e.Type)
		buf.WriteByte(0)
		for _, a := range e.Attributes {
			buf.WriteString(a.Key)
			buf.WriteByte(1)
			buf.WriteString(a.Value)
			buf.WriteByte(2)
		}
	}
	return buf.Bytes()
}

// decodeTx decodes the step's messages and applies the signature rule.
func decodeTx(ts *TxStep) (msgs []sdk.Msg, sigFail bool, err error) {
	for _, raw := range ts.Msgs {
		m, e := DecodeMsg(raw)
		if e != nil {
			return nil, false, e
		}
		msgs = append(msgs, m)
	}
	for _, m := range msgs {
		ok := func() (ok bool) {
			defer func() {
				if r := recover(); r != nil {
					ok = false
				}
			}()
			// Every account a message requires must have signed; the only signature a simulated tx
			// carries is its signer's (who also pays the fee). A message that requires nobody is
			// covered by the fee payer's signature - as with the real ante handler, which verifies
			// the union of the messages' signers plus the fee payer.
			for _, s := range m.GetSigners() {
				if s.String() != ts.Signer {
					return false
				}
			}
			return true
		}()
		if !ok {
			sigFail = true
		}
	}
	return msgs, sigFail, nil
}

func (w *World) deliverRaw(ts *TxStep, msgs []sdk.Msg) (bz []byte, res TxResult, fired bool) {
	gas := ts.Gas
	if gas == 0 {
		gas = AmpleGas
	}
	bz, err := w.Chain.BuildTx(msgs, gas)
	if err != nil {
		res.Log = "build: " + err.Error()
		return nil, res, false
	}
	res, fired = w.deliverBytes(bz, ts.BankFault)
	return bz, res, fired
}

func (w *World) deliverBytes(bz []byte, bf *BankFaultSpec) (res TxResult, fired bool) {
	w.Chain.FB.Arm(bf)
	if w.ICA != nil {
		w.ICA.BeginTx()
	}
	r := w.Chain.DeliverTx(bz)
	if w.ICA != nil {
		w.ICA.EndTx(r.Code == 0)
	}
	fired = w.Chain.FB.Fired
	w.Chain.FB.Disarm()
	res = TxResult{Delivered: true, OK: r.Code == 0, Code: r.Code, Codespace: r.Codespace, Log: r.Log,
		GasWanted: r.GasWanted, GasUsed: r.GasUsed, Events: r.Events, Data: r.Data}
	if res.OK && len(r.Data) > 0 {
		var md sdk.TxMsgData
		if err := gogoproto.Unmarshal(r.Data, &md); err == nil {
			for _, any := range md.MsgResponses {
				msg, err := GetEncoding().IR.Resolve(any.TypeUrl)
				if err != nil {
					res.Responses = append(res.Responses, nil)
					continue
				}
				if err := gogoproto.Unmarshal(any.Value, msg); err != nil {
					res.Responses = append(res.Responses, nil)
					continue
				}
				res.Responses = append(res.Responses, msg)
			}
		}
	}
	return res, fired
}

func msgTypeName(m sdk.Msg) string {
	n := sdk.MsgTypeURL(m)
	if i := strings.LastIndex(n, "."); i >= 0 {
		// keep the package's last element to distinguish basket.MsgCreate etc.
		pkg := n[:i]
		if j := strings.LastIndex(strings.TrimSuffix(pkg, ".v1"), "."); j >= 0 {
			pkg = strings.TrimSuffix(pkg, ".v1")[j+1:]
		}
		pkg = strings.TrimSuffix(strings.TrimSuffix(pkg, ".v2"), ".v1beta1")
		return pkg + "." + n[i+1:]
	}
	return n
}

func (w *World) execTx(st *Step) {
	if !w.inBlock || st.Tx == nil {
		return
	}
	ts := st.Tx
	msgs, sigFail, err := decodeTx(ts)
	if err != nil {
		// an undecodable message never reaches the chain; ignore (can only come from a hand-edited trace)
		w.HarnessFail("undecodable tx: %v", err)
		return
	}
	// the chain gets the messages as spelled; the checkers get a copy with canonical addresses
	cmsgs, _, _ := decodeTx(ts)
	if w.Property != "C20" { // C20 is about strings derived from the owner field exactly as spelled
		for _, m := range cmsgs {
			CanonMsg(m)
		}
	}
	t := &TxCtx{StepIdx: w.StepIdx, Step: ts, Signer: ts.Signer, Msgs: cmsgs, Pre: w.Cur, BlockTime: w.curBlock.Time, SigFail: sigFail}
	w.Stats.Txs++
	if sigFail {
		// rejected by (simulated) signature verification: never delivered.
		w.Stats.TxNotDelivered++
		t.Post = w.Cur
		w.digest("tx-sigfail")
		if w.Checker != nil {
			w.Checker.AfterTx(w, t)
		}
		return
	}
	if w.wantRaw {
		t.RawPre = w.Chain.RawDump(w.Chain.WorkCtx())
	}
	if ts.Gas != 0 {
		w.Stats.FaultsConfigured["F1_gas_limit"]++
	}
	if ts.BankFault != nil {
		w.Stats.FaultsConfigured["F2_bank_error"]++
	}
	bz, res, fired := w.deliverRaw(ts, msgs)
	t.Res = res
	t.BankFired = fired
	w.curBlock.Txs = append(w.curBlock.Txs, TxRecord{Bytes: bz, Res: res, Fault: ts.BankFault, Fired: fired})
	post := w.Obs.Take(w.Chain)
	t.Post = post
	w.Cur = post
	if w.wantRaw {
		t.RawPost = w.Chain.RawDump(w.Chain.WorkCtx())
	}
	w.noteState(post)
	if res.OK {
		w.Stats.TxOK++
	} else {
		w.Stats.TxFail++
	}
	if res.OutOfGas() {
		w.Fault("F1_gas_abort")
	}
	if fired {
		w.Fault("F2_bank_error")
	}
	if len(msgs) > 1 {
		w.Stats.FaultsConfigured["F3_multi_msg"]++
		if !res.OK {
			w.Fault("F3_multi_msg_failed")
		}
	}
	if res.Panicked() {
		w.Probe("tx_recovered_panic")
	}
	okS := "fail"
	if res.OK {
		okS = "ok"
	}
	var names []string
	for _, m := range msgs {
		n := msgTypeName(m)
		names = append(names, n)
		w.Stats.MsgOutcomes[n+"|"+okS]++
	}
	fk := ""
	if res.OutOfGas() {
		fk = "gas"
	} else if fired {
		fk = "bank"
	}
	w.Stats.TransHashes = append(w.Stats.TransHashes, h64(strings.Join(names, "+"), res.Outcome(), fk, ts.Note))
	w.shape.Write([]byte(ts.Signer + "|" + strings.Join(names, "+") + "|" + okS + ";"))
	w.digest("tx", bz, []byte(res.Outcome()), []byte(fmt.Sprint(res.GasUsed, res.GasWanted)), res.Data, eventsBytes(res.Events), post.Digest())
	if Verbose {
		lg := res.Log
		if len(lg) > 160 {
			lg = lg[:160]
		}
		fmt.Printf("%4d %s -> %s gas=%d/%d %s\n", w.StepIdx, DescribeStep(st), res.Outcome(), res.GasUsed, res.GasWanted, lg)
	}
	if w.Checker != nil {
		w.Checker.AfterTx(w, t)
	}
}

// execSim is a client's gas estimation (Simulate): the messages are run by the
// real handlers on a throw-away branch of the working state. It is a step of
// the trace so that generation and replay call into the code under test in
// exactly the same order (hidden state in keepers would otherwise make a
// violation found while generating unreproducible).
func (w *World) execSim(st *Step) {
	w.LastSimGas, w.LastSimOK, w.LastSimSnap = 0, false, nil
	if st.Tx == nil {
		return
	}
	msgs, sigFail, err := decodeTx(st.Tx)
	if err != nil || sigFail {
		return
	}
	if st.SimSnap {
		// the client predicts the state after the first messages of its tx to build the next one
		ctx, ok := w.Chain.DryRunCtx(msgs)
		w.LastSimOK = ok
		if ok && w.Generating {
			w.LastSimSnap = w.Obs.TakeCtx(w.Chain, ctx)
		}
		w.Probe("tx_prefix_predictions")
		return
	}
	w.LastSimGas, w.LastSimOK = w.Chain.DryRunGas(msgs)
	w.Probe("gas_estimations")
}

func (w *World) execCommit(st *Step) {
	if !w.inBlock {
		return
	}
	pre := w.Cur
	if st.Torn != nil {
		w.Stats.FaultsConfigured["F8_torn_commit"]++
		crashed := w.tornCommit(st.Torn)
		if crashed {
			w.Fault("F8_torn_commit")
			if st.Torn.WriteErr {
				w.Fault("F8_disk_write_error")
			}
			if !w.rebuildAndRedeliver("torn") {
				return
			}
			post := w.Obs.Take(w.Chain)
			if w.Checker != nil {
				w.Checker.AfterRestart(w, &RestartCtx{StepIdx: w.StepIdx, Kind: "torn", Pre: pre, Post: post})
			}
			w.Cur = post
		}
		if w.Viol != nil || len(w.Harness) > 0 {
			return
		}
	}
	w.Chain.EndBlock()
	hash, perr := w.safeCommit()
	if perr != "" {
		// The store refuses to commit (e.g. IAVL: "version was already saved to
		// different hash" when a block replayed after a torn commit produced
		// another state). That is a C10 symptom; only the C10 checker reports it.
		if h, ok := w.Checker.(interface{ CommitPanic(*World, string) }); ok {
			h.CommitPanic(w, perr)
		} else {
			w.Aborted = true
			w.Probe("run_aborted_commit_refused")
		}
		return
	}
	w.inBlock = false
	w.curBlock.AppHash = hash
	w.Blocks = append(w.Blocks, w.curBlock)
	w.Stats.Blocks++
	blk := w.curBlock
	w.curBlock = nil
	w.pushView(w.Cur)
	if w.Committed == nil {
		w.Committed = map[int64]*Snapshot{}
	}
	w.Committed[blk.Height] = w.Cur
	delete(w.Committed, blk.Height-8)
	w.digest("commit", hash)
	if w.Checker != nil {
		w.Checker.AfterCommit(w, blk)
	}
}

func (w *World) safeCommit() (hash []byte, perr string) {
	defer func() {
		if r := recover(); r != nil {
			if IsCrash(r) {
				panic(r)
			}
			perr = fmt.Sprint(r)
		}
	}()
	return w.Chain.Commit(), ""
}

// tornCommit arms the disk, runs EndBlock+Commit and reports whether the crash fired.
func (w *World) tornCommit(spec *TornSpec) (crashed bool) {
	defer func() {
		if r := recover(); r != nil {
			// any panic while the disk is armed or has just fired is the crash
			// (the SDK wraps a failed batch write in its own panic value).
			if IsCrash(r) || w.DB.CrashFire > 0 {
				crashed = true
				w.DB.Disarm()
				return
			}
			panic(r)
		}
	}()
	before := w.DB.CrashFire
	w.DB.Arm(spec)
	w.Chain.EndBlock()
	w.Chain.Commit()
	w.DB.Disarm()
	if w.DB.CrashFire == before {
		// commit finished without reaching a commit-info batch: cannot happen with rootmulti
		w.HarnessFail("torn commit armed but no crash fired")
	}
	return false
}

// rebuild drops the whole application object graph and builds a new one over
// the same disk image.
func (w *World) rebuild() bool {
	w.Chain = nil
	c, err := NewChain(w.DB, w.Opts)
	if err != nil {
		w.HarnessFail("rebuild: %v", err)
		return false
	}
	if c.Height() == 0 {
		// nothing was ever committed: the node restarts from genesis
		if err := c.InitChain(w.epochBase[len(w.epochBase)-1]); err != nil {
			w.HarnessFail("re-InitChain: %v", err)
			return false
		}
	}
	w.Chain = c
	w.Obs = NewObserver(c)
	return true
}

// rebuildAndRedeliver is F7/F8 recovery: new process, then the block in
// progress is delivered again from BeginBlock, as CometBFT's handshake does.
// The node's results must equal its own pre-crash results (checked by C10.R4
// through AfterRestart; here only the state digest is compared for the
// harness' own sanity when C10 is not the active checker).
func (w *World) rebuildAndRedeliver(kind string) bool {
	if !w.rebuild() {
		return false
	}
	blk := w.curBlock
	if w.Chain.Height() != blk.Height-1 {
		w.HarnessFail("after %s crash the node is at height %d, expected %d", kind, w.Chain.Height(), blk.Height-1)
		return false
	}
	res := w.Chain.BeginBlock(blk.Height, blk.Time)
	redo := &BlockRecord{Height: blk.Height, Time: blk.Time, BeginEvents: res.Events, BeginPanic: res.Panic}
	for _, tr := range blk.Txs {
		if tr.Bytes == nil {
			continue
		}
		r, fired := w.deliverBytes(tr.Bytes, tr.Fault)
		redo.Txs = append(redo.Txs, TxRecord{Bytes: tr.Bytes, Res: r, Fault: tr.Fault, Fired: fired})
	}
	w.lastRedo = redo
	return true
}

func (w *World) execCrash(st *Step) {
	if !w.inBlock {
		return
	}
	pre := w.Cur
	w.Stats.FaultsConfigured["F7_crash_midblock"]++
	w.Fault("F7_crash_midblock")
	if !w.rebuildAndRedeliver("mid-block") {
		return
	}
	post := w.Obs.Take(w.Chain)
	w.Cur = post
	w.digest("crash", post.Digest())
	if w.Checker != nil {
		w.Checker.AfterRestart(w, &RestartCtx{StepIdx: w.StepIdx, Kind: "crash", Pre: pre, Post: post})
	}
}

func (w *World) execRestart(st *Step) {
	if w.inBlock {
		return
	}
	pre := w.Cur
	w.Stats.FaultsConfigured["F9_clean_restart"]++
	w.Fault("F9_clean_restart")
	if !w.rebuild() {
		return
	}
	post := w.Obs.Take(w.Chain)
	w.Cur = post
	w.digest("restart", post.Digest())
	if w.Checker != nil {
		w.Checker.AfterRestart(w, &RestartCtx{StepIdx: w.StepIdx, Kind: "restart", Pre: pre, Post: post})
	}
}

// CanonJSON re-marshals JSON with sorted keys (encoding/json sorts map keys).
func CanonJSON(bz []byte) []byte {
	if len(bz) == 0 {
		return nil
	}
	var v interface{}
	d := json.NewDecoder(bytes.NewReader(bz))
	d.UseNumber()
	if err := d.Decode(&v); err != nil {
		return bz
	}
	out, err := json.Marshal(v)
	if err != nil {
		return bz
	}
	return out
}

func (w *World) execGenesisRestart(st *Step) {
	if w.inBlock {
		return
	}
	w.Stats.FaultsConfigured["F10_genesis_restart"]++
	pre := w.Cur
	rt := &GenesisRoundTrip{}
	rc := &RestartCtx{StepIdx: w.StepIdx, Kind: "genesis", Pre: pre, Post: pre, Gen: rt}
	ctx := w.Chain.WorkCtx()
	g, err := w.Chain.ExportGenesis(ctx)
	if err != nil {
		rt.ExportErr = err.Error()
	} else {
		g.Time = w.LastTime
		rt.Export = g
		enc := w.Chain.Enc
		if e := safeErr(func() error { return w.Chain.Eco.ValidateGenesis(enc.Cdc, enc.TxCfg, g.Eco) }); e != nil {
			rt.ValidateEco = e.Error()
		}
		if e := safeErr(func() error { return w.Chain.Dat.ValidateGenesis(enc.Cdc, enc.TxCfg, g.Data) }); e != nil {
			rt.ValidateData = e.Error()
		}
		// import into an empty chain regardless of the validation verdict
		db2 := NewSimDB()
		c2, err := NewChain(db2, w.Opts)
		if err != nil {
			w.HarnessFail("genesis restart: new chain: %v", err)
			return
		}
		if err := c2.InitChain(g); err != nil {
			rt.InitErr = err.Error()
		} else {
			obs2 := NewObserver(c2)
			g2, err := c2.ExportGenesis(c2.WorkCtx())
			if err != nil {
				rt.ReExportErr = err.Error()
			} else {
				g2.Time = g.Time
				rt.ReExport = g2
			}
			rt.NewChain = c2
			rt.NewSnap = obs2.Take(c2)
			rt.RawDiff = rawModuleDiff(w.Chain.RawDump(ctx), c2.RawDump(c2.WorkCtx()))
			ictx := c2.WorkCtx()
			for _, inv := range c2.Invariants {
				if msg, broken := safeInv(inv, ictx); broken {
					rt.InvBroken = append(rt.InvBroken, inv.Module+"/"+inv.Route+": "+msg)
				}
			}
			w.Fault("F10_genesis_restart")
			if st.Continue && rt.ValidateEco == "" && rt.ValidateData == "" && rt.ReExportErr == "" {
				// the run goes on on the imported chain
				rt.Continued = true
				w.DB = db2
				w.Chain = c2
				w.Obs = obs2
				w.Cur = rt.NewSnap
				rc.Post = rt.NewSnap
				w.Epoch++
				w.epochBase = append(w.epochBase, g)
				w.epochAt = append(w.epochAt, len(w.Blocks))
				w.Views = nil
				w.Committed = nil
				w.pushView(w.Cur)
				w.Fault("F10_continued_on_import")
			}
		}
	}
	w.digest("genesis", CanonJSON(gEco(rt.Export)), []byte(rt.ValidateEco), []byte(rt.ValidateData), []byte(rt.InitErr))
	if w.Checker != nil {
		w.Checker.AfterRestart(w, rc)
	}
}

// rawModuleDiff compares the ecocredit and data stores of two raw dumps.
func rawModuleDiff(a, b []KV) string {
	pick := func(xs []KV) map[string]string {
		m := map[string]string{}
		for _, kv := range xs {
			if kv.Store == "ecocredit" || kv.Store == "data" {
				m[kv.Store+"/"+fmt.Sprintf("%x", kv.K)] = fmt.Sprintf("%x", kv.V)
			}
		}
		return m
	}
	ma, mb := pick(a), pick(b)
	for _, k := range sortedKeys(ma) {
		vb, ok := mb[k]
		if !ok {
			return "key " + k + " (value " + ma[k] + ") exists only on the exporting chain"
		}
		if vb != ma[k] {
			return "key " + k + ": " + ma[k] + " on the exporting chain, " + vb + " on the importing chain"
		}
	}
	for _, k := range sortedKeys(mb) {
		if _, ok := ma[k]; !ok {
			return "key " + k + " (value " + mb[k] + ") exists only on the importing chain"
		}
	}
	return ""
}

func gEco(g *GenesisDoc) []byte {
	if g == nil {
		return nil
	}
	return g.Eco
}

func safeErr(f func() error) (err error) {
	defer func() {
		if r := recover(); r != nil {
			if IsCrash(r) {
				panic(r)
			}
			err = fmt.Errorf("panic: %v", r)
		}
	}()
	return f()
}

func safeInv(inv NamedInvariant, ctx sdk.Context) (msg string, broken bool) {
	defer func() {
		if r := recover(); r != nil {
			if IsCrash(r) {
				panic(r)
			}
			msg, broken = fmt.Sprintf("invariant panicked: %v", r), true
		}
	}()
	return inv.Inv(ctx)
}

// Finish ends a run: close an open block, let the checker conclude.
func (w *World) Finish() {
	if w.DB != nil && w.DB.OpenIterators > 0 {
		// code under test (or the SDK) left database iterators open: harmless on the simulated disk, counted
		w.Probe("db_iterators_left_open_at_end_of_run")
	}
	if w.Viol == nil && len(w.Harness) == 0 && w.Checker != nil && !w.Aborted {
		w.Checker.End(w)
		w.Stats.NonTrivial = w.Checker.NonTrivial(w)
	}
	w.Stats.ShapeHash = binary.BigEndian.Uint64(w.shape.Sum(nil)[:8])
	w.Stats.Digest = w.DigestHex()
	sort.Slice(w.Stats.StateHashes, func(i, j int) bool { return w.Stats.StateHashes[i] < w.Stats.StateHashes[j] })
}

// ReplayTrace executes all steps of a trace on a fresh world.
func ReplayTrace(tr *Trace, ck Checker) (*World, error) {
	opts := ChainOpts{Hasher: tr.Hasher}
	if tr.ICA != nil {
		opts.ICA = NewICAWorld(*tr.ICA)
	}
	w, err := NewWorld(tr.Property, tr.Genesis, opts, ck)
	if err != nil {
		return nil, err
	}
	w.Trace = tr
	for _, st := range tr.Steps {
		if !w.Exec(st) {
			break
		}
	}
	// a trace cut in the middle of a block is fine
	w.Finish()
	return w, nil
}
