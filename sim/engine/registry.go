package engine

import "sort"

var checkerFactories = map[string]func() Checker{}

func RegisterChecker(id string, f func() Checker) { checkerFactories[id] = f }

func NewChecker(id string) Checker {
	f := checkerFactories[id]
	if f == nil {
		return nil
	}
	return f()
}

func CheckerIDs() []string {
	var out []string
	for k := range checkerFactories {
		out = append(out, k)
	}
	sort.Strings(out)
	return out
}
