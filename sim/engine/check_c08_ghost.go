package engine

import (
	"fmt"
	"sort"
	"strings"

	sdk "github.com/cosmos/cosmos-sdk/types"

	basetypes "github.com/regen-network/regen-ledger/x/ecocredit/v3/base/types/v1"
	baskettypes "github.com/regen-network/regen-ledger/x/ecocredit/v3/basket/types/v1"
)

// roleGhost is the role assignment that follows from genesis and from the accepted
// messages alone (who is admin, issuer, curator, allow-listed; which batch is open).
// The stored state must equal it after every tx: a role-moving message that is accepted
// but whose documented effect is not (or only partly, or elsewhere) applied leaves a
// former holder in office or hands the role to somebody the message did not name.
type roleGhost struct {
	classAdmin   map[string]string
	issuers      map[string]map[string]bool
	projectAdmin map[string]string
	curator      map[string]string
	creators     map[string]bool
	allowlist    bool
	batchIssuer  map[string]string
	batchOpen    map[string]bool
}

func newRoleGhost(s *Snapshot) *roleGhost {
	g := &roleGhost{classAdmin: map[string]string{}, issuers: map[string]map[string]bool{}, projectAdmin: map[string]string{}, curator: map[string]string{},
		creators: map[string]bool{}, batchIssuer: map[string]string{}, batchOpen: map[string]bool{}}
	for _, c := range s.Classes {
		g.classAdmin[c.Id] = AddrStr(c.Admin)
		g.issuers[c.Id] = map[string]bool{}
	}
	for _, is := range s.Issuers {
		if c := s.ClassByKey(is.ClassKey); c != nil {
			g.issuers[c.Id][AddrStr(is.Issuer)] = true
		}
	}
	for _, p := range s.Projects {
		g.projectAdmin[p.Id] = AddrStr(p.Admin)
	}
	for _, b := range s.Baskets {
		g.curator[b.BasketDenom] = AddrStr(b.Curator)
	}
	for _, c := range s.Creators {
		g.creators[AddrStr(c.Address)] = true
	}
	g.allowlist = s.Allowlist != nil && s.Allowlist.Enabled
	for _, b := range s.Batches {
		g.batchIssuer[b.Denom] = AddrStr(b.Issuer)
		g.batchOpen[b.Denom] = b.Open
	}
	return g
}

// apply updates the ghost with the accepted messages of a tx (in order).
func (g *roleGhost) apply(t *TxCtx) {
	if !t.Res.OK {
		return
	}
	for i, m := range t.Msgs {
		switch msg := m.(type) {
		case *basetypes.MsgCreateClass:
			if r, _ := respAt(t, i).(*basetypes.MsgCreateClassResponse); r != nil {
				g.classAdmin[r.ClassId] = t.Signer
				g.issuers[r.ClassId] = map[string]bool{}
				for _, is := range msg.Issuers {
					g.issuers[r.ClassId][is] = true
				}
			}
		case *basetypes.MsgUpdateClassAdmin:
			g.classAdmin[msg.ClassId] = msg.NewAdmin
		case *basetypes.MsgUpdateClassIssuers:
			if g.issuers[msg.ClassId] == nil {
				g.issuers[msg.ClassId] = map[string]bool{}
			}
			for _, a := range msg.RemoveIssuers {
				delete(g.issuers[msg.ClassId], a)
			}
			for _, a := range msg.AddIssuers {
				g.issuers[msg.ClassId][a] = true
			}
		case *basetypes.MsgCreateProject:
			if r, _ := respAt(t, i).(*basetypes.MsgCreateProjectResponse); r != nil {
				g.projectAdmin[r.ProjectId] = t.Signer
			}
		case *basetypes.MsgUpdateProjectAdmin:
			g.projectAdmin[msg.ProjectId] = msg.NewAdmin
		case *basetypes.MsgCreateBatch:
			if r, _ := respAt(t, i).(*basetypes.MsgCreateBatchResponse); r != nil {
				g.batchIssuer[r.BatchDenom] = t.Signer
				g.batchOpen[r.BatchDenom] = msg.Open
			}
		case *basetypes.MsgSealBatch:
			g.batchOpen[msg.BatchDenom] = false
		case *basetypes.MsgBridgeReceive:
			if r, _ := respAt(t, i).(*basetypes.MsgBridgeReceiveResponse); r != nil {
				if _, known := g.projectAdmin[r.ProjectId]; !known {
					g.projectAdmin[r.ProjectId] = t.Signer
				}
				if _, known := g.batchIssuer[r.BatchDenom]; !known {
					g.batchIssuer[r.BatchDenom] = t.Signer
					g.batchOpen[r.BatchDenom] = true
				}
			}
		case *baskettypes.MsgCreate:
			if r, _ := respAt(t, i).(*baskettypes.MsgCreateResponse); r != nil {
				g.curator[r.BasketDenom] = t.Signer
			}
		case *baskettypes.MsgUpdateCurator:
			g.curator[msg.Denom] = msg.NewCurator
		case *basetypes.MsgSetClassCreatorAllowlist:
			g.allowlist = msg.Enabled
		case *basetypes.MsgAddClassCreator:
			g.creators[msg.Creator] = true
		case *basetypes.MsgRemoveClassCreator:
			delete(g.creators, msg.Creator)
		}
	}
}

func joinSet(m map[string]bool) string {
	var xs []string
	for k := range m {
		xs = append(xs, k)
	}
	sort.Strings(xs)
	return strings.Join(xs, ",")
}

// diff returns a description of the first difference between the ghost and the stored state.
func (g *roleGhost) diff(s *Snapshot) (what, detail string) {
	for _, c := range s.Classes {
		if want, ok := g.classAdmin[c.Id]; ok && want != AddrStr(c.Admin) {
			return "class-admin", fmt.Sprintf("class %s: stored admin %s, the accepted messages make it %s", c.Id, AddrStr(c.Admin), want)
		}
		have := map[string]bool{}
		for _, is := range s.Issuers {
			if is.ClassKey == c.Key {
				have[AddrStr(is.Issuer)] = true
			}
		}
		if want, ok := g.issuers[c.Id]; ok && joinSet(want) != joinSet(have) {
			return "class-issuers", fmt.Sprintf("class %s: stored issuers {%s}, the accepted messages make them {%s}", c.Id, joinSet(have), joinSet(want))
		}
	}
	// issuer rows that belong to no class
	for _, is := range s.Issuers {
		if s.ClassByKey(is.ClassKey) == nil {
			return "class-issuers", fmt.Sprintf("issuer row (%d, %s) belongs to no class", is.ClassKey, AddrStr(is.Issuer))
		}
	}
	for _, p := range s.Projects {
		if want, ok := g.projectAdmin[p.Id]; ok && want != AddrStr(p.Admin) {
			return "project-admin", fmt.Sprintf("project %s: stored admin %s, the accepted messages make it %s", p.Id, AddrStr(p.Admin), want)
		}
	}
	for _, b := range s.Baskets {
		if want, ok := g.curator[b.BasketDenom]; ok && want != AddrStr(b.Curator) {
			return "basket-curator", fmt.Sprintf("basket %s: stored curator %s, the accepted messages make it %s", b.BasketDenom, AddrStr(b.Curator), want)
		}
	}
	have := map[string]bool{}
	for _, c := range s.Creators {
		have[AddrStr(c.Address)] = true
	}
	if joinSet(have) != joinSet(g.creators) {
		return "allowed-class-creators", fmt.Sprintf("stored allowed creators {%s}, the accepted messages make them {%s}", joinSet(have), joinSet(g.creators))
	}
	if on := s.Allowlist != nil && s.Allowlist.Enabled; on != g.allowlist {
		return "class-creator-allowlist", fmt.Sprintf("stored allowlist flag %v, the accepted messages make it %v", on, g.allowlist)
	}
	for _, b := range s.Batches {
		if want, ok := g.batchIssuer[b.Denom]; ok && want != AddrStr(b.Issuer) {
			return "batch-issuer", fmt.Sprintf("batch %s: stored issuer %s, created by %s", b.Denom, AddrStr(b.Issuer), want)
		}
		if want, ok := g.batchOpen[b.Denom]; ok && want != b.Open {
			return "batch-open", fmt.Sprintf("batch %s: stored open=%v, the accepted messages make it %v", b.Denom, b.Open, want)
		}
	}
	return "", ""
}

var _ sdk.Msg
