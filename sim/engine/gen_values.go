package engine

import (
	"fmt"
	"math/big"
	"strings"
	"time"
)

// FmtDec renders a non-negative rational with at most p decimals as a plain
// decimal string (exact; r*10^p must be an integer).
func FmtDec(r *big.Rat, p int) string {
	x := new(big.Rat).Mul(r, RatInt(pow10(p)))
	if !x.IsInt() {
		// truncate
		x = RatInt(RatFloor(x))
	}
	s := x.Num().String()
	neg := strings.HasPrefix(s, "-")
	s = strings.TrimPrefix(s, "-")
	if p > 0 {
		for len(s) <= p {
			s = "0" + s
		}
		s = s[:len(s)-p] + "." + s[len(s)-p:]
		s = strings.TrimRight(s, "0")
		s = strings.TrimSuffix(s, ".")
	}
	if neg {
		s = "-" + s
	}
	return s
}

// styleDec rewrites a plain decimal string into an equivalent spelling.
func (g *Gen) styleDec(s string, p int) string {
	if !g.R.Chance(g.P.StyleRate) {
		return s
	}
	switch g.R.Intn(6) {
	case 0: // trailing zeros, never beyond the precision (the chain counts them as decimal places)
		have := 0
		if i := strings.IndexByte(s, '.'); i >= 0 {
			have = len(s) - i - 1
		}
		if have >= p {
			return s
		}
		z := strings.Repeat("0", g.R.Range(1, p-have))
		if have > 0 {
			return s + z
		}
		return s + "." + z
	case 1: // leading zeros
		return "0" + s
	case 2: // scientific notation, exact
		r, ok := ParseDec(s)
		if !ok || r.Sign() == 0 {
			return s
		}
		// move the decimal point by k
		k := g.R.Range(1, 3)
		if n := len(RatFloor(r).String()); n > 11 && g.R.Chance(0.6) {
			k = Pick(g.R, []int{10, 10, 20})
			if k >= n {
				k = 10
			}
		}
		x := new(big.Rat).Quo(r, RatInt(pow10(k)))
		if !x.IsInt() && len(FmtDec(x, 40)) > 45 {
			k = g.R.Range(1, 3)
			x = new(big.Rat).Quo(r, RatInt(pow10(k)))
		}
		return FmtDec(x, 40) + Pick(g.R, []string{"e", "e+", "E"}) + fmt.Sprint(k)
	case 3:
		r, ok := ParseDec(s)
		if !ok || r.Sign() == 0 {
			return s
		}
		k := Pick(g.R, []int{1, 2, 3, 10, 20})
		x := new(big.Rat).Mul(r, RatInt(pow10(k)))
		m := FmtDec(x, 9)
		if !strings.Contains(m, ".") && g.R.Chance(0.5) {
			m += ".0" // a mantissa with a decimal point and an exponent that ends in a zero digit
		}
		return m + fmt.Sprintf("E-%d", k)
	case 4:
		return "+" + s
	default:
		return s
	}
}

// styleInt rewrites a non-negative integer string into another spelling that
// integer parsers may or may not read as the same number.
func (g *Gen) styleInt(x *big.Int) string {
	s := x.String()
	if x.Sign() < 0 || !g.R.Chance(g.P.StyleRate) {
		return s
	}
	switch g.R.Intn(8) {
	case 0:
		return "0" + s
	case 1:
		return "00" + s
	case 2:
		return "+" + s
	case 3:
		return "0x" + x.Text(16)
	case 4:
		return "0o" + x.Text(8)
	case 5:
		return "0" + x.Text(8)
	case 6:
		if len(s) > 3 {
			return s[:len(s)-3] + "_" + s[len(s)-3:]
		}
		return "0b" + x.Text(2)
	default:
		return s + ".0"
	}
}

// unit is 10^-p.
func unit(p int) *big.Rat { return new(big.Rat).SetFrac(big.NewInt(1), pow10(p)) }

// amountLE returns a positive amount string ≤ max with ≤ p decimals, biased to
// interesting values. If max ≤ 0 returns a small positive amount.
func (g *Gen) amountLE(max *big.Rat, p int) string {
	u := unit(p)
	if max == nil || max.Sign() <= 0 {
		return FmtDec(u, p)
	}
	var r *big.Rat
	w := []float64{3, 2, 3, 4, 2, 1, 1.5}
	if max.Cmp(RatInt(pow10(300))) > 0 {
		w = []float64{2, 4, 3, 1, 1, 1, 3} // astronomic holdings: everything, half, a round part - or the smallest unit
	}
	switch g.R.Weighted(w) {
	case 6: // one or two significant digits at the magnitude of max: d x 10^k (many trailing zeros when max is large)
		k := len(RatFloor(max).String()) - 1 - g.R.Range(0, 2)
		if k < 0 {
			k = 0
		}
		r = RatMul(RatI64(int64(g.R.Range(1, 25))), RatInt(pow10(k)))
		for r.Cmp(max) > 0 && k > 0 {
			k--
			r = RatMul(RatI64(int64(g.R.Range(1, 9))), RatInt(pow10(k)))
		}
	case 0:
		r = new(big.Rat).Set(max) // everything
	case 1:
		r = u // smallest unit
	case 2: // half, truncated to precision
		r = truncTo(new(big.Rat).Quo(max, RatI64(2)), p)
	case 3: // random fraction
		f := new(big.Rat).SetFrac(big.NewInt(int64(g.R.Range(1, 999))), big.NewInt(1000))
		r = truncTo(new(big.Rat).Mul(max, f), p)
	case 4: // max minus one unit
		r = new(big.Rat).Sub(max, u)
	default: // a round number
		r = RatI64(int64(g.R.Range(1, 20)))
	}
	if r.Sign() <= 0 || r.Cmp(max) > 0 {
		r = new(big.Rat).Set(max)
	}
	out := FmtDec(r, p)
	if len(out) > 300 && !strings.Contains(out, ".") {
		// a number of hundreds of digits is written the way it was issued: coefficient and exponent
		if t := strings.TrimRight(out, "0"); len(out)-len(t) > 100 && len(t) > 0 {
			return t + "e" + fmt.Sprint(len(out)-len(t))
		}
	}
	return g.styleDec(out, p)
}

func truncTo(r *big.Rat, p int) *big.Rat {
	x := new(big.Rat).Mul(r, RatInt(pow10(p)))
	return new(big.Rat).SetFrac(RatFloor(x), pow10(p))
}

// issueAmount returns an amount to issue (not bounded by a balance).
func (g *Gen) issueAmount(p int) string {
	switch g.R.Weighted([]float64{5, 2, 2, 1, g.P.WideW, 1}) {
	case 0:
		return g.styleDec(fmt.Sprintf("%d", g.R.Range(1, 5000)), p)
	case 1:
		return g.styleDec(FmtDec(new(big.Rat).SetFrac(big.NewInt(int64(g.R.Range(1, 999999999))), pow10(p)), p), p)
	case 2:
		return g.styleDec(FmtDec(new(big.Rat).SetFrac(big.NewInt(int64(g.R.Range(1, 9999999))), pow10(g.R.Range(0, p))), p), p)
	case 3:
		return FmtDec(unit(p), p)
	case 4: // very large (wide domain)
		// (astronomic amounts make every observation of the state slow: they are drawn where order
		// quantities and conservation are the subject, not everywhere - see DESIGN 12.2)
		astro := g.W.Property == "C12" || g.W.Property == "C06" || (g.W.Property == "C01" && g.Trace != nil && g.Trace.Tier == "quick")
		// (the draws are made in any case, so that runs which never hit this branch keep their streams)
		hit := g.R.Chance(0.08) || ((g.W.Property == "C12" || g.W.Property == "C06") && g.R.Chance(0.3))
		if hit && astro {
			// as large as a decimal string can say it: an exponent at the edge of what the decimal library allows
			g.W.Probe("amount_with_exponent_near_100000")
			return Pick(g.R, []string{"1e100000", "2e100000", "4e99999", "3e99990"})
		}
		digits := g.R.Range(20, 40)
		if g.R.Chance(0.3) {
			// a round very large number
			return fmt.Sprint(g.R.Range(1, 99)) + strings.Repeat("0", g.R.Range(13, 36))
		}
		s := "9"
		for i := 1; i < digits; i++ {
			s += string(rune('0' + g.R.Intn(10)))
		}
		if g.R.Chance(0.5) {
			s += "." + strings.Repeat("9", p)
		}
		return s
	default:
		return "0"
	}
}

// badAmount returns an amount that must be rejected somewhere (hostile / near-miss).
func (g *Gen) badAmount(p int) string {
	return Pick(g.R, []string{"0", "-1", "", "abc", "0." + strings.Repeat("0", p) + "1", "1." + strings.Repeat("1", p+1), "NaN", "Infinity", "1e-7", "-0", "0.0", "1e40",
		"-0." + strings.Repeat("0", p-1) + "1", " 1", "1 ", "1,5", ".5", "5.", "+-1", "1e", "0x10", "\u0661\u0662\u0663", "1_000", "sNaN", "-Infinity", "-1e-6", "--1", "1e-" + fmt.Sprint(p+1),
		// a sign in a place where only some parsers look for one
		".-5", "1.-5", ".-" + strings.Repeat("0", p-1) + "1", ".+5", "1.+5", "1e+-1", "-.5", "0.-0", fmt.Sprint(g.R.Range(1, 500)) + ".-" + fmt.Sprint(g.R.Range(1, 99))})
}

var jurisdictions = []string{"US", "US-WA", "US-WA 98225", "KE", "DE-BE", "AU-NSW 2000", "GB-ENG SW1A 1AA", "FR-75C 75001", "KE-30 a-very-long-postal-code-with-up-to-sixty-four-characters-in-it-0"}

func (g *Gen) jurisdiction() string { return Pick(g.R, jurisdictions) }

func (g *Gen) metadata() string {
	if g.R.Chance(0.02) && !g.P.AvoidKnown {
		// bytes that are not UTF-8: the wire format carries them, JSON cannot
		g.W.Probe("text_field_with_invalid_utf8")
		return "meta \xff\xfe"
	}
	return Pick(g.R, []string{"", "regen:13toVgf5UjYBz6J29gnPFrMkKVtTPSEhPKAkjK8kq1jwJNrgzhfeaQ8.rdf", "meta", "m" + fmt.Sprint(g.R.Intn(1000)), strings.Repeat("x", 250), strings.Repeat("x", 256), "méta \u2028 \"q\" \\ 日本", strings.Repeat("é", 128)})
}

func (g *Gen) reason() string {
	return Pick(g.R, []string{"", "offsetting", "because " + fmt.Sprint(g.R.Intn(50))})
}

// coinAmount returns an integer amount string relative to balance bal.
func (g *Gen) intLE(max *big.Int) *big.Int {
	if max == nil || max.Sign() <= 0 {
		return big.NewInt(1)
	}
	switch g.R.Weighted([]float64{2, 2, 4, 2}) {
	case 0:
		return new(big.Int).Set(max)
	case 1:
		return big.NewInt(1)
	case 2:
		f := big.NewInt(int64(g.R.Range(1, 999)))
		x := new(big.Int).Mul(max, f)
		x.Div(x, big.NewInt(1000))
		if x.Sign() <= 0 {
			return big.NewInt(1)
		}
		return x
	default:
		x := new(big.Int).Sub(max, big.NewInt(1))
		if x.Sign() <= 0 {
			return big.NewInt(1)
		}
		return x
	}
}

func (g *Gen) price() *big.Int {
	switch g.R.Weighted([]float64{3, 3, 2, 1, g.P.WideW * 0.5}) {
	case 0:
		return big.NewInt(int64(g.R.Range(1, 20)))
	case 1:
		return big.NewInt(int64(Pick(g.R, []int{3, 7, 13, 101, 997, 1000003, 333333})))
	case 2:
		return big.NewInt(int64(g.R.Range(1000, 5000000)))
	case 3:
		return big.NewInt(1)
	default:
		return new(big.Int).Mul(pow10(g.R.Range(12, 25)), big.NewInt(int64(g.R.Range(1, 9))))
	}
}

// dates

func date(y int, m time.Month, d int) time.Time { return time.Date(y, m, d, 0, 0, 0, 0, time.UTC) }

func (g *Gen) batchDates(now time.Time) (time.Time, time.Time) {
	var start time.Time
	if bs := g.W.Cur.Batches; len(bs) > 0 && g.R.Chance(g.P.PTie) {
		// the same start date as an existing batch: ties in every ordering by start date
		s0 := TsTime(bs[g.R.Intn(len(bs))].StartDate)
		if s0.Year() >= 1 && s0.Year() < 9990 {
			e0 := s0.AddDate(0, g.R.Range(0, 11), g.R.Range(1, 27))
			return s0.UTC(), e0.UTC()
		}
	}
	switch g.R.Weighted([]float64{5, 1, 1, 1, 2, 1, 0.7}) {
	case 6: // the far ends of the valid timestamp range (years 0001 … 9999)
		start = date(Pick(g.R, []int{1, 9, 99, 100, 987, 999, 1000, 9998}), time.Month(g.R.Range(1, 12)), g.R.Range(1, 28))
	case 0:
		start = date(now.Year()-g.R.Range(0, 12), time.Month(g.R.Range(1, 12)), g.R.Range(1, 28))
	case 1:
		start = time.Unix(0, 0).UTC() // exactly the epoch
	case 2:
		start = date(1969-g.R.Range(0, 60), time.Month(g.R.Range(1, 12)), g.R.Range(1, 28)).Add(time.Duration(g.R.Intn(86400)) * time.Second)
	case 3:
		start = date(now.Year()+g.R.Range(1, 30), 1, 1)
	case 4: // arbitrary instant with nanos
		start = now.Add(-time.Duration(g.R.Int63n(int64(20 * 365 * 24 * time.Hour)))).Add(time.Duration(g.R.Intn(1e9)))
	default:
		start = date(now.Year()-g.R.Range(0, 3), 1, 1)
	}
	var end time.Time
	switch g.R.Weighted([]float64{5, 2, 1}) {
	case 0:
		end = start.AddDate(g.R.Range(0, 2), g.R.Range(0, 11), g.R.Range(1, 27))
	case 1:
		end = start // start == end (accepted by message validation)
		if g.P.AvoidKnown {
			end = start.Add(time.Nanosecond)
		}
	default:
		end = start.Add(time.Nanosecond)
	}
	return start.UTC(), end.UTC()
}
