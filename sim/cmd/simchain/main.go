// simchain: deterministic simulation driver for regen-ledger.
//
//	simchain check  -prop C01 -tier quick|thorough      run a check (spawns one worker process per core)
//	simchain worker ...                                 (internal)
//	simchain replay <trace.json>                        re-execute a trace file
//	simchain selftest                                   determinism self-test
package main

import (
	"encoding/binary"
	"encoding/json"
	"flag"
	"fmt"
	"os"
	"os/exec"
	"path/filepath"
	"runtime"
	"sort"
	"strconv"
	"strings"
	"sync"
	"time"

	"verif/sim/engine"
)

var verifDir = func() string {
	if d := os.Getenv("VERIF_DIR"); d != "" {
		return d
	}
	return "/verif"
}()

func main() {
	if len(os.Args) < 2 {
		fmt.Fprintln(os.Stderr, "usage: simchain check|worker|replay|selftest ...")
		os.Exit(2)
	}
	switch os.Args[1] {
	case "check":
		os.Exit(cmdCheck(os.Args[2:]))
	case "worker":
		os.Exit(cmdWorker(os.Args[2:]))
	case "replay":
		os.Exit(cmdReplay(os.Args[2:]))
	case "selftest":
		os.Exit(cmdSelftest(os.Args[2:]))
	case "gen":
		os.Exit(cmdGen(os.Args[2:]))
	default:
		fmt.Fprintln(os.Stderr, "unknown command", os.Args[1])
		os.Exit(2)
	}
}

// ---------------------------------------------------------------- known findings

type Finding struct {
	Property  string `json:"property"`
	Rule      string `json:"rule"`
	Signature string `json:"signature"`
	What      string `json:"what"`
	Status    string `json:"status"` // open | fixed
	Commit    string `json:"commit,omitempty"`
}

type FindingsFile struct {
	Findings []Finding `json:"findings"`
}

func loadFindings() []Finding {
	bz, err := os.ReadFile(filepath.Join(verifDir, "known_findings.json"))
	if err != nil {
		return nil
	}
	var f FindingsFile
	if err := json.Unmarshal(bz, &f); err != nil {
		fmt.Fprintln(os.Stderr, "known_findings.json:", err)
		os.Exit(2)
	}
	return f.Findings
}

func matchKnown(fs []Finding, v *engine.Violation) *Finding {
	for i := range fs {
		f := &fs[i]
		if f.Status == "open" && f.Property == v.Property && f.Rule == v.Rule && f.Signature == v.Signature {
			return f
		}
	}
	return nil
}

// ---------------------------------------------------------------- worker

type ViolReport struct {
	Viol      engine.Violation `json:"violation"`
	Run       uint64           `json:"run"`
	Seed      uint64           `json:"seed"`
	TracePath string           `json:"trace"`
	FullPath  string           `json:"full_trace"`
	MinSteps  int              `json:"min_steps"`
	FullSteps int              `json:"full_steps"`
	Execs     int              `json:"shrink_execs"`
}

type WorkerResult struct {
	Worker           int               `json:"worker"`
	Runs             int               `json:"runs"`
	Steps            int               `json:"steps"`
	Blocks           int               `json:"blocks"`
	Txs              int               `json:"txs"`
	TxOK             int               `json:"tx_ok"`
	TxFail           int               `json:"tx_fail"`
	TxNotDelivered   int               `json:"tx_not_delivered"`
	SimSeconds       float64           `json:"sim_seconds"`
	MsgOutcomes      map[string]int    `json:"msg_outcomes"`
	Faults           map[string]int    `json:"faults_fired"`
	FaultsConfigured map[string]int    `json:"faults_configured"`
	Probes           map[string]int    `json:"probes"`
	NonTrivialShapes []uint64          `json:"nontrivial_shapes"`
	Shapes           []uint64          `json:"shapes"`
	TransHashes      []uint64          `json:"trans_hashes"`
	StatesFile       string            `json:"states_file"`
	Violations       []ViolReport      `json:"violations"`
	Known            map[string]int    `json:"known"` // "prop|rule|signature" -> hits
	KnownSample      map[string]string `json:"known_sample"`
	Harness          []string          `json:"harness"`
	Digests          map[string]string `json:"digests,omitempty"`
	Samples          []json.RawMessage `json:"samples"`
	WallS            float64           `json:"wall_s"`
}

func addMap(dst, src map[string]int) {
	for k, v := range src {
		dst[k] += v
	}
}

func cmdWorker(args []string) int {
	fs := flag.NewFlagSet("worker", flag.ExitOnError)
	prop := fs.String("prop", "", "property id")
	tier := fs.String("tier", "quick", "tier")
	vseed := fs.Uint64("vseed", 1, "VERIF_SEED")
	start := fs.Uint64("start", 0, "first run index")
	stride := fs.Uint64("stride", 1, "run index stride")
	maxRuns := fs.Uint64("max", 1<<62, "run index bound (exclusive)")
	budget := fs.Float64("budget", 30, "seconds")
	out := fs.String("out", "", "result file")
	digests := fs.Bool("digests", false, "record per-run digests")
	wid := fs.Int("id", 0, "worker id")
	fs.Parse(args)
	t0 := time.Now()
	deadline := t0.Add(time.Duration(*budget * float64(time.Second)))
	known := loadFindings()
	res := &WorkerResult{Worker: *wid, MsgOutcomes: map[string]int{}, Faults: map[string]int{}, FaultsConfigured: map[string]int{}, Probes: map[string]int{},
		Known: map[string]int{}, KnownSample: map[string]string{}}
	if *digests {
		res.Digests = map[string]string{}
	}
	states := map[uint64]struct{}{}
	trans := map[uint64]struct{}{}
	shapes := map[uint64]struct{}{}
	nts := map[uint64]struct{}{}
	outDir := filepath.Join(verifDir, "out", "violations")
	os.MkdirAll(outDir, 0o755)
	var simNanos float64
	for idx := *start; idx < *maxRuns && time.Now().Before(deadline); idx += *stride {
		ck := engine.NewChecker(*prop)
		if ck == nil {
			fmt.Fprintln(os.Stderr, "no checker for", *prop)
			return 2
		}
		g, err := engine.NewGen(*prop, *tier, *vseed, idx, ck)
		if err != nil {
			res.Harness = append(res.Harness, fmt.Sprintf("run %d: setup: %v", idx, err))
			break
		}
		g.Run()
		w := g.W
		w.Finish()
		st := w.Stats
		res.Runs++
		res.Steps += st.Steps
		res.Blocks += st.Blocks
		res.Txs += st.Txs
		res.TxOK += st.TxOK
		res.TxFail += st.TxFail
		res.TxNotDelivered += st.TxNotDelivered
		simNanos += float64(st.SimNanos)
		addMap(res.MsgOutcomes, st.MsgOutcomes)
		addMap(res.Faults, st.Faults)
		addMap(res.FaultsConfigured, st.FaultsConfigured)
		addMap(res.Probes, st.Probes)
		for _, h := range st.StateHashes {
			states[h] = struct{}{}
		}
		for _, h := range st.TransHashes {
			trans[h] = struct{}{}
		}
		shapes[st.ShapeHash] = struct{}{}
		if st.NonTrivial {
			nts[st.ShapeHash] = struct{}{}
		}
		if res.Digests != nil {
			res.Digests[fmt.Sprint(idx)] = st.Digest
		}
		if len(res.Samples) < 2 && st.NonTrivial {
			res.Samples = append(res.Samples, sampleOf(g.Trace, w))
		}
		if len(w.Harness) > 0 {
			p := filepath.Join(verifDir, "out", fmt.Sprintf("harness-%s-%d-%d.trace.json", *prop, *vseed, idx))
			g.Trace.Save(p)
			res.Harness = append(res.Harness, fmt.Sprintf("run %d: %s (trace %s)", idx, strings.Join(w.Harness, "; "), p))
			break
		}
		if v := w.Viol; v != nil {
			if f := matchKnown(known, v); f != nil {
				k := v.Property + "|" + v.Rule + "|" + v.Signature
				res.Known[k]++
				if _, ok := res.KnownSample[k]; !ok {
					res.KnownSample[k] = fmt.Sprintf("run %d step %d: %s", idx, v.Step, v.Message)
				}
				continue
			}
			rep := reportViolation(g.Trace, v, *prop, *vseed, idx, outDir)
			if rep == nil {
				res.Harness = append(res.Harness, fmt.Sprintf("run %d: violation %s.%s (%s) did not reproduce on replay: harness is not deterministic", idx, v.Property, v.Rule, v.Message))
			} else {
				res.Violations = append(res.Violations, *rep)
			}
			break
		}
	}
	res.SimSeconds = simNanos / 1e9
	res.NonTrivialShapes = keysU64(nts)
	res.Shapes = keysU64(shapes)
	res.TransHashes = keysU64(trans)
	res.WallS = time.Since(t0).Seconds()
	if *out != "" {
		sf := *out + ".states"
		writeU64s(sf, keysU64(states))
		res.StatesFile = sf
		bz, _ := json.Marshal(res)
		if err := os.WriteFile(*out, bz, 0o644); err != nil {
			fmt.Fprintln(os.Stderr, err)
			return 2
		}
	}
	return 0
}

func keysU64(m map[uint64]struct{}) []uint64 {
	out := make([]uint64, 0, len(m))
	for k := range m {
		out = append(out, k)
	}
	sort.Slice(out, func(i, j int) bool { return out[i] < out[j] })
	return out
}

func writeU64s(path string, xs []uint64) {
	buf := make([]byte, 8*len(xs))
	for i, x := range xs {
		binary.LittleEndian.PutUint64(buf[8*i:], x)
	}
	os.WriteFile(path, buf, 0o644)
}

func readU64s(path string) []uint64 {
	bz, err := os.ReadFile(path)
	if err != nil {
		return nil
	}
	out := make([]uint64, len(bz)/8)
	for i := range out {
		out[i] = binary.LittleEndian.Uint64(bz[8*i:])
	}
	return out
}

func sampleOf(tr *engine.Trace, w *engine.World) json.RawMessage {
	type s struct {
		Run     uint64   `json:"run"`
		Seed    uint64   `json:"seed"`
		Profile string   `json:"profile"`
		Steps   int      `json:"steps"`
		Head    []string `json:"first_steps"`
	}
	x := s{Run: tr.Run, Seed: tr.Seed, Steps: len(tr.Steps)}
	var pr struct {
		Name string `json:"name"`
	}
	json.Unmarshal(tr.Profile, &pr)
	x.Profile = pr.Name
	for i, st := range tr.Steps {
		if i >= 30 {
			break
		}
		x.Head = append(x.Head, engine.DescribeStep(st))
	}
	bz, _ := json.Marshal(x)
	return bz
}

// reportViolation shrinks, saves and re-validates (fresh process) a violation.
func reportViolation(tr *engine.Trace, v *engine.Violation, prop string, vseed, idx uint64, outDir string) *ViolReport {
	cut := v.Step + 1
	if cut > len(tr.Steps) {
		cut = len(tr.Steps)
	}
	full := tr.CloneWithSteps(tr.Steps)
	full.Expect = &engine.ExpectViol{Property: v.Property, Rule: v.Rule, Signature: v.Signature, Message: v.Message, Step: v.Step}
	base := fmt.Sprintf("%s-%d-%d", prop, vseed, idx)
	fullPath := filepath.Join(outDir, base+".full.trace.json")
	full.Save(fullPath)
	self, _ := os.Executable()
	freshReplay := func(path string, attempts int) bool {
		for a := 0; a < attempts; a++ {
			cmd := exec.Command(self, "replay", "-quiet", path)
			outb, _ := cmd.CombinedOutput()
			if cmd.ProcessState != nil && cmd.ProcessState.ExitCode() == 1 && strings.Contains(string(outb), "VIOLATION property="+prop) {
				return true
			}
		}
		return false
	}
	steps := tr.Steps[:cut]
	probabilistic := prop == "C10"
	if probabilistic {
		steps = tr.Steps // C10 compares whole executions; cutting is done by the shrinker
	}
	sh := &engine.Shrinker{Base: tr, Want: v, Deadline: time.Now().Add(60 * time.Second), MaxExec: 1500, MkCheck: func() engine.Checker { return engine.NewChecker(prop) }}
	if probabilistic {
		// the map-iteration-order sub-case replays only probabilistically (DESIGN §2.6)
		sh.Repeats, sh.AnyRule = 12, true
		sh.Deadline = time.Now().Add(150 * time.Second)
		sh.MaxExec = 4000
	}
	// C10 fallback: a difference between executions that was observed but does not come back in many
	// fresh executions depends on process history or on a rare map order; it is still reported, with
	// the complete trace, and the report says so.
	fallback := func(why string) *ViolReport {
		if !probabilistic {
			return nil
		}
		vv := *v
		if freshReplay(fullPath, 3) {
			vv.Message += " (not minimised: " + why + "; the complete trace reproduces it in a fresh process)"
		} else {
			vv.Message += " (observed once; " + why + "; not reproduced in 24 fresh executions of the complete trace: depends on process history or on a rare map iteration order)"
		}
		return &ViolReport{Viol: vv, Run: idx, Seed: tr.Seed, TracePath: fullPath, FullPath: fullPath, MinSteps: len(tr.Steps), FullSteps: len(tr.Steps), Execs: sh.Execs}
	}
	if !sh.Fails(steps) {
		// the cut trace must fail the same way; if it does not, fall back to the full one
		steps = tr.Steps
		if !sh.Fails(steps) {
			return fallback("re-execution in the same process did not show it again")
		}
	}
	if probabilistic {
		sh.Repeats = 6
	}
	minSteps := sh.Shrink(steps)
	mt := tr.CloneWithSteps(minSteps)
	var w *engine.World
	var err error
	for try := 0; try < 1+4*sh.Repeats; try++ {
		w, err = engine.ReplayTrace(mt, engine.NewChecker(prop))
		if err == nil && w.Viol != nil {
			break
		}
	}
	if err != nil || w.Viol == nil {
		return fallback("the minimised trace did not show it again")
	}
	mt.Expect = &engine.ExpectViol{Property: w.Viol.Property, Rule: w.Viol.Rule, Signature: w.Viol.Signature, Message: w.Viol.Message, Step: w.Viol.Step}
	minPath := filepath.Join(outDir, base+".trace.json")
	if err := mt.Save(minPath); err != nil {
		return nil
	}
	// fresh OS process replay
	attempts := 1
	if probabilistic {
		attempts = 3
	}
	if !freshReplay(minPath, attempts) {
		fmt.Fprintf(os.Stderr, "fresh-process replay of %s did not reproduce\n", minPath)
		return fallback("the minimised trace did not reproduce in a fresh process")
	}
	return &ViolReport{Viol: *w.Viol, Run: idx, Seed: tr.Seed, TracePath: minPath, FullPath: fullPath, MinSteps: len(minSteps), FullSteps: len(tr.Steps), Execs: sh.Execs}
}

// ---------------------------------------------------------------- replay

func cmdReplay(args []string) int {
	fs := flag.NewFlagSet("replay", flag.ExitOnError)
	quiet := fs.Bool("quiet", false, "")
	verbose := fs.Bool("v", false, "print every step outcome")
	fs.Parse(args)
	if fs.NArg() < 1 {
		fmt.Fprintln(os.Stderr, "usage: simchain replay <trace.json>")
		return 2
	}
	path := fs.Arg(0)
	tr, err := engine.LoadTrace(path)
	if err != nil {
		fmt.Fprintln(os.Stderr, err)
		return 2
	}
	ck := engine.NewChecker(tr.Property)
	if ck == nil {
		fmt.Fprintln(os.Stderr, "no checker for", tr.Property)
		return 2
	}
	engine.Verbose = *verbose
	n := 1
	if tr.Property == "C10" {
		n = 8 // map-order sub-case replays probabilistically (DESIGN §2.6)
	}
	for i := 0; i < n; i++ {
		w, err := engine.ReplayTrace(tr, engine.NewChecker(tr.Property))
		if err != nil {
			fmt.Fprintln(os.Stderr, "replay:", err)
			return 2
		}
		if len(w.Harness) > 0 {
			fmt.Fprintln(os.Stderr, "harness failure:", strings.Join(w.Harness, "; "))
			return 2
		}
		if w.Viol != nil {
			if !*quiet {
				fmt.Printf("violation %s.%s at step %d [%s]: %s\n", w.Viol.Property, w.Viol.Rule, w.Viol.Step, w.Viol.Signature, w.Viol.Message)
			}
			if f := matchKnown(loadFindings(), w.Viol); f != nil && !*quiet {
				fmt.Printf("KNOWN-FINDING: property=%s %s\n", f.Property, f.What)
			}
			fmt.Printf("VIOLATION property=%s replay=%s\n", w.Viol.Property, path)
			return 1
		}
	}
	fmt.Println("NOT-REPRODUCED")
	return 0
}

// ---------------------------------------------------------------- gen (debug): generate one run and print it

func cmdGen(args []string) int {
	fs := flag.NewFlagSet("gen", flag.ExitOnError)
	prop := fs.String("prop", "C01", "")
	tier := fs.String("tier", "quick", "")
	vseed := fs.Uint64("vseed", 1, "")
	run := fs.Uint64("run", 0, "")
	out := fs.String("out", "", "write trace here")
	verbose := fs.Bool("v", false, "")
	fs.Parse(args)
	engine.Verbose = *verbose
	g, err := engine.NewGen(*prop, *tier, *vseed, *run, engine.NewChecker(*prop))
	if err != nil {
		fmt.Fprintln(os.Stderr, err)
		return 2
	}
	g.Run()
	g.W.Finish()
	if *out != "" {
		g.Trace.Save(*out)
	}
	st := g.W.Stats
	fmt.Printf("steps=%d blocks=%d txs=%d ok=%d fail=%d nontrivial=%v digest=%s\n", st.Steps, st.Blocks, st.Txs, st.TxOK, st.TxFail, st.NonTrivial, st.Digest)
	for _, k := range sortedKeys(st.MsgOutcomes) {
		fmt.Printf("  %-50s %d\n", k, st.MsgOutcomes[k])
	}
	if g.W.Viol != nil {
		fmt.Printf("violation %s.%s step %d [%s]: %s\n", g.W.Viol.Property, g.W.Viol.Rule, g.W.Viol.Step, g.W.Viol.Signature, g.W.Viol.Message)
	}
	if len(g.W.Harness) > 0 {
		fmt.Println("harness:", g.W.Harness)
	}
	return 0
}

func sortedKeys(m map[string]int) []string {
	ks := make([]string, 0, len(m))
	for k := range m {
		ks = append(ks, k)
	}
	sort.Strings(ks)
	return ks
}

// ---------------------------------------------------------------- check (driver)

func envU64(name string, def uint64) uint64 {
	if s := os.Getenv(name); s != "" {
		if v, err := strconv.ParseUint(s, 10, 64); err == nil {
			return v
		}
		if v, err := strconv.ParseInt(s, 10, 64); err == nil {
			return uint64(v)
		}
	}
	return def
}

func cmdCheck(args []string) int {
	fs := flag.NewFlagSet("check", flag.ExitOnError)
	prop := fs.String("prop", "", "property id")
	tier := fs.String("tier", "quick", "quick|thorough")
	workers := fs.Int("workers", 0, "worker processes (default: cores)")
	fs.Parse(args)
	if engine.NewChecker(*prop) == nil {
		fmt.Fprintln(os.Stderr, "unknown property", *prop)
		return 2
	}
	vseed := envU64("VERIF_SEED", 1)
	budget := 60.0
	if *tier == "thorough" {
		budget = 900
	}
	if s := os.Getenv("VERIF_BUDGET_S"); s != "" {
		if v, err := strconv.ParseFloat(s, 64); err == nil {
			budget = v
		}
	}
	n := *workers
	if n <= 0 {
		n = runtime.NumCPU()
	}
	maxRuns := envU64("VERIF_MAX_RUNS", 1<<62)
	t0 := time.Now()
	fmt.Printf("VERIF_SEED=%d property=%s tier=%s workers=%d budget_s=%.0f\n", vseed, *prop, *tier, n, budget)
	tmp := filepath.Join(verifDir, "out", "work", fmt.Sprintf("%s-%s-%d", *prop, *tier, os.Getpid()))
	os.MkdirAll(tmp, 0o755)
	defer os.RemoveAll(tmp)
	self, _ := os.Executable()
	// Each worker slot handles run indices slot, slot+n, slot+2n, ... For C10 a slot's
	// indices are handed out in chunks to successive fresh OS processes, so that many
	// runs start in a cold process (state that lives in package-level variables of the
	// code under test is process history, which C10 is about).
	chunk := uint64(0)
	if *prop == "C10" {
		chunk = 24
	}
	deadline := t0.Add(time.Duration(budget * float64(time.Second)))
	hard := t0.Add(time.Duration((budget*1.5 + 240) * float64(time.Second)))
	var mu sync.Mutex
	var outs []string
	var crashed []string
	watchdog := false
	var wg sync.WaitGroup
	for i := 0; i < n; i++ {
		wg.Add(1)
		go func(slot int) {
			defer wg.Done()
			for part := uint64(0); ; part++ {
				remaining := time.Until(deadline).Seconds()
				if part > 0 && remaining < 2 {
					return
				}
				start := uint64(slot)
				max := maxRuns
				if chunk > 0 {
					start = uint64(slot) + part*chunk*uint64(n)
					if m := start + chunk*uint64(n); m < max {
						max = m
					}
					if start >= maxRuns {
						return
					}
				}
				out := filepath.Join(tmp, fmt.Sprintf("w%d.%d.json", slot, part))
				cmd := exec.Command(self, "worker", "-prop", *prop, "-tier", *tier, "-vseed", fmt.Sprint(vseed), "-start", fmt.Sprint(start), "-stride", fmt.Sprint(n),
					"-max", fmt.Sprint(max), "-budget", fmt.Sprint(remaining), "-out", out, "-id", fmt.Sprint(slot))
				cmd.Stderr = os.Stderr
				cmd.Stdout = os.Stdout
				cmd.Env = append(os.Environ(), "GOMAXPROCS=2")
				if err := cmd.Start(); err != nil {
					mu.Lock()
					crashed = append(crashed, fmt.Sprintf("start worker: %v", err))
					mu.Unlock()
					return
				}
				done := make(chan struct{})
				go func() { cmd.Wait(); close(done) }()
				select {
				case <-done:
				case <-time.After(time.Until(hard)):
					cmd.Process.Kill()
					<-done
					mu.Lock()
					watchdog = true
					mu.Unlock()
					return
				}
				if _, err := os.Stat(out); err != nil {
					mu.Lock()
					crashed = append(crashed, fmt.Sprintf("worker result missing (%s): worker crashed (exit %d)", out, cmd.ProcessState.ExitCode()))
					mu.Unlock()
					return
				}
				mu.Lock()
				outs = append(outs, out)
				mu.Unlock()
				if chunk == 0 {
					return
				}
				// stop handing out chunks once a worker reported a violation or harness failure
				if bz, err := os.ReadFile(out); err == nil {
					var r WorkerResult
					if json.Unmarshal(bz, &r) == nil && (len(r.Violations) > 0 || len(r.Harness) > 0) {
						return
					}
				}
			}
		}(i)
	}
	wg.Wait()
	if watchdog {
		fmt.Fprintln(os.Stderr, "watchdog: worker(s) exceeded the hard time limit")
		return 2
	}
	for _, c := range crashed {
		fmt.Fprintln(os.Stderr, c)
	}
	if len(crashed) > 0 {
		return 2
	}
	sort.Strings(outs)
	// merge
	tot := &WorkerResult{MsgOutcomes: map[string]int{}, Faults: map[string]int{}, FaultsConfigured: map[string]int{}, Probes: map[string]int{}, Known: map[string]int{}, KnownSample: map[string]string{}}
	states := map[uint64]struct{}{}
	trans := map[uint64]struct{}{}
	shapes := map[uint64]struct{}{}
	nts := map[uint64]struct{}{}
	for _, outPath := range outs {
		bz, err := os.ReadFile(outPath)
		if err != nil {
			fmt.Fprintf(os.Stderr, "worker result unreadable (%s)\n", outPath)
			return 2
		}
		var r WorkerResult
		if err := json.Unmarshal(bz, &r); err != nil {
			fmt.Fprintln(os.Stderr, "worker result:", err)
			return 2
		}
		tot.Runs += r.Runs
		tot.Steps += r.Steps
		tot.Blocks += r.Blocks
		tot.Txs += r.Txs
		tot.TxOK += r.TxOK
		tot.TxFail += r.TxFail
		tot.TxNotDelivered += r.TxNotDelivered
		tot.SimSeconds += r.SimSeconds
		addMap(tot.MsgOutcomes, r.MsgOutcomes)
		addMap(tot.Faults, r.Faults)
		addMap(tot.FaultsConfigured, r.FaultsConfigured)
		addMap(tot.Probes, r.Probes)
		addMap(tot.Known, r.Known)
		for k, v := range r.KnownSample {
			if _, ok := tot.KnownSample[k]; !ok {
				tot.KnownSample[k] = v
			}
		}
		for _, h := range readU64s(r.StatesFile) {
			states[h] = struct{}{}
		}
		for _, h := range r.TransHashes {
			trans[h] = struct{}{}
		}
		for _, h := range r.Shapes {
			shapes[h] = struct{}{}
		}
		for _, h := range r.NonTrivialShapes {
			nts[h] = struct{}{}
		}
		tot.Violations = append(tot.Violations, r.Violations...)
		tot.Harness = append(tot.Harness, r.Harness...)
		if len(tot.Samples) < 3 {
			tot.Samples = append(tot.Samples, r.Samples...)
		}
	}
	wall := time.Since(t0).Seconds()
	if len(tot.Harness) > 0 {
		for _, h := range tot.Harness {
			fmt.Fprintln(os.Stderr, "HARNESS-FAILURE:", h)
		}
		return 2
	}
	// report
	known := loadFindings()
	seenKnown := map[string]bool{}
	for _, k := range sortedKeys(tot.Known) {
		parts := strings.SplitN(k, "|", 3)
		for _, f := range known {
			if f.Status == "open" && f.Property == parts[0] && f.Rule == parts[1] && f.Signature == parts[2] && !seenKnown[k] {
				seenKnown[k] = true
				fmt.Printf("KNOWN-FINDING: property=%s %s.%s [%s] %s (hit %d times; e.g. %s)\n", f.Property, f.Property, f.Rule, f.Signature, f.What, tot.Known[k], tot.KnownSample[k])
			}
		}
	}
	// dedupe violations by rule+signature
	seenV := map[string]bool{}
	nviol := 0
	for _, v := range tot.Violations {
		k := v.Viol.Rule + "|" + v.Viol.Signature
		if seenV[k] {
			continue
		}
		seenV[k] = true
		nviol++
		fmt.Printf("violation %s.%s [%s] run=%d seed=%d step=%d (minimised %d -> %d steps, %d re-executions): %s\n", v.Viol.Property, v.Viol.Rule, v.Viol.Signature, v.Run, v.Seed, v.Viol.Step, v.FullSteps, v.MinSteps, v.Execs, v.Viol.Message)
		fmt.Printf("VIOLATION property=%s replay=%s\n", v.Viol.Property, v.TracePath)
	}
	writeEvidence(*prop, *tier, vseed, tot, len(states), len(trans), len(shapes), len(nts), wall, nviol, n)
	fmt.Printf("%s %s: runs=%d txs=%d (ok %d, failed %d, not delivered %d) blocks=%d sim_time=%.0fs distinct_states=%d transition_classes=%d run_shapes=%d nontrivial_shapes=%d wall=%.1fs violations=%d known=%d\n",
		*prop, *tier, tot.Runs, tot.Txs, tot.TxOK, tot.TxFail, tot.TxNotDelivered, tot.Blocks, tot.SimSeconds, len(states), len(trans), len(shapes), len(nts), wall, nviol, len(seenKnown))
	if nviol > 0 {
		return 1
	}
	if tot.Runs == 0 {
		fmt.Fprintln(os.Stderr, "no runs executed")
		return 2
	}
	return 0
}

func writeEvidence(prop, tier string, vseed uint64, tot *WorkerResult, states, trans, shapes, nts int, wall float64, nviol int, workers int) {
	meta := engine.PropertyMeta(prop)
	cov := map[string]interface{}{
		"evaluations":                    tot.Runs,
		"distinct_nontrivial":            nts,
		"rule":                           meta.Rule,
		"samples":                        tot.Samples,
		"runs":                           tot.Runs,
		"runs_per_hour":                  float64(tot.Runs) / wall * 3600,
		"seeds_per_hour":                 float64(tot.Runs) / wall * 3600,
		"steps":                          tot.Steps,
		"blocks":                         tot.Blocks,
		"txs_delivered":                  tot.Txs - tot.TxNotDelivered,
		"txs_ok":                         tot.TxOK,
		"txs_failed":                     tot.TxFail,
		"txs_rejected_by_signature_rule": tot.TxNotDelivered,
		"simulated_seconds":              tot.SimSeconds,
		"distinct_states":                states,
		"distinct_transition_classes":    trans,
		"distinct_run_shapes":            shapes,
		"faults_fired":                   tot.Faults,
		"faults_configured":              tot.FaultsConfigured,
		"reach_probes":                   tot.Probes,
		"msg_outcomes":                   tot.MsgOutcomes,
		"known_findings_hit":             tot.Known,
		"workers":                        workers,
		"real_components":                engine.RealComponents,
		"stub_components":                engine.StubComponents,
		"hooks_enabled":                  engine.HooksEnabled,
	}
	if len(tot.Samples) == 0 {
		cov["samples"] = []string{"no non-trivial run in this batch"}
	}
	ev := map[string]interface{}{
		"property_id": prop,
		"tier":        tier,
		"seed":        int64(vseed),
		"level":       "exploration",
		"coverage":    cov,
		"assumptions": meta.Assumptions,
		"wall_s":      wall,
		"violations":  nviol,
	}
	bz, _ := json.MarshalIndent(ev, "", " ")
	os.MkdirAll(filepath.Join(verifDir, "evidence"), 0o755)
	os.WriteFile(filepath.Join(verifDir, "evidence", prop+".json"), bz, 0o644)
}

// ---------------------------------------------------------------- selftest

// selftest: every (property, run) pair must give the same digest in fresh
// processes at GOMAXPROCS 1, 4, 16, and replaying the recorded trace must give
// the digest of the generating run.
func cmdSelftest(args []string) int {
	fs := flag.NewFlagSet("selftest", flag.ExitOnError)
	runs := fs.Uint64("runs", 12, "runs per property")
	props := fs.String("props", "", "comma separated (default all)")
	fs.Parse(args)
	ids := engine.CheckerIDs()
	if *props != "" {
		ids = strings.Split(*props, ",")
	}
	self, _ := os.Executable()
	tmp := filepath.Join(verifDir, "out", "work", fmt.Sprintf("selftest-%d", os.Getpid()))
	os.MkdirAll(tmp, 0o755)
	defer os.RemoveAll(tmp)
	vseed := envU64("VERIF_SEED", 1)
	bad := 0
	total := 0
	for _, id := range ids {
		var results []map[string]string
		for pi, procs := range []int{1, 4, 16, 1} {
			out := filepath.Join(tmp, fmt.Sprintf("%s-%d.json", id, pi))
			cmd := exec.Command(self, "worker", "-prop", id, "-tier", "quick", "-vseed", fmt.Sprint(vseed), "-start", "0", "-stride", "1", "-max", fmt.Sprint(*runs), "-budget", "600", "-out", out, "-digests")
			cmd.Env = append(os.Environ(), fmt.Sprintf("GOMAXPROCS=%d", procs))
			cmd.Stderr = os.Stderr
			if err := cmd.Run(); err != nil {
				fmt.Fprintln(os.Stderr, "selftest worker:", err)
				return 2
			}
			bz, _ := os.ReadFile(out)
			var r WorkerResult
			json.Unmarshal(bz, &r)
			results = append(results, r.Digests)
		}
		for k, d := range results[0] {
			total++
			for i := 1; i < len(results); i++ {
				if results[i][k] != d {
					fmt.Printf("NONDETERMINISM property=%s run=%s: digest %s vs %s (process %d)\n", id, k, d, results[i][k], i)
					bad++
				}
			}
		}
		// generate -> record -> replay digest equality, in-process
		for idx := uint64(0); idx < *runs && idx < 4; idx++ {
			g, err := engine.NewGen(id, "quick", vseed, idx, engine.NewChecker(id))
			if err != nil {
				fmt.Fprintln(os.Stderr, err)
				return 2
			}
			g.Run()
			g.W.Finish()
			p := filepath.Join(tmp, "t.json")
			g.Trace.Save(p)
			tr, err := engine.LoadTrace(p)
			if err != nil {
				fmt.Fprintln(os.Stderr, err)
				return 2
			}
			w, err := engine.ReplayTrace(tr, engine.NewChecker(id))
			if err != nil {
				fmt.Fprintln(os.Stderr, err)
				return 2
			}
			total++
			if w.Stats.Digest != g.W.Stats.Digest {
				fmt.Printf("REPLAY-MISMATCH property=%s run=%d: generated %s replayed %s\n", id, idx, g.W.Stats.Digest, w.Stats.Digest)
				bad++
			}
		}
	}
	fmt.Printf("selftest: %d comparisons, %d mismatches\n", total, bad)
	if bad > 0 {
		return 2
	}
	return 0
}
