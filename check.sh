#!/bin/bash
# Entry point of the deterministic-simulation checks.
#   check.sh <Cxx> quick|thorough     run a property check (rebuilds from /repo's working tree)
#   check.sh replay <trace.json>      re-execute a replay file
#   check.sh selftest [args]          determinism self-test
#   check.sh build                    build only (warms the Go build cache)
# exit 0 = property held on everything explored, 1 = VIOLATION, 2 = machinery failure
export GOFLAGS=-mod=mod GOPROXY=off GOSUMDB=off GOTOOLCHAIN=local
export GOCACHE=${GOCACHE:-/root/.cache/go-build}
ROOT=$(cd "$(dirname "$0")" && pwd)   # /verif, or a snapshot of it (vp run)
export VERIF_DIR=$ROOT
cd "$ROOT/sim" || exit 2
mkdir -p "$ROOT/bin" "$ROOT/out" "$ROOT/evidence"
BIN=$ROOT/bin/simchain.$$
# The registered commands always build against /repo. VERIF_REPO=<dir> (calibration runs only, e.g. from a
# `vp run --with-repo` snapshot) builds against another checkout through a temporary -modfile.
REPO=${VERIF_REPO:-/repo}
build() {
  MODFLAG=""
  if [ "$REPO" = /repo ]; then
    # go.sum = union of /repo's go.sum files (so dependency bumps in /repo are followed)
    cat /repo/go.sum /repo/api/go.sum /repo/types/go.sum /repo/x/data/go.sum /repo/x/ecocredit/go.sum /repo/x/intertx/go.sum 2>/dev/null | sort -u > go.sum.new.$$ && mv go.sum.new.$$ go.sum
  else
    sed "s#=> /repo/#=> $REPO/#" go.mod > $ROOT/out/go.alt.$$.mod
    cat $REPO/go.sum $REPO/api/go.sum $REPO/types/go.sum $REPO/x/data/go.sum $REPO/x/ecocredit/go.sum $REPO/x/intertx/go.sum 2>/dev/null | sort -u > $ROOT/out/go.alt.$$.sum
    MODFLAG="-modfile=$ROOT/out/go.alt.$$.mod"
  fi
  if ! go build $MODFLAG -tags verif -o "$BIN" ./cmd/simchain 2> $ROOT/out/build.$$.log; then
    echo "BUILD FAILED (machinery or /repo does not compile):" >&2
    cat $ROOT/out/build.$$.log >&2
    rm -f $ROOT/out/build.$$.log
    exit 2
  fi
  rm -f $ROOT/out/build.$$.log
}
trap 'rm -f "$BIN" $ROOT/out/go.alt.$$.mod $ROOT/out/go.alt.$$.sum' EXIT
case "$1" in
  build) build; cp "$BIN" "$ROOT/bin/simchain"; exit 0 ;;
  replay) build; shift; "$BIN" replay "$@"; exit $? ;;
  selftest) build; shift; "$BIN" selftest "$@"; exit $? ;;
  C[0-9][0-9]) build; "$BIN" check -prop "$1" -tier "${2:-quick}"; exit $? ;;
  *) echo "usage: check.sh <Cxx> quick|thorough | replay <file> | selftest | build" >&2; exit 2 ;;
esac
