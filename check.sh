#!/bin/bash
# Entry point of the deterministic-simulation checks.
#   check.sh <Cxx> quick|thorough     run a property check (rebuilds from /repo's working tree)
#   check.sh replay <trace.json>      re-execute a replay file
#   check.sh selftest [args]          determinism self-test
#   check.sh build                    build only (warms the Go build cache)
# exit 0 = property held on everything explored, 1 = VIOLATION, 2 = machinery failure
export GOFLAGS=-mod=mod GOPROXY=off GOSUMDB=off GOTOOLCHAIN=local
export GOCACHE=${GOCACHE:-/root/.cache/go-build}
cd /verif/sim || exit 2
mkdir -p /verif/bin /verif/out /verif/evidence
BIN=/verif/bin/simchain.$$
build() {
  # go.sum = union of /repo's go.sum files (so dependency bumps in /repo are followed)
  cat /repo/go.sum /repo/api/go.sum /repo/types/go.sum /repo/x/data/go.sum /repo/x/ecocredit/go.sum /repo/x/intertx/go.sum go.sum.extra 2>/dev/null | sort -u > go.sum.new && mv go.sum.new go.sum
  if ! go build -tags verif -o "$BIN" ./cmd/simchain 2> /verif/out/build.$$.log; then
    echo "BUILD FAILED (machinery or /repo does not compile):" >&2
    cat /verif/out/build.$$.log >&2
    rm -f /verif/out/build.$$.log
    exit 2
  fi
  rm -f /verif/out/build.$$.log
}
trap 'rm -f "$BIN"' EXIT
case "$1" in
  build) build; cp "$BIN" /verif/bin/simchain; exit 0 ;;
  replay) build; shift; "$BIN" replay "$@"; exit $? ;;
  selftest) build; shift; "$BIN" selftest "$@"; exit $? ;;
  C[0-9][0-9]) build; "$BIN" check -prop "$1" -tier "${2:-quick}"; exit $? ;;
  *) echo "usage: check.sh <Cxx> quick|thorough | replay <file> | selftest | build" >&2; exit 2 ;;
esac
