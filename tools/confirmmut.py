#!/usr/bin/env python3
"""Independently confirm a seeded change in its scratch worktree:
   (1) module builds and its existing tests pass with the change,
   (2) the demo test fails with the change, (3) the demo passes without it.
   usage: confirmmut.py /tmp/mut/mNN   -> prints JSON verdict"""
import json, os, subprocess, sys, re, shutil
wt = sys.argv[1]
env = dict(os.environ, GOFLAGS='-mod=mod', GOPROXY='off', GOSUMDB='off', GOTOOLCHAIN='local')
def sh(cmd, cwd, timeout=1500):
    p = subprocess.run(cmd, shell=True, cwd=cwd, env=env, capture_output=True, text=True, timeout=timeout)
    return p.returncode, (p.stdout + p.stderr)[-3000:]
meta = json.load(open(f'{wt}/deliver/meta.json'))
patch = open(f'{wt}/deliver/patch.diff').read()
files = re.findall(r'^\+\+\+ b/(\S+)', patch, re.M)
mods = set()
for f in files:
    for m in ['x/ecocredit', 'x/data', 'x/intertx', 'types', 'api']:
        if f.startswith(m + '/'):
            mods.add(m)
demo = meta.get('demo_test_path', '')
demo = demo.replace(wt + '/', '')
res = {'worktree': wt, 'files': files, 'modules': sorted(mods), 'demo': demo}
# make sure the worktree has change + demo applied
rc, out = sh('git status --short', wt)
res['status'] = out.strip().splitlines()
demodir = os.path.dirname(demo)
mod = sorted(mods)[0] if mods else None
for m in ['x/ecocredit', 'x/data', 'x/intertx', 'types', 'api']:
    if demo.startswith(m + '/'):
        demomod = m
rel = './' + os.path.relpath(demodir, demomod)
demo_src = f'{wt}/deliver/' + os.path.basename(demo)
if not os.path.exists(demo_src):
    cands = [f for f in os.listdir(f'{wt}/deliver') if f.endswith('_test.go')]
    demo_src = f'{wt}/deliver/' + cands[0]
# (1) module tests with change, demo absent
if os.path.exists(f'{wt}/{demo}'):
    os.remove(f'{wt}/{demo}')
ok = True; tails = {}
for m in sorted(mods):
    rc, out = sh('go build ./... && go test -vet=off -count=1 ./...', f'{wt}/{m}')
    tails[m] = out[-400:]
    ok = ok and rc == 0
res['module_tests_pass_with_change'] = ok
res['module_tests_tail'] = tails
# (2) demo with change
shutil.copy(demo_src, f'{wt}/{demo}')
rc, out = sh(f'go test -vet=off -count=1 -run "Seeded|seeded|Demo|demo" {rel}', f'{wt}/{demomod}')
res['demo_with_change_fails'] = rc != 0 and 'FAIL' in out
res['demo_with_change_tail'] = out[-600:]
# (3) demo without change
rc, out = sh('git apply -R deliver/patch.diff', wt)
if rc != 0:
    res['revert_failed'] = out
else:
    try:
        rc, out = sh(f'go test -vet=off -count=1 -run "Seeded|seeded|Demo|demo" {rel}', f'{wt}/{demomod}')
        res['demo_without_change_passes'] = rc == 0
        res['demo_without_change_tail'] = out[-300:]
    finally:
        sh('git apply deliver/patch.diff', wt)
print(json.dumps(res, indent=1))
