#!/bin/bash
# wave.sh <mNN> <budget_s> <prop> [<prop>...] : confirm a sub-agent's seeded change in its worktree, then run the named checks against it
m=$1; budget=$2; shift 2
mkdir -p /verif/out/confirm
python3 /verif/tools/confirmmut.py /tmp/mut/$m > /verif/out/confirm/$m.json 2>&1
python3 -c "
import json;d=json.load(open('/verif/out/confirm/$m.json'));print({k:d[k] for k in d if 'tail' not in k and k not in ('status','worktree')})" || { tail -20 /verif/out/confirm/$m.json; exit 1; }
cp /tmp/mut/$m/deliver/patch.diff /tmp/mut/$m.diff
/verif/tools/evalmut.sh /tmp/mut/$m.diff $budget "$@"
