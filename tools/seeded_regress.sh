#!/bin/bash
# Re-runs every seeded change under /verif/seeded against the check of its property (quick tier).
# usage: seeded_regress.sh [budget_s] [id-prefix]     output: one line per seeded change
budget=${1:-45}; only=${2:-S}
cd "$(dirname "$0")/.."
if ! git -C /repo diff --quiet; then echo "/repo has uncommitted changes" >&2; exit 2; fi
rm -rf out/evidence.keep && cp -r evidence out/evidence.keep
trap 'git -C /repo checkout -- . ; git -C /repo clean -fdq -- x types api; rm -rf evidence; mv out/evidence.keep evidence' EXIT
for d in seeded/${only}*/; do
  id=$(basename $d); prop=$(python3 -c "import json;print(json.load(open('$d/meta.json'))['property'])")
  git -C /repo apply --check "$PWD/$d/patch.diff" 2>/dev/null || { echo "$id $prop PATCH-DOES-NOT-APPLY"; continue; }
  git -C /repo apply "$PWD/$d/patch.diff"
  out=$(VERIF_BUDGET_S=$budget ./check.sh $prop quick 2>&1); rc=$?
  git -C /repo checkout -- . ; git -C /repo clean -fdq -- x types api
  first=$(echo "$out" | grep '^violation' | head -1 | cut -c1-160)
  echo "$id $prop rc=$rc $(echo "$out" | grep -c '^VIOLATION') VIOLATION lines | $first"
done
