#!/bin/bash
# Apply a seeded change to /repo, run the named checks (quick tier), undo it.
# usage: evalmut.sh <patch.diff> <budget_s> <prop> [<prop>...]
patch=$1; budget=$2; shift 2
cd /verif
if ! git -C /repo diff --quiet; then echo "/repo has uncommitted changes" >&2; exit 2; fi
git -C /repo apply --check "$patch" || { echo "patch does not apply" >&2; exit 2; }
git -C /repo apply "$patch"
# evidence files are rewritten by every run: keep the clean-tree ones
rm -rf /verif/out/evidence.keep && cp -r /verif/evidence /verif/out/evidence.keep
trap 'git -C /repo checkout -- . ; git -C /repo clean -fdq -- x types api; rm -rf /verif/evidence; mv /verif/out/evidence.keep /verif/evidence' EXIT
for p in "$@"; do
  out=$(VERIF_BUDGET_S=$budget ./check.sh $p quick 2>&1); rc=$?
  echo "== $p rc=$rc"
  echo "$out" | grep '^violation\|^VIOLATION\|^KNOWN\|HARNESS\|BUILD' | cut -c1-700
  echo "$out" | tail -1 | cut -c1-200
done
