#!/usr/bin/env python3
"""prints the markdown table of DESIGN.md section 12.5 from /verif/seeded/*/meta.json"""
import json, glob, os
rows = []
for f in sorted(glob.glob('/verif/seeded/*/meta.json')):
    m = json.load(open(f))
    need = (m.get('needs_to_manifest') or '').replace('\n', ' ').replace('|', '/')
    if len(need) > 170: need = need[:167] + '…'
    det = (m.get('detection') or '').replace('|', '/')
    rows.append(f"| {m['id']} | {m['property']} | {need} | {m.get('caught_by','')} | {det} |")
print("| seeded change | breaks | needs to manifest | caught by | detection (quick tier unless stated) |")
print("|---|---|---|---|---|")
print("\n".join(rows))
