#!/usr/bin/env python3
"""Generates /verif/MANIFEST.json. Edit CLAIMED / texts here, then run."""
import json, subprocess
BASELINE = json.load(open('/root/.vp/BASELINE.json'))['cmd']
T = "deterministic simulation with fault injection: seeded swarm runs of the real modules under BaseApp, checked step by step against an exact reference oracle; ddmin-minimised replay traces"
CHECKS = {
 "C01": ("exact-rational full-table conservation scan + the chain's batch-supply invariant after every tx/BeginBlock/restart, under gas aborts, bank errors, multi-msg txs (also chained: later messages use what earlier ones created), retries of failed txs, stale views, crashes", "5 C01"),
 "C02": ("ghost ledger of issued amounts per batch vs. stored supply after every step; duplicated/delayed issuing txs, aborts inside issuance loops", "5 C02"),
 "C03": ("frame condition on all balances of all non-signers around every tx and BeginBlock; hostile actors, stale views", "5 C03"),
 "C04": ("monotonicity of retired balances / retired and cancelled supply between all consecutive snapshots incl. failed txs and restarts", "5 C04"),
 "C05": ("bank supply of basket denom == sum of basket balances x 10^precision after every step; put/take/bank-send interleavings with bank faults; registered basket-supply invariant", "5 C05"),
 "C06": ("escrow == sum of open orders per (seller,batch) after every step; order well-formedness; ghost allowed-denom-at-create/update", "5 C06"),
 "C07": ("exact-rational settlement reference for every successful BuyDirect computed from the pre-state (no numeric domain restriction: products beyond 34 digits are judged against the exact values too)", "5 C07"),
 "C08": ("role predicate on pre-state for every accepted message; write frame per message type; seal monotonicity; moving roles, stale views, hostile actors", "5 C08"),
 "C09": ("genesis restart as a fault: export, validate, import into empty chain, re-export, compare, invariants; run continues on the imported chain", "5 C09"),
 "C10": ("three executions per trace with different crash/restart/torn-commit schedules; app hash, results, events, gas equal; raw KV equality around failed txs", "5 C10"),
 "C11": ("admission predicate, oldest-first drain order and auto-retire recomputed from pre-state; clock/batch-date/criterion boundary targeting; faults-stopped liveness probes", "5 C11"),
 "C12": ("post-BeginBlock table check under recover(); clock targeting on/around expirations, long halts, several expiries per block", "5 C12"),
 "C13": ("ghost set of consumed origin txs and contract bindings (also folded by letter case with the oracle's own ASCII fold); duplicated/replayed bridge messages across entry points and classes; letter-case and unicode-lookalike spellings of chain names and contract addresses", "5 C13"),
 "C14": ("ghost sequence counters, repo validators/parsers on every minted id, referential scan after every step; gas-aborted creations; seeded genesis sequences", "5 C14"),
 "C15": ("stateful corollary only: content-hash -> IRI ghost map injective over histories; query round trips", "5 C15, 6"),
 "C16": ("append-only reference model of the five data tables; weak ID hashers forcing collision chains (hook)", "5 C16"),
 "C17": ("every list/single query through the real gRPC router vs. brute-force filter over the decoded snapshot; page walks; mid-block and historical heights", "5 C17"),
 "C18": ("exact fee debit/burn; faults-stopped liveness probes after every accepted parameter change / genesis", "5 C18"),
 "C20": ("real intertx keeper against stub controller/capability/host with channel lifecycle faults; expectations derived from signer and submitted bytes", "5 C20"),
}
NA = {
 "C19": "pure arithmetic library (types/math): a function of its arguments with no schedule, clock, fault, storage or second party; a simulator could only generate operand pairs, which is input generation, not simulation (DESIGN.md section 6). Arithmetic errors visible in system behaviour surface under C01/C02/C05/C07.",
}
CLAIMED = [l.strip() for l in open('/verif/tools/claimed.txt') if l.strip() and not l.startswith('#')]
props = [json.loads(l)['id'] for l in open('/verif/properties.jsonl')]
hooks = subprocess.run(['git','-C','/repo','log','--format=%H','--grep=^verif hook'],capture_output=True,text=True).stdout.split()
m = {
 "version": 1,
 "setup_cmd": "./check.sh build",
 "hooks": {"guard": "verif (Go build tag)", "enable": "go build -tags verif (done by check.sh from the harness module /verif/sim whose replace directives point at /repo)",
           "baseline_off_cmd": BASELINE, "source_commits": hooks, "add_only": True},
 "engines": [{"name": "simchain", "path": "/verif/sim", "serves_properties": CLAIMED,
              "kind_free_text": "deterministic discrete-event simulation of a chain node: real regen-ledger modules + real Cosmos SDK BaseApp/bank/IAVL over a simulated disk; seeded scheduler (own xoshiro PRNG from VERIF_SEED) owns actors, mempool, block clock, gas-limit aborts, bank errors, crashes, torn commits, restarts, genesis restarts; concrete JSON traces, PRNG-free replay, ddmin shrinking"}],
 "checks": [], "not_applicable": [],
 "notes": "One engine, one checker per property. Exit 0 held / 1 VIOLATION / 2 machinery failure. known_findings.json lists genuine defects (open) and fixed ones. See DESIGN.md.",
}
for p in props:
    if p in CLAIMED:
        txt, ref = CHECKS[p]
        m["checks"].append({
          "property_id": p, "quick_cmd": f"./check.sh {p} quick", "thorough_cmd": f"./check.sh {p} thorough",
          "evidence_file": f"/verif/evidence/{p}.json", "replay_cmd_template": "./check.sh replay {path}", "engine": "simchain",
          "level_claimed": {"category": "exploration", "text": "Seeded search over schedules, faults and histories (quick: 60 s, thorough: 15 min on 16 cores); " + txt + ". A clean run is evidence, not proof.", "design_ref": "DESIGN.md section " + ref},
          "level_note": "Trusted base: Cosmos SDK BaseApp/bank/ORM/IAVL (unmodified deps), generated ORM code, the harness' own reference oracles (math/big, never types/math). Ante handler reduced, gov/consensus/IBC stubbed.",
          "technique": T})
    elif p in NA:
        m["not_applicable"].append({"property_id": p, "reason": NA[p]})
    else:
        m["not_applicable"].append({"property_id": p, "reason": "check under construction in this session (see DESIGN.md section 11 build order); not yet claimed"})
json.dump(m, open('/verif/MANIFEST.json','w'), indent=1)
print("claimed:", CLAIMED)
