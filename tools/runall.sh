#!/bin/bash
# runs every claimed check of the given tier sequentially; prints one summary line per check
tier=${1:-quick}
cd "$(dirname "$0")/.."
for p in $(cat tools/claimed.txt); do
  out=$(./check.sh $p $tier 2>&1); rc=$?
  echo "$p rc=$rc $(echo "$out" | grep -c '^VIOLATION') violations, $(echo "$out" | grep -c '^KNOWN-FINDING') known | $(echo "$out" | tail -1 | cut -c1-230)"
  echo "$out" | grep '^VIOLATION\|^violation\|HARNESS' | cut -c1-400
done
