#!/usr/bin/env python3
"""saveseeded.py <worktree> <seeded-id> <caught_by> <detection note> : copy a confirmed seeded change into /verif/seeded/<id>/"""
import json, os, shutil, sys, glob
wt, sid, caught, note = sys.argv[1:5]
dst = f'/verif/seeded/{sid}'
os.makedirs(dst, exist_ok=True)
shutil.copy(f'{wt}/deliver/patch.diff', dst)
for f in glob.glob(f'{wt}/deliver/*_test.go'):
    shutil.copy(f, dst)
meta = json.load(open(f'{wt}/deliver/meta.json'))
conf = {}
cf = f'/verif/out/confirm/{os.path.basename(wt)}.json'
if os.path.exists(cf):
    try:
        c = json.load(open(cf))
        conf = {k: c.get(k) for k in ['module_tests_pass_with_change', 'demo_with_change_fails', 'demo_without_change_passes', 'modules', 'files']}
    except Exception:
        pass
out = {
  'id': sid, 'property': meta.get('property'), 'summary': meta.get('summary'), 'needs_to_manifest': meta.get('needs_to_manifest'),
  'files_touched': meta.get('files_touched'), 'demo_test_path': meta.get('demo_test_path'),
  'author': 'independent sub-agent given only the property text and a scratch worktree',
  'authors_own_checks': meta.get('results'),
  'confirmed_by_me': dict(conf, how='tools/confirmmut.py in the scratch worktree: go build + go test of the touched module with the change (demo absent), demo test with the change (must fail), demo test with the change reverted (must pass)'),
  'what_i_ran': f'tools/evalmut.sh seeded/{sid}/patch.diff <budget> {caught.split(".")[0] if caught!="-" else meta.get("property")}  (git -C /repo apply, ./check.sh <prop> quick, git -C /repo checkout -- .)',
  'caught_by': caught, 'detection': note,
}
json.dump(out, open(f'{dst}/meta.json', 'w'), indent=1)
print('saved', dst)
