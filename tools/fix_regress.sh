#!/bin/bash
# For every "fixed" entry of known_findings.json: take the fix out of /repo's working tree again
# (git revert -n, nothing is committed), run the check of that property, and expect it to report
# the violation again (a fixed entry suppresses nothing). /repo is reset afterwards.
# usage: fix_regress.sh [budget_s]
budget=${1:-60}
cd "$(dirname "$0")/.."
if ! git -C /repo diff --quiet || ! git -C /repo diff --cached --quiet; then echo "/repo has uncommitted changes" >&2; exit 2; fi
rm -rf out/evidence.keep && cp -r evidence out/evidence.keep
trap 'git -C /repo revert --abort 2>/dev/null; git -C /repo reset -q --hard HEAD; rm -rf evidence; mv out/evidence.keep evidence' EXIT
python3 - <<'PY' > out/fixed_list.txt
import json
seen=set()
for f in json.load(open('/verif/known_findings.json'))['findings']:
    if f['status']=='fixed':
        k=(f['commit'],f['property'])
        if k in seen: continue
        seen.add(k); print(f['commit'],f['property'],f['signature'])
PY
while read commit prop sig; do
  if ! git -C /repo revert -n $commit >/dev/null 2>&1; then
    git -C /repo revert --abort 2>/dev/null; git -C /repo reset -q --hard HEAD
    echo "$commit $prop REVERT-CONFLICT ($sig)"; continue
  fi
  out=$(VERIF_BUDGET_S=$budget ./check.sh $prop quick 2>&1); rc=$?
  git -C /repo revert --abort 2>/dev/null; git -C /repo reset -q --hard HEAD
  first=$(echo "$out" | grep '^violation' | head -1 | cut -c1-200)
  echo "$commit $prop rc=$rc $(echo "$out" | grep -c '^VIOLATION') VIOLATION lines ($sig) | $first"
done < out/fixed_list.txt
