package keeper

import (
	"testing"
	"time"

	"github.com/stretchr/testify/require"

	sdk "github.com/cosmos/cosmos-sdk/types"

	api "github.com/regen-network/regen-ledger/api/v2/regen/ecocredit/v1"
	types "github.com/regen-network/regen-ledger/x/ecocredit/v3/base/types/v1"
)

// audit tests for property C13 (bridge safety)

const (
	auditContractX = "0x0e65079a29d7793ab5ca500c2d88e60ee99ba606"
	auditContractY = "0x1111111111111111111111111111111111111111"
	auditTx1       = "0x7a70692a348e8688f54ab2bdfe87d925d8cc88932520492a11eaa02dc1280001"
	auditTx2       = "0x7a70692a348e8688f54ab2bdfe87d925d8cc88932520492a11eaa02dc1280002"
	auditTx3       = "0x7a70692a348e8688f54ab2bdfe87d925d8cc88932520492a11eaa02dc1280003"
	auditEthRecip  = "0x2222222222222222222222222222222222222222"
)

type auditBridgeEnv struct {
	*baseSuite
	admin  sdk.AccAddress
	bridge sdk.AccAddress // class issuer operating the bridge
	holder sdk.AccAddress
}

func setupAuditBridge(t *testing.T, chains ...string) *auditBridgeEnv {
	s := setupBase(t)
	e := &auditBridgeEnv{baseSuite: s, admin: s.authority, bridge: s.addr, holder: s.addr2}

	require.NoError(t, s.stateStore.CreditTypeTable().Insert(s.ctx, &api.CreditType{
		Abbreviation: "C", Name: "carbon", Unit: "t", Precision: 6,
	}))
	cKey, err := s.stateStore.ClassTable().InsertReturningID(s.ctx, &api.Class{
		Id: "C01", Admin: e.admin, CreditTypeAbbrev: "C",
	})
	require.NoError(t, err)
	require.NoError(t, s.stateStore.ClassIssuerTable().Insert(s.ctx, &api.ClassIssuer{
		ClassKey: cKey, Issuer: e.bridge,
	}))
	for _, c := range chains {
		_, err = s.k.AddAllowedBridgeChain(s.ctx, &types.MsgAddAllowedBridgeChain{
			Authority: s.authority.String(), ChainName: c,
		})
		require.NoError(t, err)
	}
	return e
}

func (e *auditBridgeEnv) receive(refID, txID, source, contract, amount string) (*types.MsgBridgeReceiveResponse, error) {
	start := time.Date(2020, 1, 1, 0, 0, 0, 0, time.UTC)
	end := time.Date(2021, 1, 1, 0, 0, 0, 0, time.UTC)
	msg := &types.MsgBridgeReceive{
		Issuer:  e.bridge.String(),
		ClassId: "C01",
		Project: &types.MsgBridgeReceive_Project{
			ReferenceId: refID, Jurisdiction: "US-WA", Metadata: "meta",
		},
		Batch: &types.MsgBridgeReceive_Batch{
			Recipient: e.holder.String(), Amount: amount,
			StartDate: &start, EndDate: &end, Metadata: "meta",
		},
		OriginTx: &types.OriginTx{Id: txID, Source: source, Contract: contract},
	}
	if err := msg.ValidateBasic(); err != nil {
		return nil, err
	}
	return e.k.BridgeReceive(e.ctx, msg)
}

// A receipt whose origin tx names contract X (bound to batch B1) can be minted, through
// Msg/MintBatchCredits, into batch B2 that is bound to another contract Y. The credits that
// came from X are then bridged out with an event naming contract Y.
func TestAuditMintBatchCreditsIgnoresBoundContract(t *testing.T) {
	e := setupAuditBridge(t, "polygon")

	r1, err := e.receive("VCS-001", auditTx1, "polygon", auditContractX, "10")
	require.NoError(t, err)
	r2, err := e.receive("VCS-002", auditTx2, "polygon", auditContractY, "10")
	require.NoError(t, err)
	require.NotEqual(t, r1.BatchDenom, r2.BatchDenom)

	// a later receipt for contract X, but pointed at the batch of contract Y
	mint := &types.MsgMintBatchCredits{
		Issuer:     e.bridge.String(),
		BatchDenom: r2.BatchDenom,
		Issuance: []*types.BatchIssuance{
			{Recipient: e.holder.String(), TradableAmount: "5"},
		},
		OriginTx: &types.OriginTx{Id: auditTx3, Source: "polygon", Contract: auditContractX},
	}
	require.NoError(t, mint.ValidateBasic())
	_, err = e.k.MintBatchCredits(e.ctx, mint)

	// property: a source contract is bound to exactly one batch per class and later receipts
	// for that contract mint into that same batch
	if err == nil {
		b2, err := e.stateStore.BatchTable().GetByDenom(e.ctx, r2.BatchDenom)
		require.NoError(t, err)
		sup, err := e.stateStore.BatchSupplyTable().Get(e.ctx, b2.Key)
		require.NoError(t, err)
		bc, err := e.stateStore.BatchContractTable().Get(e.ctx, b2.Key)
		require.NoError(t, err)
		t.Fatalf("receipt for contract %s was minted into batch %s which is bound to contract %s (tradable supply now %s)",
			auditContractX, r2.BatchDenom, bc.Contract, sup.TradableAmount)
	}
}

// Msg/Bridge lower-cases the target with Unicode case folding while the target is not restricted
// to ASCII: a target written with U+212A (KELVIN SIGN) is not an allowed chain, yet the credits
// are cancelled and the event names that target.
func TestAuditBridgeTargetUnicodeFoldsToAllowedChain(t *testing.T) {
	e := setupAuditBridge(t, "kava")

	r1, err := e.receive("VCS-001", auditTx1, "kava", auditContractX, "10")
	require.NoError(t, err)

	target := "Kava" // "Kava" with KELVIN SIGN instead of the latin capital K
	require.NotEqual(t, "Kava", target)

	// the same spelling is refused as a source chain
	_, err = e.receive("VCS-001", auditTx2, target, auditContractX, "10")
	require.Error(t, err)

	msg := &types.MsgBridge{
		Owner:     e.holder.String(),
		Target:    target,
		Recipient: auditEthRecip,
		Credits:   []*types.Credits{{BatchDenom: r1.BatchDenom, Amount: "3"}},
	}
	require.NoError(t, msg.ValidateBasic())
	_, err = e.k.Bridge(e.ctx, msg)
	require.Error(t, err, "target %q (%x) is not an allowed bridge chain, but the credits were cancelled", target, target)
}

// An account removed from the class issuers keeps bridging credits in (and minting) as long as a
// batch it created is open: the existing-contract path of Msg/BridgeReceive only checks the batch
// issuer.
func TestAuditBridgeReceiveByRemovedClassIssuer(t *testing.T) {
	e := setupAuditBridge(t, "polygon")

	r1, err := e.receive("VCS-001", auditTx1, "polygon", auditContractX, "10")
	require.NoError(t, err)

	upd := &types.MsgUpdateClassIssuers{
		Admin: e.admin.String(), ClassId: "C01", RemoveIssuers: []string{e.bridge.String()},
	}
	require.NoError(t, upd.ValidateBasic())
	_, err = e.k.UpdateClassIssuers(e.ctx, upd)
	require.NoError(t, err)

	// a new contract is refused: the account is no longer a class issuer
	_, err = e.receive("VCS-002", auditTx2, "polygon", auditContractY, "10")
	require.ErrorContains(t, err, "is not an issuer for the class")

	// the known contract must be refused as well
	r3, err := e.receive("VCS-001", auditTx3, "polygon", auditContractX, "7")
	if err == nil {
		b, err := e.stateStore.BatchTable().GetByDenom(e.ctx, r1.BatchDenom)
		require.NoError(t, err)
		sup, err := e.stateStore.BatchSupplyTable().Get(e.ctx, b.Key)
		require.NoError(t, err)
		t.Fatalf("removed class issuer minted into %s through Msg/BridgeReceive (tradable supply now %s)",
			r3.BatchDenom, sup.TradableAmount)
	}
}
