package server_test

// Shared harness for the zz_audit_*_test.go demonstrations.
//
// Everything goes through the real module: real auth + bank keepers, the real
// ecocredit module (base, basket and marketplace keepers over one ORM store),
// the real Msg service router. Every message is ValidateBasic'ed, its signer
// is checked, and it is executed atomically on a cache-wrapped multistore
// (types/testutil/fixture/router.go) exactly like a transaction would be.
// BeginBlock is the module's own BeginBlock.

import (
	"context"
	"encoding/json"
	"testing"
	"time"

	abci "github.com/cometbft/cometbft/abci/types"
	dbm "github.com/cometbft/cometbft-db"
	"github.com/cosmos/cosmos-sdk/crypto/keys/secp256k1"
	"github.com/stretchr/testify/require"

	sdkbase "cosmossdk.io/api/cosmos/base/v1beta1"
	sdkmath "cosmossdk.io/math"

	"github.com/cosmos/cosmos-sdk/codec"
	"github.com/cosmos/cosmos-sdk/orm/model/ormdb"
	"github.com/cosmos/cosmos-sdk/orm/model/ormtable"
	"github.com/cosmos/cosmos-sdk/orm/types/ormjson"
	storetypes "github.com/cosmos/cosmos-sdk/store/types"
	sdk "github.com/cosmos/cosmos-sdk/types"
	sdkmodule "github.com/cosmos/cosmos-sdk/types/module"
	authkeeper "github.com/cosmos/cosmos-sdk/x/auth/keeper"
	authtypes "github.com/cosmos/cosmos-sdk/x/auth/types"
	bankkeeper "github.com/cosmos/cosmos-sdk/x/bank/keeper"
	banktypes "github.com/cosmos/cosmos-sdk/x/bank/types"
	disttypes "github.com/cosmos/cosmos-sdk/x/distribution/types"
	minttypes "github.com/cosmos/cosmos-sdk/x/mint/types"
	paramstypes "github.com/cosmos/cosmos-sdk/x/params/types"
	params "github.com/cosmos/cosmos-sdk/x/params/types/proposal"

	marketapi "github.com/regen-network/regen-ledger/api/v2/regen/ecocredit/marketplace/v1"
	baseapi "github.com/regen-network/regen-ledger/api/v2/regen/ecocredit/v1"
	"github.com/regen-network/regen-ledger/types/v2/ormutil"
	"github.com/regen-network/regen-ledger/types/v2/testutil/fixture"
	"github.com/regen-network/regen-ledger/x/ecocredit/v3"
	basetypes "github.com/regen-network/regen-ledger/x/ecocredit/v3/base/types/v1"
	"github.com/regen-network/regen-ledger/x/ecocredit/v3/basket"
	baskettypes "github.com/regen-network/regen-ledger/x/ecocredit/v3/basket/types/v1"
	"github.com/regen-network/regen-ledger/x/ecocredit/v3/marketplace"
	markettypes "github.com/regen-network/regen-ledger/x/ecocredit/v3/marketplace/types/v1"
	"github.com/regen-network/regen-ledger/x/ecocredit/v3/module"
)

const auditNumSigners = 8

type auditEnv struct {
	t         *testing.T
	fix       fixture.Fixture
	bank      bankkeeper.BaseKeeper
	mod       *module.Module
	signers   []sdk.AccAddress
	authority sdk.AccAddress // == signers[auditNumSigners-1], so that gov messages pass the fixture's signer check
	base      basetypes.MsgClient
	baseQ     basetypes.QueryClient
	market    markettypes.MsgClient
	marketQ   markettypes.QueryClient
	basketM   baskettypes.MsgClient
	now       time.Time
	baseStore baseapi.StateStore
	mktStore  marketapi.StateStore
}

func newAuditEnv(t *testing.T) *auditEnv {
	return newAuditEnvWithGenesis(t, auditGenesis(t))
}

func newAuditEnvWithGenesis(t *testing.T, gen json.RawMessage) *auditEnv {
	ff := fixture.NewFixtureFactory(t, auditNumSigners)
	baseApp := ff.BaseApp()
	cdc := ff.Codec()
	amino := codec.NewLegacyAmino()

	authtypes.RegisterInterfaces(cdc.InterfaceRegistry())
	params.RegisterInterfaces(cdc.InterfaceRegistry())

	authKey := sdk.NewKVStoreKey(authtypes.StoreKey)
	bankKey := sdk.NewKVStoreKey(banktypes.StoreKey)
	distKey := sdk.NewKVStoreKey(disttypes.StoreKey)
	paramsKey := sdk.NewKVStoreKey(paramstypes.StoreKey)
	ecoKey := sdk.NewKVStoreKey(ecocredit.ModuleName)
	tkey := sdk.NewTransientStoreKey(paramstypes.TStoreKey)

	baseApp.MountStore(authKey, storetypes.StoreTypeIAVL)
	baseApp.MountStore(ecoKey, storetypes.StoreTypeIAVL)
	baseApp.MountStore(bankKey, storetypes.StoreTypeIAVL)
	baseApp.MountStore(distKey, storetypes.StoreTypeIAVL)
	baseApp.MountStore(paramsKey, storetypes.StoreTypeIAVL)
	baseApp.MountStore(tkey, storetypes.StoreTypeTransient)

	ecocreditSubspace := paramstypes.NewSubspace(cdc, amino, paramsKey, tkey, ecocredit.ModuleName)

	maccPerms := map[string][]string{
		minttypes.ModuleName:       {authtypes.Minter},
		ecocredit.ModuleName:       {authtypes.Burner},
		basket.BasketSubModuleName: {authtypes.Burner, authtypes.Minter},
		marketplace.FeePoolName:    {authtypes.Burner},
	}

	// same derivation as fixture.makeTestAddresses
	key := secp256k1.GenPrivKeyFromSecret([]byte{byte(auditNumSigners - 1)})
	authority := sdk.AccAddress(key.PubKey().Address())

	accountKeeper := authkeeper.NewAccountKeeper(cdc, authKey, authtypes.ProtoBaseAccount, maccPerms, "regen", authority.String())
	bankKeeper := bankkeeper.NewBaseKeeper(cdc, bankKey, accountKeeper, nil, authority.String())

	mod := module.NewModule(ecoKey, authority, accountKeeper, bankKeeper, ecocreditSubspace, nil)
	mod.RegisterInterfaces(cdc.InterfaceRegistry())
	ff.SetModules([]sdkmodule.AppModule{mod})

	fix := ff.Setup()
	e := &auditEnv{
		t:         t,
		fix:       fix,
		bank:      bankKeeper,
		mod:       mod,
		signers:   fix.Signers(),
		authority: authority,
		base:      basetypes.NewMsgClient(fix.TxConn()),
		baseQ:     basetypes.NewQueryClient(fix.QueryConn()),
		market:    markettypes.NewMsgClient(fix.TxConn()),
		marketQ:   markettypes.NewQueryClient(fix.QueryConn()),
		basketM:   baskettypes.NewMsgClient(fix.TxConn()),
		now:       time.Date(2030, 1, 1, 0, 0, 0, 0, time.UTC),
	}
	require.Equal(t, authority.String(), e.signers[auditNumSigners-1].String())
	e.baseStore, _, e.mktStore = mod.Keeper.GetStateStores()

	_, err := fix.InitGenesis(e.sdkCtx(), map[string]json.RawMessage{ecocredit.ModuleName: gen})
	require.NoError(t, err)
	return e
}

// sdkCtx returns the (uncached) context at the current block time.
func (e *auditEnv) sdkCtx() sdk.Context {
	return sdk.UnwrapSDKContext(e.fix.Context()).WithBlockTime(e.now).WithBlockHeight(10)
}

func (e *auditEnv) ctx() context.Context { return sdk.WrapSDKContext(e.sdkCtx()) }

// beginBlock moves the block time forward and runs the module's BeginBlock.
func (e *auditEnv) beginBlock(at time.Time) {
	e.now = at
	e.mod.BeginBlock(e.sdkCtx(), abci.RequestBeginBlock{})
}

func auditGenesis(t *testing.T) json.RawMessage {
	db := ormutil.NewStoreAdapter(dbm.NewMemDB())
	backend := ormtable.NewBackend(ormtable.BackendOptions{CommitmentStore: db, IndexStore: db})
	modDB, err := ormdb.NewModuleDB(&ecocredit.ModuleSchema, ormdb.ModuleDBOptions{})
	require.NoError(t, err)
	ormCtx := ormtable.WrapContextDefault(backend)
	ss, err := baseapi.NewStateStore(modDB)
	require.NoError(t, err)
	require.NoError(t, ss.CreditTypeTable().Insert(ormCtx, &baseapi.CreditType{
		Abbreviation: "C", Name: "carbon", Unit: "metric ton C02", Precision: 6,
	}))
	require.NoError(t, ss.ClassFeeTable().Save(ormCtx, &baseapi.ClassFee{
		Fee: &sdkbase.Coin{Denom: sdk.DefaultBondDenom, Amount: basetypes.DefaultClassFee.String()},
	}))
	target := ormjson.NewRawMessageTarget()
	require.NoError(t, modDB.ExportJSON(ormCtx, target))
	bz, err := target.JSON()
	require.NoError(t, err)
	return bz
}

func (e *auditEnv) fund(addr sdk.AccAddress, coins ...sdk.Coin) {
	cs := sdk.NewCoins(coins...)
	require.NoError(e.t, e.bank.MintCoins(e.sdkCtx(), minttypes.ModuleName, cs))
	require.NoError(e.t, e.bank.SendCoinsFromModuleToAccount(e.sdkCtx(), minttypes.ModuleName, addr, cs))
}

func (e *auditEnv) coin(addr sdk.AccAddress, denom string) sdkmath.Int {
	return e.bank.GetBalance(e.sdkCtx(), addr, denom).Amount
}

func (e *auditEnv) supply(denom string) sdkmath.Int {
	return e.bank.GetSupply(e.sdkCtx(), denom).Amount
}

func (e *auditEnv) feePool() sdk.AccAddress {
	return authtypes.NewModuleAddress(marketplace.FeePoolName)
}

func (e *auditEnv) allowDenom(denom string) {
	_, err := e.market.AddAllowedDenom(e.ctx(), &markettypes.MsgAddAllowedDenom{
		Authority: e.authority.String(), BankDenom: denom, DisplayDenom: denom, Exponent: 6,
	})
	require.NoError(e.t, err)
}

func (e *auditEnv) setFees(buyer, seller string) {
	_, err := e.market.GovSetFeeParams(e.ctx(), &markettypes.MsgGovSetFeeParams{
		Authority: e.authority.String(),
		Fees:      &markettypes.FeeParams{BuyerPercentageFee: buyer, SellerPercentageFee: seller},
	})
	require.NoError(e.t, err)
}

// newBatch creates a class, a project and an open batch issued by issuer with
// the given tradable amount going to recipient; it returns the batch denom.
func (e *auditEnv) newBatch(issuer, recipient sdk.AccAddress, tradable string) string {
	e.fund(issuer, sdk.NewCoin(sdk.DefaultBondDenom, basetypes.DefaultClassFee))
	fee := sdk.NewCoin(sdk.DefaultBondDenom, basetypes.DefaultClassFee)
	cRes, err := e.base.CreateClass(e.ctx(), &basetypes.MsgCreateClass{
		Admin: issuer.String(), Issuers: []string{issuer.String()}, CreditTypeAbbrev: "C", Fee: &fee,
	})
	require.NoError(e.t, err)
	pRes, err := e.base.CreateProject(e.ctx(), &basetypes.MsgCreateProject{
		Admin: issuer.String(), ClassId: cRes.ClassId, Jurisdiction: "US-NY",
	})
	require.NoError(e.t, err)
	start := time.Date(2020, 1, 1, 0, 0, 0, 0, time.UTC)
	end := time.Date(2021, 1, 1, 0, 0, 0, 0, time.UTC)
	bRes, err := e.base.CreateBatch(e.ctx(), &basetypes.MsgCreateBatch{
		Issuer: issuer.String(), ProjectId: pRes.ProjectId,
		Issuance:  []*basetypes.BatchIssuance{{Recipient: recipient.String(), TradableAmount: tradable}},
		StartDate: &start, EndDate: &end, Open: true, Metadata: "metadata",
	})
	require.NoError(e.t, err)
	return bRes.BatchDenom
}

func (e *auditEnv) credits(addr sdk.AccAddress, batchDenom string) *basetypes.BatchBalanceInfo {
	res, err := e.baseQ.Balance(e.ctx(), &basetypes.QueryBalanceRequest{Address: addr.String(), BatchDenom: batchDenom})
	require.NoError(e.t, err)
	return res.Balance
}
