package server_test

import (
	"math/big"
	"testing"

	"github.com/stretchr/testify/require"

	sdkmath "cosmossdk.io/math"

	sdk "github.com/cosmos/cosmos-sdk/types"

	markettypes "github.com/regen-network/regen-ledger/x/ecocredit/v3/marketplace/types/v1"
)

// C07: "the buyer is debited ... never more than the exact total quantity x ask
// x (1 + buyer fee rate)", "the seller is credited quantity x ask minus the seller
// fee ... within one base unit of the exact value".
//
// getSubTotalCost / getTotalCostAndBuyerFee / getSellerFee multiply with Dec.Mul,
// i.e. in the 34 significant digit decimal128 context with round-half-up. As soon
// as quantity x ask has more than 34 significant digits, the price that is
// actually settled is a ROUNDED price: it can be higher than bid x quantity.
func TestZZAudit1_SubtotalIsRoundedTo34Digits(t *testing.T) {
	e := newAuditEnv(t)
	seller, buyer := e.signers[0], e.signers[1]
	const denom = "ubig"
	e.allowDenom(denom)
	batch := e.newBatch(seller, seller, "10")

	// a 35 digit ask amount, the bid is exactly the ask
	ask, ok := sdkmath.NewIntFromString("99999999999999999999999999999999995")
	require.True(t, ok)
	askCoin := sdk.NewCoin(denom, ask)

	funds, _ := sdkmath.NewIntFromString("300000000000000000000000000000000000")
	e.fund(buyer, sdk.NewCoin(denom, funds))

	sRes, err := e.market.Sell(e.ctx(), &markettypes.MsgSell{
		Seller: seller.String(),
		Orders: []*markettypes.MsgSell_Order{{BatchDenom: batch, Quantity: "2", AskPrice: &askCoin, DisableAutoRetire: true}},
	})
	require.NoError(t, err)

	buyerBefore, sellerBefore := e.coin(buyer, denom), e.coin(seller, denom)

	_, err = e.market.BuyDirect(e.ctx(), &markettypes.MsgBuyDirect{
		Buyer: buyer.String(),
		Orders: []*markettypes.MsgBuyDirect_Order{{
			SellOrderId: sRes.SellOrderIds[0], Quantity: "1", BidPrice: &askCoin, DisableAutoRetire: true,
		}},
	})
	require.NoError(t, err)

	debited := buyerBefore.Sub(e.coin(buyer, denom))
	credited := e.coin(seller, denom).Sub(sellerBefore)
	exact := ask // quantity 1, no fees: the exact total is the ask (= the bid)

	t.Logf("ask = bid  = %s", ask)
	t.Logf("debited    = %s", debited)
	t.Logf("credited   = %s", credited)
	diff := new(big.Int).Sub(debited.BigInt(), exact.BigInt())
	t.Logf("buyer paid %s base units MORE than bid x quantity", diff)

	// the property: never more than the exact total; seller within one base unit
	require.Truef(t, debited.LTE(exact), "C07 violated: buyer debited %s > exact total %s (bid x quantity)", debited, exact)
	require.Truef(t, credited.Sub(exact).Abs().LTE(sdkmath.OneInt()), "C07 violated: seller credited %s, exact %s", credited, exact)
}

// Same cause, opposite direction and a larger magnitude: the seller receives
// 4999 base units less than quantity x ask although no fee is configured.
func TestZZAudit1_SellerIsShortChanged(t *testing.T) {
	e := newAuditEnv(t)
	seller, buyer := e.signers[0], e.signers[1]
	const denom = "ubig"
	e.allowDenom(denom)
	batch := e.newBatch(seller, seller, "10")

	// 38 digits: 1 followed by 33 zeros and 4999
	ask, ok := sdkmath.NewIntFromString("10000000000000000000000000000000004999")
	require.True(t, ok)
	askCoin := sdk.NewCoin(denom, ask)
	e.fund(buyer, sdk.NewCoin(denom, ask.MulRaw(3)))

	sRes, err := e.market.Sell(e.ctx(), &markettypes.MsgSell{
		Seller: seller.String(),
		Orders: []*markettypes.MsgSell_Order{{BatchDenom: batch, Quantity: "2", AskPrice: &askCoin, DisableAutoRetire: true}},
	})
	require.NoError(t, err)
	sellerBefore := e.coin(seller, denom)
	_, err = e.market.BuyDirect(e.ctx(), &markettypes.MsgBuyDirect{
		Buyer: buyer.String(),
		Orders: []*markettypes.MsgBuyDirect_Order{{
			SellOrderId: sRes.SellOrderIds[0], Quantity: "1", BidPrice: &askCoin, DisableAutoRetire: true,
		}},
	})
	require.NoError(t, err)
	credited := e.coin(seller, denom).Sub(sellerBefore)
	t.Logf("ask      = %s", ask)
	t.Logf("credited = %s (short by %s)", credited, ask.Sub(credited))
	require.Truef(t, credited.Sub(ask).Abs().LTE(sdkmath.OneInt()), "C07 violated: seller credited %s for 1 credit at ask %s", credited, ask)
}

// Same cause at everyday magnitudes: a fee rate accepted by MsgGovSetFeeParams
// with 35 significant digits. For a subtotal of 3 the exact buyer fee is
// 0.99999999999999999999999999999999999 (35 nines), i.e. 0 whole units, and
// the exact total is below 4. The handler rounds the fee UP to 1 whole unit:
// it demands max_fee >= 1 and debits 4.
func TestZZAudit1_FeeRoundedUpAcrossAWholeUnit(t *testing.T) {
	e := newAuditEnv(t)
	seller, buyer := e.signers[0], e.signers[1]
	const denom = "uusd"
	e.allowDenom(denom)
	batch := e.newBatch(seller, seller, "10")
	e.setFees("0.33333333333333333333333333333333333", "0") // 35 threes, accepted

	askCoin := sdk.NewInt64Coin(denom, 3)
	e.fund(buyer, sdk.NewInt64Coin(denom, 100))
	sRes, err := e.market.Sell(e.ctx(), &markettypes.MsgSell{
		Seller: seller.String(),
		Orders: []*markettypes.MsgSell_Order{{BatchDenom: batch, Quantity: "2", AskPrice: &askCoin, DisableAutoRetire: true}},
	})
	require.NoError(t, err)

	buy := func(maxFee *sdk.Coin) error {
		_, err := e.market.BuyDirect(e.ctx(), &markettypes.MsgBuyDirect{
			Buyer: buyer.String(),
			Orders: []*markettypes.MsgBuyDirect_Order{{
				SellOrderId: sRes.SellOrderIds[0], Quantity: "1", BidPrice: &askCoin, DisableAutoRetire: true, MaxFeeAmount: maxFee,
			}},
		})
		return err
	}

	// exact buyer fee rounded down to whole units is 0, so max fee 0 covers it
	err = buy(nil)
	t.Logf("max fee absent: %v", err)

	before := e.coin(buyer, denom)
	one := sdk.NewInt64Coin(denom, 1)
	require.NoError(t, buy(&one))
	debited := before.Sub(e.coin(buyer, denom))
	t.Logf("debited %s, exact total 3.99999999999999999999999999999999999", debited)

	// exact total = 3 * 1.33333333333333333333333333333333333 < 4
	exactTimes1e35, _ := new(big.Int).SetString("399999999999999999999999999999999999", 10)
	debitedTimes1e35 := new(big.Int).Mul(debited.BigInt(), new(big.Int).Exp(big.NewInt(10), big.NewInt(35), nil))
	require.Truef(t, debitedTimes1e35.Cmp(exactTimes1e35) <= 0, "C07 violated: buyer debited %s, more than the exact total 3.99999999999999999999999999999999999", debited)
}
