package server_test

// Exploratory randomized differential test: random Sell / UpdateSellOrders /
// CancelSellOrder / BuyDirect / expiry / Send / Retire sequences checked against an
// exact rational model of C03, C06 and C07. Used to hunt for violations in the
// "ordinary" numeric domain (no 34-digit effects).

import (
	"fmt"
	"math/big"
	"math/rand"
	"os"
	"strconv"
	"strings"
	"testing"
	"time"

	"github.com/stretchr/testify/require"

	sdkmath "cosmossdk.io/math"

	sdk "github.com/cosmos/cosmos-sdk/types"

	"google.golang.org/protobuf/proto"

	"github.com/regen-network/regen-ledger/x/ecocredit/v3"
	marketapi "github.com/regen-network/regen-ledger/api/v2/regen/ecocredit/marketplace/v1"
	baseapi "github.com/regen-network/regen-ledger/api/v2/regen/ecocredit/v1"
	basetypes "github.com/regen-network/regen-ledger/x/ecocredit/v3/base/types/v1"
	markettypes "github.com/regen-network/regen-ledger/x/ecocredit/v3/marketplace/types/v1"
)

func ratFromDec(t *testing.T, s string) *big.Rat {
	if s == "" {
		return new(big.Rat)
	}
	r, ok := new(big.Rat).SetString(s)
	require.Truef(t, ok, "cannot read %q as a rational", s)
	return r
}

func floorRat(r *big.Rat) *big.Int {
	q := new(big.Int)
	m := new(big.Int)
	q.DivMod(r.Num(), r.Denom(), m)
	return q
}

type snapshot struct {
	credits map[string][3]*big.Rat // addr|batchKey -> tradable, retired, escrowed
	coins   map[string]*big.Int    // addr|denom
	supply  map[string]*big.Int
	orders  map[uint64]*marketapi.SellOrder
}

type explorer struct {
	*auditEnv
	t       *testing.T
	r       *rand.Rand
	accts   []sdk.AccAddress
	denoms  []string
	batches []string
	keys    map[string]uint64
}

func (x *explorer) snap() *snapshot {
	s := &snapshot{credits: map[string][3]*big.Rat{}, coins: map[string]*big.Int{}, supply: map[string]*big.Int{}, orders: map[uint64]*marketapi.SellOrder{}}
	ctx := x.ctx()
	it, err := x.baseStore.BatchBalanceTable().List(ctx, baseapi.BatchBalancePrimaryKey{})
	require.NoError(x.t, err)
	for it.Next() {
		b, err := it.Value()
		require.NoError(x.t, err)
		s.credits[fmt.Sprintf("%s|%d", sdk.AccAddress(b.Address), b.BatchKey)] = [3]*big.Rat{ratFromDec(x.t, b.TradableAmount), ratFromDec(x.t, b.RetiredAmount), ratFromDec(x.t, b.EscrowedAmount)}
	}
	it.Close()
	all := append([]sdk.AccAddress{}, x.accts...)
	all = append(all, x.feePool())
	for _, a := range all {
		for _, d := range x.denoms {
			s.coins[a.String()+"|"+d] = x.coin(a, d).BigInt()
		}
	}
	for _, d := range x.denoms {
		s.supply[d] = x.supply(d).BigInt()
	}
	oit, err := x.mktStore.SellOrderTable().List(ctx, marketapi.SellOrderPrimaryKey{})
	require.NoError(x.t, err)
	for oit.Next() {
		o, err := oit.Value()
		require.NoError(x.t, err)
		s.orders[o.Id] = o
	}
	oit.Close()
	return s
}

// checkC06 checks escrow == sum of open orders and the per-order clauses.
func (x *explorer) checkC06(s *snapshot, what string) {
	sums := map[string]*big.Rat{}
	for _, o := range s.orders {
		q := ratFromDec(x.t, o.Quantity)
		require.Truef(x.t, q.Sign() > 0, "%s: order %d quantity %s not positive", what, o.Id, o.Quantity)
		scaled := new(big.Rat).Mul(q, big.NewRat(1000000, 1))
		require.Truef(x.t, scaled.IsInt(), "%s: order %d quantity %s beyond precision", what, o.Id, o.Quantity)
		a, ok := new(big.Int).SetString(o.AskAmount, 10)
		require.Truef(x.t, ok && a.Sign() > 0, "%s: order %d ask %s", what, o.Id, o.AskAmount)
		_, err := x.mktStore.MarketTable().Get(x.ctx(), o.MarketId)
		require.NoError(x.t, err)
		_, err = x.baseStore.BatchTable().Get(x.ctx(), o.BatchKey)
		require.NoError(x.t, err)
		k := fmt.Sprintf("%s|%d", sdk.AccAddress(o.Seller), o.BatchKey)
		if sums[k] == nil {
			sums[k] = new(big.Rat)
		}
		sums[k].Add(sums[k], q)
	}
	for k, c := range s.credits {
		want := sums[k]
		if want == nil {
			want = new(big.Rat)
		}
		require.Truef(x.t, c[2].Cmp(want) == 0, "%s: C06 escrow of %s is %s, open orders sum to %s", what, k, c[2].FloatString(6), want.FloatString(6))
	}
	for k := range sums {
		_, ok := s.credits[k]
		require.Truef(x.t, ok, "%s: orders without balance row %s", what, k)
	}
}

var qtySpellings = []func(n int64, r *rand.Rand) string{
	func(n int64, _ *rand.Rand) string { // plain, 6 decimals max
		s := fmt.Sprintf("%d.%06d", n/1000000, n%1000000)
		return s
	},
	func(n int64, _ *rand.Rand) string { return fmt.Sprintf("%de-6", n) },
	func(n int64, _ *rand.Rand) string { return fmt.Sprintf("+%d.%06d", n/1000000, n%1000000) },
	func(n int64, _ *rand.Rand) string {
		s := strings.TrimRight(fmt.Sprintf("%d.%06d", n/1000000, n%1000000), "0")
		return s // may end in "."
	},
	func(n int64, _ *rand.Rand) string {
		if n%1000000 == 0 && (n/1000000)%10 == 0 && n > 0 {
			return fmt.Sprintf("%dE+1", n/10000000)
		}
		return fmt.Sprintf("%d.%06d", n/1000000, n%1000000)
	},
	func(n int64, _ *rand.Rand) string { return fmt.Sprintf("%d.%06dE0", n/1000000, n%1000000) },
	func(n int64, _ *rand.Rand) string { return fmt.Sprintf("0%d.%06d", n/1000000, n%1000000) },
}

func (x *explorer) randQty(max int64) string {
	var n int64
	switch x.r.Intn(4) {
	case 0:
		n = (x.r.Int63n(max/1000000+1) + 1) * 1000000
	case 1:
		n = x.r.Int63n(max) + 1
	case 2:
		n = x.r.Int63n(2000000) + 1
	default:
		n = (x.r.Int63n(20) + 1) * 500000
	}
	return qtySpellings[x.r.Intn(len(qtySpellings))](n, x.r)
}

func (x *explorer) randAmount() sdkmath.Int {
	switch x.r.Intn(4) {
	case 0:
		return sdkmath.NewInt(x.r.Int63n(10) + 1)
	case 1:
		return sdkmath.NewInt(x.r.Int63n(1000000) + 1)
	case 2:
		return sdkmath.NewInt(x.r.Int63n(1000000000000) + 1)
	default:
		return sdkmath.NewInt(int64(x.r.Intn(3)*3 + 1))
	}
}

var feeRates = []string{"0", "", "0.02", "0.005", "0.333333", "1", "0.5", "1e-2", "0.999999", "2.5", "0.0", "+0.1", "00.25"}
var sellerRates = []string{"0", "", "0.02", "0.005", "0.333333", "1", "0.5", "1e-2", "0.999999", "0.0", "+0.1", "00.25", "1.0"}

func TestZZAuditExplore(t *testing.T) {
	seeds := 6
	steps := 400
	if v := os.Getenv("ZZ_SEEDS"); v != "" {
		seeds, _ = strconv.Atoi(v)
	}
	if v := os.Getenv("ZZ_STEPS"); v != "" {
		steps, _ = strconv.Atoi(v)
	}
	for seed := 1; seed <= seeds; seed++ {
		seed := seed
		t.Run(fmt.Sprintf("seed%d", seed), func(t *testing.T) { exploreOnce(t, int64(seed), steps) })
	}
}

func exploreOnce(t *testing.T, seed int64, steps int) {
	e := newAuditEnv(t)
	x := &explorer{auditEnv: e, t: t, r: rand.New(rand.NewSource(seed)), keys: map[string]uint64{}}
	x.accts = e.signers[:4]
	x.denoms = []string{"uregen", "uusd", "ueur"}
	for _, d := range x.denoms[:2] {
		e.allowDenom(d)
	}
	eurAllowed := false
	for i := 0; i < 2; i++ {
		b := e.newBatch(x.accts[i], x.accts[i], "1000")
		x.batches = append(x.batches, b)
		bt, err := e.baseStore.BatchTable().GetByDenom(e.ctx(), b)
		require.NoError(t, err)
		x.keys[b] = bt.Key
		// spread the credits
		for _, a := range x.accts {
			if a.Equals(x.accts[i]) {
				continue
			}
			_, err := e.base.Send(e.ctx(), &basetypes.MsgSend{Sender: x.accts[i].String(), Recipient: a.String(),
				Credits: []*basetypes.MsgSend_SendCredits{{BatchDenom: b, TradableAmount: "200.5"}}})
			require.NoError(t, err)
		}
	}
	for _, a := range x.accts {
		for _, d := range x.denoms {
			e.fund(a, sdk.NewCoin(d, sdkmath.NewInt(1_000_000_000_000_000)))
		}
	}
	buyerRate, sellerRate := "0", "0"
	stats := map[string][2]int{}
	note := func(op string, err error) {
		s := stats[op]
		if err == nil {
			s[0]++
		} else {
			s[1]++
		}
		stats[op] = s
	}

	for step := 0; step < steps; step++ {
		before := x.snap()
		what := fmt.Sprintf("seed %d step %d", seed, step)
		var signer sdk.AccAddress
		var opErr error
		op := x.r.Intn(100)
		var orderIDs []uint64
		for id := range before.orders {
			orderIDs = append(orderIDs, id)
		}
		// deterministic order
		for i := 0; i < len(orderIDs); i++ {
			for j := i + 1; j < len(orderIDs); j++ {
				if orderIDs[j] < orderIDs[i] {
					orderIDs[i], orderIDs[j] = orderIDs[j], orderIDs[i]
				}
			}
		}
		pickOrder := func() uint64 {
			if len(orderIDs) == 0 || x.r.Intn(20) == 0 {
				return uint64(x.r.Intn(50) + 1)
			}
			return orderIDs[x.r.Intn(len(orderIDs))]
		}
		isBuy := false
		var buyMsg *markettypes.MsgBuyDirect
		isExpiry := false
		switch {
		case op < 25: // Sell
			signer = x.accts[x.r.Intn(len(x.accts))]
			n := x.r.Intn(3) + 1
			msg := &markettypes.MsgSell{Seller: signer.String()}
			for i := 0; i < n; i++ {
				ask := sdk.NewCoin(x.denoms[x.r.Intn(len(x.denoms))], x.randAmount())
				o := &markettypes.MsgSell_Order{BatchDenom: x.batches[x.r.Intn(2)], Quantity: x.randQty(300_000_000), AskPrice: &ask, DisableAutoRetire: x.r.Intn(2) == 0}
				if x.r.Intn(3) == 0 {
					ex := e.now.Add(time.Duration(x.r.Intn(7200)-600) * time.Second)
					o.Expiration = &ex
				}
				msg.Orders = append(msg.Orders, o)
			}
			_, opErr = e.market.Sell(e.ctx(), msg)
			note("sell", opErr)
		case op < 40: // Update
			id := pickOrder()
			signer = x.accts[x.r.Intn(len(x.accts))]
			if o, ok := before.orders[id]; ok && x.r.Intn(5) != 0 {
				signer = sdk.AccAddress(o.Seller)
			}
			msg := &markettypes.MsgUpdateSellOrders{Seller: signer.String()}
			n := x.r.Intn(2) + 1
			for i := 0; i < n; i++ {
				ask := sdk.NewCoin(x.denoms[x.r.Intn(len(x.denoms))], x.randAmount())
				u := &markettypes.MsgUpdateSellOrders_Update{SellOrderId: id, NewQuantity: x.randQty(300_000_000), NewAskPrice: &ask, DisableAutoRetire: x.r.Intn(2) == 0}
				if x.r.Intn(3) == 0 {
					ex := e.now.Add(time.Duration(x.r.Intn(7200)-600) * time.Second)
					u.NewExpiration = &ex
				}
				msg.Updates = append(msg.Updates, u)
				if x.r.Intn(2) == 0 {
					id = pickOrder()
				}
			}
			_, opErr = e.market.UpdateSellOrders(e.ctx(), msg)
			note("update", opErr)
		case op < 48: // Cancel
			id := pickOrder()
			signer = x.accts[x.r.Intn(len(x.accts))]
			if o, ok := before.orders[id]; ok && x.r.Intn(4) != 0 {
				signer = sdk.AccAddress(o.Seller)
			}
			_, opErr = e.market.CancelSellOrder(e.ctx(), &markettypes.MsgCancelSellOrder{Seller: signer.String(), SellOrderId: id})
			note("cancel", opErr)
		case op < 80: // Buy
			signer = x.accts[x.r.Intn(len(x.accts))]
			isBuy = true
			buyMsg = &markettypes.MsgBuyDirect{Buyer: signer.String()}
			n := 1
			if x.r.Intn(4) == 0 {
				n = x.r.Intn(3) + 1
			}
			for i := 0; i < n; i++ {
				id := pickOrder()
				bo := &markettypes.MsgBuyDirect_Order{SellOrderId: id, DisableAutoRetire: x.r.Intn(2) == 0, RetirementJurisdiction: "US-NY"}
				var askDenom string
				askAmt := x.randAmount()
				if o, ok := before.orders[id]; ok {
					m, err := e.mktStore.MarketTable().Get(e.ctx(), o.MarketId)
					require.NoError(t, err)
					askDenom = m.BankDenom
					a, _ := sdkmath.NewIntFromString(o.AskAmount)
					askAmt = a
					if x.r.Intn(3) != 0 {
						bo.DisableAutoRetire = bo.DisableAutoRetire && o.DisableAutoRetire
					}
					oq := ratFromDec(t, o.Quantity)
					switch x.r.Intn(5) {
					case 0:
						bo.Quantity = o.Quantity // full, same spelling
					case 1:
						bo.Quantity = oq.FloatString(6) // full, other spelling
					case 2:
						bo.Quantity = new(big.Rat).Add(oq, big.NewRat(1, 1000000)).FloatString(6)
					default:
						bo.Quantity = x.randQty(floorRat(new(big.Rat).Mul(oq, big.NewRat(1000000, 1))).Int64() + 1)
					}
				} else {
					askDenom = x.denoms[x.r.Intn(len(x.denoms))]
					bo.Quantity = x.randQty(1000000)
				}
				switch x.r.Intn(8) {
				case 0:
					askAmt = askAmt.SubRaw(1)
					if !askAmt.IsPositive() {
						askAmt = sdkmath.OneInt()
					}
				case 1:
					askAmt = askAmt.AddRaw(x.r.Int63n(100))
				case 2:
					askDenom = x.denoms[x.r.Intn(len(x.denoms))]
				}
				bid := sdk.NewCoin(askDenom, askAmt)
				bo.BidPrice = &bid
				switch x.r.Intn(4) {
				case 0: // none
				case 1:
					mf := sdk.NewCoin(askDenom, sdkmath.NewInt(x.r.Int63n(1000)))
					bo.MaxFeeAmount = &mf
				default:
					mf := sdk.NewCoin(askDenom, sdkmath.NewInt(1_000_000_000_000_000))
					bo.MaxFeeAmount = &mf
				}
				buyMsg.Orders = append(buyMsg.Orders, bo)
			}
			func() {
				defer func() {
					if r := recover(); r != nil {
						opErr = fmt.Errorf("panic: %v", r)
					}
				}()
				_, opErr = e.market.BuyDirect(e.ctx(), buyMsg)
			}()
			note("buy", opErr)
		case op < 86: // time passes + BeginBlock
			isExpiry = true
			e.beginBlock(e.now.Add(time.Duration(x.r.Intn(1800)+1) * time.Second))
			note("block", nil)
		case op < 90: // fees
			signer = e.authority
			buyerRate, sellerRate = feeRates[x.r.Intn(len(feeRates))], sellerRates[x.r.Intn(len(sellerRates))]
			e.setFees(buyerRate, sellerRate)
		case op < 92: // toggle ueur
			signer = e.authority
			if eurAllowed {
				_, err := e.market.RemoveAllowedDenom(e.ctx(), &markettypes.MsgRemoveAllowedDenom{Authority: e.authority.String(), Denom: "ueur"})
				require.NoError(t, err)
			} else {
				e.allowDenom("ueur")
			}
			eurAllowed = !eurAllowed
		case op < 96: // Send
			signer = x.accts[x.r.Intn(len(x.accts))]
			to := x.accts[x.r.Intn(len(x.accts))]
			_, opErr = e.base.Send(e.ctx(), &basetypes.MsgSend{Sender: signer.String(), Recipient: to.String(),
				Credits: []*basetypes.MsgSend_SendCredits{{BatchDenom: x.batches[x.r.Intn(2)], TradableAmount: x.randQty(50_000_000), RetiredAmount: x.randQty(1_000_000), RetirementJurisdiction: "US-NY"}}})
			note("send", opErr)
		case op < 98: // Retire
			signer = x.accts[x.r.Intn(len(x.accts))]
			_, opErr = e.base.Retire(e.ctx(), &basetypes.MsgRetire{Owner: signer.String(), Jurisdiction: "US-NY",
				Credits: []*basetypes.Credits{{BatchDenom: x.batches[x.r.Intn(2)], Amount: x.randQty(50_000_000)}}})
			note("retire", opErr)
		default: // Cancel credits
			signer = x.accts[x.r.Intn(len(x.accts))]
			_, opErr = e.base.Cancel(e.ctx(), &basetypes.MsgCancel{Owner: signer.String(), Reason: "r",
				Credits: []*basetypes.Credits{{BatchDenom: x.batches[x.r.Intn(2)], Amount: x.randQty(50_000_000)}}})
			note("cancelcredits", opErr)
		}

		after := x.snap()
		x.checkC06(after, what)

		// allowed-denom clause for new / updated orders
		for id, o := range after.orders {
			bo, existed := before.orders[id]
			if existed && bo.MarketId == o.MarketId && bo.AskAmount == o.AskAmount && bo.Quantity == o.Quantity {
				continue
			}
			if opErr == nil && !isBuy && !isExpiry {
				m, err := e.mktStore.MarketTable().Get(e.ctx(), o.MarketId)
				require.NoError(t, err)
				ok, err := e.mktStore.AllowedDenomTable().Has(e.ctx(), m.BankDenom)
				require.NoError(t, err)
				require.Truef(t, ok, "%s: order %d created/updated with denom %s that is not allowed", what, id, m.BankDenom)
			}
		}

		if opErr != nil {
			// failed message: nothing changes at all
			for k, c := range before.credits {
				a := after.credits[k]
				require.Truef(t, a[0].Cmp(c[0]) == 0 && a[1].Cmp(c[1]) == 0 && a[2].Cmp(c[2]) == 0, "%s: failed op changed credits of %s", what, k)
			}
			for k, c := range before.coins {
				require.Truef(t, after.coins[k].Cmp(c) == 0, "%s: failed op changed coins %s", what, k)
			}
			require.Equal(t, len(before.orders), len(after.orders), what)
			continue
		}

		if isExpiry {
			// only escrow -> tradable of the same account, only for expired orders
			for k, c := range before.credits {
				a := after.credits[k]
				sumB := new(big.Rat).Add(c[0], c[2])
				sumA := new(big.Rat).Add(a[0], a[2])
				require.Truef(t, sumA.Cmp(sumB) == 0 && a[1].Cmp(c[1]) == 0 && a[2].Cmp(c[2]) <= 0, "%s: expiry changed holdings of %s", what, k)
			}
			for k, c := range before.coins {
				require.Truef(t, after.coins[k].Cmp(c) == 0, "%s: expiry changed coins %s", what, k)
			}
			for id, o := range before.orders {
				_, still := after.orders[id]
				expired := o.Expiration != nil && !o.Expiration.AsTime().After(e.now)
				require.Equalf(t, !expired, still, "%s: order %d expiration %v now %v", what, id, o.Expiration.AsTime(), e.now)
			}
			continue
		}

		if isBuy {
			x.checkBuy(what, before, after, buyMsg, buyerRate, sellerRate)
			continue
		}

		// C03 for every non-buy message: nobody but the signer loses anything
		for k, c := range before.credits {
			if strings.HasPrefix(k, signer.String()+"|") {
				continue
			}
			a := after.credits[k]
			require.Truef(t, a[0].Cmp(c[0]) >= 0 && a[2].Cmp(c[2]) >= 0 && a[1].Cmp(c[1]) >= 0, "%s: C03 credits of %s decreased by a message of %s", what, k, signer)
		}
		for k, c := range before.coins {
			if strings.HasPrefix(k, signer.String()+"|") {
				continue
			}
			require.Truef(t, after.coins[k].Cmp(c) >= 0, "%s: C03 coins %s decreased by a message of %s", what, k, signer)
		}
	}
	t.Logf("seed %d: %v", seed, stats)

	// restart: export, validate, import into a fresh chain, compare
	final := x.snap()
	gen, err := e.fix.ExportGenesis(e.sdkCtx())
	require.NoError(t, err)
	bz := gen[ecocredit.ModuleName]
	require.NoErrorf(t, e.mod.ValidateGenesis(nil, nil, bz), "seed %d: exported genesis does not validate", seed)
	e2 := newAuditEnvWithGenesis(t, bz)
	e2.now = e.now
	x2 := &explorer{auditEnv: e2, t: t, r: x.r, accts: x.accts, denoms: x.denoms, batches: x.batches, keys: x.keys}
	re := x2.snap()
	require.Equal(t, len(final.credits), len(re.credits))
	for k, c := range final.credits {
		a := re.credits[k]
		require.Truef(t, a[0].Cmp(c[0]) == 0 && a[1].Cmp(c[1]) == 0 && a[2].Cmp(c[2]) == 0, "restart changed %s", k)
	}
	require.Equal(t, len(final.orders), len(re.orders))
	for id, o := range final.orders {
		require.Truef(t, proto.Equal(o, re.orders[id]), "restart changed order %d: %v vs %v", id, o, re.orders[id])
	}
	x2.checkC06(re, "after restart")
	// everything with an expiration expires after the restart, the rest stays
	e2.beginBlock(e2.now.Add(100 * time.Hour))
	exp := x2.snap()
	x2.checkC06(exp, "expiry after restart")
	for id, o := range re.orders {
		_, still := exp.orders[id]
		require.Equalf(t, o.Expiration == nil, still, "order %d after restart + expiry", id)
	}
	// a new order gets a fresh id
	for _, a := range x.accts {
		ask := sdk.NewInt64Coin("uusd", 5)
		res, err := e2.market.Sell(e2.ctx(), &markettypes.MsgSell{Seller: a.String(), Orders: []*markettypes.MsgSell_Order{{BatchDenom: x.batches[0], Quantity: "0.000001", AskPrice: &ask}}})
		if err == nil {
			_, clash := final.orders[res.SellOrderIds[0]]
			require.Falsef(t, clash, "id %d reused", res.SellOrderIds[0])
			break
		}
	}
}

// checkBuy replays a successful MsgBuyDirect on the model and compares every balance.
func (x *explorer) checkBuy(what string, before, after *snapshot, msg *markettypes.MsgBuyDirect, buyerRate, sellerRate string) {
	t := x.t
	rb, rs := ratFromDec(t, buyerRate), ratFromDec(t, sellerRate)
	buyer := sdk.MustAccAddressFromBech32(msg.Buyer)
	// expected state, starting from before
	credits := map[string][3]*big.Rat{}
	for k, c := range before.credits {
		credits[k] = [3]*big.Rat{new(big.Rat).Set(c[0]), new(big.Rat).Set(c[1]), new(big.Rat).Set(c[2])}
	}
	coins := map[string]*big.Int{}
	for k, c := range before.coins {
		coins[k] = new(big.Int).Set(c)
	}
	supply := map[string]*big.Int{}
	for k, c := range before.supply {
		supply[k] = new(big.Int).Set(c)
	}
	orderQty := map[uint64]*big.Rat{}
	for id, o := range before.orders {
		orderQty[id] = ratFromDec(t, o.Quantity)
	}
	get := func(k string) [3]*big.Rat {
		if c, ok := credits[k]; ok {
			return c
		}
		c := [3]*big.Rat{new(big.Rat), new(big.Rat), new(big.Rat)}
		credits[k] = c
		return c
	}
	for i, bo := range msg.Orders {
		o, ok := before.orders[bo.SellOrderId]
		require.Truef(t, ok && orderQty[bo.SellOrderId] != nil, "%s: buy of unknown order %d succeeded", what, bo.SellOrderId)
		seller := sdk.AccAddress(o.Seller)
		require.Falsef(t, seller.Equals(buyer), "%s: self purchase", what)
		require.Falsef(t, bo.DisableAutoRetire && !o.DisableAutoRetire, "%s: auto-retire disabled against the order", what)
		m, err := x.mktStore.MarketTable().Get(x.ctx(), o.MarketId)
		require.NoError(t, err)
		require.Equalf(t, m.BankDenom, bo.BidPrice.Denom, "%s: bid denom", what)
		ask, _ := new(big.Int).SetString(o.AskAmount, 10)
		require.Truef(t, bo.BidPrice.Amount.BigInt().Cmp(ask) >= 0, "%s: bid below ask", what)
		q := ratFromDec(t, bo.Quantity)
		require.Truef(t, q.Sign() > 0 && new(big.Rat).Mul(q, big.NewRat(1000000, 1)).IsInt(), "%s: quantity %s", what, bo.Quantity)
		require.Truef(t, q.Cmp(orderQty[bo.SellOrderId]) <= 0, "%s: bought %s of %s", what, bo.Quantity, orderQty[bo.SellOrderId].FloatString(6))

		sub := new(big.Rat).Mul(q, new(big.Rat).SetInt(ask))
		bf := new(big.Rat).Mul(sub, rb)
		sf := new(big.Rat).Mul(sub, rs)
		fee := floorRat(new(big.Rat).Add(bf, sf))
		pay := floorRat(new(big.Rat).Sub(sub, sf))
		maxFee := big.NewInt(0)
		if bo.MaxFeeAmount != nil {
			require.Equal(t, m.BankDenom, bo.MaxFeeAmount.Denom)
			maxFee = bo.MaxFeeAmount.Amount.BigInt()
		}
		require.Truef(t, maxFee.Cmp(floorRat(bf)) >= 0, "%s: orders[%d] max fee %s does not cover buyer fee %s", what, i, maxFee, bf.FloatString(6))

		// credits
		sk := fmt.Sprintf("%s|%d", seller, o.BatchKey)
		bk := fmt.Sprintf("%s|%d", buyer, o.BatchKey)
		sc := get(sk)
		sc[2].Sub(sc[2], q)
		bc := get(bk)
		if bo.DisableAutoRetire {
			bc[0].Add(bc[0], q)
		} else {
			bc[1].Add(bc[1], q)
		}
		orderQty[bo.SellOrderId].Sub(orderQty[bo.SellOrderId], q)
		if orderQty[bo.SellOrderId].Sign() == 0 {
			delete(orderQty, bo.SellOrderId)
		}
		// coins
		d := m.BankDenom
		coins[buyer.String()+"|"+d].Sub(coins[buyer.String()+"|"+d], new(big.Int).Add(fee, pay))
		coins[seller.String()+"|"+d].Add(coins[seller.String()+"|"+d], pay)
		if d == "uregen" {
			supply[d].Sub(supply[d], fee)
		} else {
			fp := x.feePool().String() + "|" + d
			coins[fp].Add(coins[fp], fee)
		}
		// never more than the exact total
		total := new(big.Rat).Add(sub, bf)
		require.Truef(t, new(big.Rat).SetInt(new(big.Int).Add(fee, pay)).Cmp(total) <= 0, "%s: debited more than exact total", what)
	}
	for k, c := range credits {
		a, ok := after.credits[k]
		if !ok {
			a = [3]*big.Rat{new(big.Rat), new(big.Rat), new(big.Rat)}
		}
		require.Truef(t, a[0].Cmp(c[0]) == 0 && a[1].Cmp(c[1]) == 0 && a[2].Cmp(c[2]) == 0, "%s: C07 credits of %s: have %s/%s/%s want %s/%s/%s", what, k,
			a[0].FloatString(6), a[1].FloatString(6), a[2].FloatString(6), c[0].FloatString(6), c[1].FloatString(6), c[2].FloatString(6))
	}
	for k, c := range coins {
		require.Truef(t, after.coins[k].Cmp(c) == 0, "%s: C07 coins %s: have %s want %s (rates %q %q)", what, k, after.coins[k], c, buyerRate, sellerRate)
	}
	for k, c := range supply {
		require.Truef(t, after.supply[k].Cmp(c) == 0, "%s: C07 supply %s: have %s want %s", what, k, after.supply[k], c)
	}
	require.Equalf(t, len(orderQty), len(after.orders), "%s: open orders", what)
	for id, q := range orderQty {
		o, ok := after.orders[id]
		require.Truef(t, ok, "%s: order %d vanished", what, id)
		require.Truef(t, ratFromDec(t, o.Quantity).Cmp(q) == 0, "%s: order %d quantity %s want %s", what, id, o.Quantity, q.FloatString(6))
	}
}
