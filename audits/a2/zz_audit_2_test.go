package server_test

import (
	"testing"
	"time"

	"github.com/stretchr/testify/require"

	sdk "github.com/cosmos/cosmos-sdk/types"

	basetypes "github.com/regen-network/regen-ledger/x/ecocredit/v3/base/types/v1"
	markettypes "github.com/regen-network/regen-ledger/x/ecocredit/v3/marketplace/types/v1"
)

// C03 / C06: "Block-level processing (order expiry) only moves an account's own
// credits from escrow back to tradable" - here expiry cannot be processed at all:
// PruneSellOrders returns an error, Module.BeginBlock panics on it, and since the
// expired order stays in state every following BeginBlock panics again. One credit
// issuer halts the chain with three ordinary messages.
//
// Ingredients:
//   - a sell order keeps its quantity as spelled ("1e100000": coefficient 1,
//     exponent 100000), while balances are re-spelled with Text('f'), i.e. parsed
//     back with an exponent <= 0;
//   - apd refuses to add/subtract two decimals whose exponents differ by more than
//     100000 ("exponent out of range", apd/decimal.go upscale);
//   - at Sell time the tradable balance is an integer (exponent 0, difference
//     exactly 100000: accepted); afterwards the seller sends 0.1 credit away, the
//     tradable balance gets exponent -1, and unescrowCredits (tradable + quantity)
//     fails from then on - in CancelSellOrder, and in BeginBlock once the order
//     has expired.
func TestZZAudit2_ExpiryOfAnOrderHaltsTheChain(t *testing.T) {
	e := newAuditEnv(t)
	issuer, other := e.signers[0], e.signers[1]
	const denom = "uusd"
	e.allowDenom(denom)

	// the issuer issues 2e100000 credits to itself (issuers choose the amount)
	batch := e.newBatch(issuer, issuer, "2e100000")

	// sell order for 1e100000 credits that expires in an hour
	exp := e.now.Add(time.Hour)
	ask := sdk.NewInt64Coin(denom, 1)
	sRes, err := e.market.Sell(e.ctx(), &markettypes.MsgSell{
		Seller: issuer.String(),
		Orders: []*markettypes.MsgSell_Order{{BatchDenom: batch, Quantity: "1e100000", AskPrice: &ask, Expiration: &exp}},
	})
	require.NoError(t, err)

	// blocks go by without trouble
	require.NotPanics(t, func() { e.beginBlock(e.now.Add(time.Minute)) })

	// the seller sends 0.1 of its remaining tradable credits to somebody
	_, err = e.base.Send(e.ctx(), &basetypes.MsgSend{
		Sender: issuer.String(), Recipient: other.String(),
		Credits: []*basetypes.MsgSend_SendCredits{{BatchDenom: batch, TradableAmount: "0.1"}},
	})
	require.NoError(t, err)

	// the seller can no longer cancel its own order ...
	_, err = e.market.CancelSellOrder(e.ctx(), &markettypes.MsgCancelSellOrder{Seller: issuer.String(), SellOrderId: sRes.SellOrderIds[0]})
	t.Logf("CancelSellOrder: %v", err)

	// ... and when the order expires, BeginBlock panics
	require.NotPanics(t, func() { e.beginBlock(exp.Add(time.Second)) }, "BeginBlock panicked when the sell order expired")
}
