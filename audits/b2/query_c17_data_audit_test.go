package server

import (
	"bytes"
	"strings"
	"testing"
	"time"

	"github.com/stretchr/testify/require"
	"google.golang.org/protobuf/types/known/timestamppb"

	sdk "github.com/cosmos/cosmos-sdk/types"

	api "github.com/regen-network/regen-ledger/api/v2/regen/data/v1"
	"github.com/regen-network/regen-ledger/x/data/v3"
)

// C17: AttestationsByAttestor must return the attestor's attestations with
// values equal to stored state. The all-upper-case spelling of a bech32 address
// is accepted by sdk.AccAddressFromBech32, and the query copies the request
// spelling into every row, so the same attestation is reported with a
// different attestor string than AttestationsByIRI / AttestationsByHash report.
func TestAuditAttestationsByAttestorEchoesRequestSpelling(t *testing.T) {
	s := setupBase(t)

	id := []byte{0}
	ch := &data.ContentHash{Graph: &data.ContentHash_Graph{
		Hash:                      bytes.Repeat([]byte{0}, 32),
		DigestAlgorithm:           uint32(data.DigestAlgorithm_DIGEST_ALGORITHM_BLAKE2B_256),
		CanonicalizationAlgorithm: uint32(data.GraphCanonicalizationAlgorithm_GRAPH_CANONICALIZATION_ALGORITHM_RDFC_1_0),
	}}
	iri, err := ch.ToIRI()
	require.NoError(t, err)
	require.NoError(t, s.server.stateStore.DataIDTable().Insert(s.ctx, &api.DataID{Id: id, Iri: iri}))
	ts := timestamppb.New(time.Date(2022, 1, 1, 0, 0, 0, 0, time.UTC))
	require.NoError(t, s.server.stateStore.DataAnchorTable().Insert(s.ctx, &api.DataAnchor{Id: id, Timestamp: ts}))
	require.NoError(t, s.server.stateStore.DataAttestorTable().Insert(s.ctx, &api.DataAttestor{Id: id, Attestor: s.addrs[0], Timestamp: ts}))

	upper := strings.ToUpper(s.addrs[0].String())
	got, err := sdk.AccAddressFromBech32(upper)
	require.NoError(t, err)
	require.True(t, got.Equals(s.addrs[0]))

	byIRI, err := s.server.AttestationsByIRI(s.ctx, &data.QueryAttestationsByIRIRequest{Iri: iri})
	require.NoError(t, err)
	require.Len(t, byIRI.Attestations, 1)

	res, err := s.server.AttestationsByAttestor(s.ctx, &data.QueryAttestationsByAttestorRequest{Attestor: upper})
	require.NoError(t, err)
	require.Len(t, res.Attestations, 1)
	require.Equal(t, byIRI.Attestations[0], res.Attestations[0], "AttestationsByAttestor row differs from AttestationsByIRI row for the same attestation")
}
