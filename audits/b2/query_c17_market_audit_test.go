package keeper

import (
	"strings"
	"testing"

	"github.com/stretchr/testify/require"

	sdk "github.com/cosmos/cosmos-sdk/types"

	types "github.com/regen-network/regen-ledger/x/ecocredit/v3/marketplace/types/v1"
)

// C17: SellOrdersBySeller must return the seller's orders with values equal to
// stored state. The all-upper-case spelling of a bech32 address is accepted by
// sdk.AccAddressFromBech32, and the query copies the request spelling into
// every row, so the same order is reported with a different seller string than
// SellOrder / SellOrders / SellOrdersByBatch report.
func TestAuditSellOrdersBySellerEchoesRequestSpelling(t *testing.T) {
	s := setupBase(t, 1)
	s.testSellSetup(batchDenom, ask.Denom, ask.Denom[1:], classID, start, end, creditType)
	order := insertSellOrder(t, s, s.addrs[0], 1)

	upper := strings.ToUpper(s.addrs[0].String())
	got, err := sdk.AccAddressFromBech32(upper)
	require.NoError(t, err)
	require.True(t, got.Equals(s.addrs[0]))

	one, err := s.k.SellOrder(s.ctx, &types.QuerySellOrderRequest{SellOrderId: order.Id})
	require.NoError(t, err)

	res, err := s.k.SellOrdersBySeller(s.ctx, &types.QuerySellOrdersBySellerRequest{Seller: upper})
	require.NoError(t, err)
	require.Len(t, res.SellOrders, 1)
	require.Equal(t, one.SellOrder, res.SellOrders[0], "SellOrdersBySeller row differs from SellOrder query for the same order")
}
