package keeper

import (
	"fmt"
	"strings"
	"testing"
	"time"

	"github.com/stretchr/testify/assert"
	"github.com/stretchr/testify/require"
	"google.golang.org/protobuf/types/known/timestamppb"

	"github.com/cosmos/cosmos-sdk/orm/model/ormdb"
	"github.com/cosmos/cosmos-sdk/orm/model/ormtable"
	"github.com/cosmos/cosmos-sdk/orm/testing/ormtest"
	"github.com/cosmos/cosmos-sdk/orm/types/ormjson"
	sdk "github.com/cosmos/cosmos-sdk/types"
	"github.com/cosmos/cosmos-sdk/types/query"

	api "github.com/regen-network/regen-ledger/api/v2/regen/ecocredit/v1"
	"github.com/regen-network/regen-ledger/x/ecocredit/v3"
	types "github.com/regen-network/regen-ledger/x/ecocredit/v3/base/types/v1"
	"github.com/regen-network/regen-ledger/x/ecocredit/v3/genesis"
)

// auditSeed inserts one class, one project and n batches the way the message
// server would (project id derived from class id, denom derived from project id).
func auditSeed(t *testing.T, s *baseSuite, n int) {
	t.Helper()
	require.NoError(t, s.stateStore.CreditTypeTable().Insert(s.ctx, &api.CreditType{Abbreviation: "C", Name: "carbon", Unit: "t", Precision: 6}))
	ck, err := s.stateStore.ClassTable().InsertReturningID(s.ctx, &api.Class{Id: "C01", Admin: s.addr, CreditTypeAbbrev: "C"})
	require.NoError(t, err)
	pk, err := s.stateStore.ProjectTable().InsertReturningID(s.ctx, &api.Project{
		Id: "C01-001", Admin: s.addr, ClassKey: ck, Jurisdiction: "US", Metadata: "m", ReferenceId: "R1",
	})
	require.NoError(t, err)
	start := time.Date(2020, 1, 1, 0, 0, 0, 0, time.UTC)
	end := time.Date(2021, 1, 1, 0, 0, 0, 0, time.UTC)
	for i := 1; i <= n; i++ {
		require.NoError(t, s.stateStore.BatchTable().Insert(s.ctx, &api.Batch{
			Issuer: s.addr, ProjectKey: pk, Denom: fmt.Sprintf("C01-001-20200101-20210101-%03d", i), Metadata: "m",
			StartDate: timestamppb.New(start), EndDate: timestamppb.New(end), IssuanceDate: timestamppb.New(end),
		}))
	}
}

// C17: a list query must return the matching entities with values equal to
// stored state. sdk.AccAddressFromBech32 accepts the all-upper-case spelling of
// a bech32 address (valid per BIP-173), and ProjectsByAdmin / BatchesByIssuer
// copy the request spelling into every returned row instead of the stored
// address, so the very same project/batch is reported with a different admin /
// issuer than Project / Batch / ProjectsByClass / BatchesByClass report.
func TestAuditUpperCaseBech32FilterIsEchoedIntoRows(t *testing.T) {
	s := setupBase(t)
	auditSeed(t, s, 1)

	upper := strings.ToUpper(s.addr.String())
	// the spelling is accepted and denotes the same account
	got, err := sdk.AccAddressFromBech32(upper)
	require.NoError(t, err)
	require.True(t, got.Equals(s.addr))

	// ground truth from the single-entity queries
	pr, err := s.k.Project(s.ctx, &types.QueryProjectRequest{ProjectId: "C01-001"})
	require.NoError(t, err)
	br, err := s.k.Batch(s.ctx, &types.QueryBatchRequest{BatchDenom: "C01-001-20200101-20210101-001"})
	require.NoError(t, err)

	// sanity: ClassesByAdmin (which canonicalises) is fine with the same spelling
	cr, err := s.k.ClassesByAdmin(s.ctx, &types.QueryClassesByAdminRequest{Admin: upper})
	require.NoError(t, err)
	require.Len(t, cr.Classes, 1)
	require.Equal(t, s.addr.String(), cr.Classes[0].Admin)

	pa, err := s.k.ProjectsByAdmin(s.ctx, &types.QueryProjectsByAdminRequest{Admin: upper})
	require.NoError(t, err)
	require.Len(t, pa.Projects, 1)
	bi, err := s.k.BatchesByIssuer(s.ctx, &types.QueryBatchesByIssuerRequest{Issuer: upper})
	require.NoError(t, err)
	require.Len(t, bi.Batches, 1)

	// the rows must equal stored state (as every other query reports it)
	assert.Equal(t, pr.Project, pa.Projects[0], "ProjectsByAdmin row differs from Project query for the same project")
	assert.Equal(t, br.Batch, bi.Batches[0], "BatchesByIssuer row differs from Batch query for the same batch")
}

// C17: walking the pages of a list query must report a correct total. With
// key-based paging and count_total=true, only the first page reports the total
// number of matching rows; every later page reports the number of rows that
// are left from the page key onwards (5, 3, 1 for five batches and limit 2),
// neither the total nor "not counted" (0).
func TestAuditCountTotalWithPageKeyReportsRemainingRows(t *testing.T) {
	s := setupBase(t)
	const n = 5
	auditSeed(t, s, n)

	var key []byte
	var seen int
	var totals []uint64
	for page := 0; page < 10; page++ {
		res, err := s.k.BatchesByClass(s.ctx, &types.QueryBatchesByClassRequest{
			ClassId:    "C01",
			Pagination: &query.PageRequest{Key: key, Limit: 2, CountTotal: true},
		})
		require.NoError(t, err)
		seen += len(res.Batches)
		totals = append(totals, res.Pagination.Total)
		key = res.Pagination.NextKey
		if len(key) == 0 {
			break
		}
	}
	require.Equal(t, n, seen) // every element exactly once: fine
	for i, total := range totals {
		// a total that is reported must be the number of batches of the class;
		// 0 ("count_total ignored when key is set", as in the SDK) is tolerated
		if total != 0 {
			require.Equal(t, uint64(n), total, "page %d: totals over the walk were %v", i, totals)
		}
	}
}

// C17: BatchesByClass must return exactly the batches whose class (batch ->
// project -> class, which is what Batch/Project/BatchesByProject/ProjectsByClass
// report) is the requested one. It selects by the spelling of the denom instead
// (prefix class.Id + "-"). Nothing ties the two together in a genesis file:
// ValidateGenesis accepts a project "C01-001" whose class_key is that of class
// C02, so after InitGenesis the batch is listed under the wrong class and is
// missing from its own.
func TestAuditBatchesByClassUsesDenomSpellingNotClassKey(t *testing.T) {
	// build the state in a scratch db, export it and have it validated as genesis
	ormCtx := ormtable.WrapContextDefault(ormtest.NewMemoryBackend())
	modDB, err := ormdb.NewModuleDB(&ecocredit.ModuleSchema, ormdb.ModuleDBOptions{})
	require.NoError(t, err)
	ss, err := api.NewStateStore(modDB)
	require.NoError(t, err)

	admin := sdk.AccAddress("addr1_______________")
	require.NoError(t, ss.CreditTypeTable().Insert(ormCtx, &api.CreditType{Abbreviation: "C", Name: "carbon", Unit: "t", Precision: 6}))
	c1, err := ss.ClassTable().InsertReturningID(ormCtx, &api.Class{Id: "C01", Admin: admin, CreditTypeAbbrev: "C"})
	require.NoError(t, err)
	c2, err := ss.ClassTable().InsertReturningID(ormCtx, &api.Class{Id: "C02", Admin: admin, CreditTypeAbbrev: "C"})
	require.NoError(t, err)
	require.NotEqual(t, c1, c2)
	// project named after C01 but belonging to C02
	pk, err := ss.ProjectTable().InsertReturningID(ormCtx, &api.Project{Id: "C01-001", Admin: admin, ClassKey: c2, Jurisdiction: "US"})
	require.NoError(t, err)
	start := time.Date(2020, 1, 1, 0, 0, 0, 0, time.UTC)
	end := time.Date(2021, 1, 1, 0, 0, 0, 0, time.UTC)
	const denom = "C01-001-20200101-20210101-001"
	bk, err := ss.BatchTable().InsertReturningID(ormCtx, &api.Batch{
		Issuer: admin, ProjectKey: pk, Denom: denom, Metadata: "m",
		StartDate: timestamppb.New(start), EndDate: timestamppb.New(end), IssuanceDate: timestamppb.New(end),
	})
	require.NoError(t, err)
	require.NoError(t, ss.BatchSupplyTable().Insert(ormCtx, &api.BatchSupply{BatchKey: bk, TradableAmount: "10", RetiredAmount: "0", CancelledAmount: "0"}))
	require.NoError(t, ss.BatchBalanceTable().Insert(ormCtx, &api.BatchBalance{BatchKey: bk, Address: admin, TradableAmount: "10", RetiredAmount: "0", EscrowedAmount: "0"}))
	require.NoError(t, ss.ClassCreatorAllowlistTable().Save(ormCtx, &api.ClassCreatorAllowlist{Enabled: false}))

	target := ormjson.NewRawMessageTarget()
	require.NoError(t, modDB.ExportJSON(ormCtx, target))
	genesisJSON, err := target.JSON()
	require.NoError(t, err)
	require.NoError(t, genesis.ValidateGenesis(genesisJSON), "the genesis file is accepted")

	// import the accepted genesis into a keeper
	s := setupBase(t)
	source, err := ormjson.NewRawMessageSource(genesisJSON)
	require.NoError(t, err)
	require.NoError(t, s.db.ImportJSON(s.ctx, source))

	// every relational query says: the batch belongs to project C01-001 of class C02
	pr, err := s.k.Project(s.ctx, &types.QueryProjectRequest{ProjectId: "C01-001"})
	require.NoError(t, err)
	require.Equal(t, "C02", pr.Project.ClassId)
	pc, err := s.k.ProjectsByClass(s.ctx, &types.QueryProjectsByClassRequest{ClassId: "C02"})
	require.NoError(t, err)
	require.Len(t, pc.Projects, 1)
	bp, err := s.k.BatchesByProject(s.ctx, &types.QueryBatchesByProjectRequest{ProjectId: "C01-001"})
	require.NoError(t, err)
	require.Len(t, bp.Batches, 1)

	r2, err := s.k.BatchesByClass(s.ctx, &types.QueryBatchesByClassRequest{ClassId: "C02"})
	require.NoError(t, err)
	r1, err := s.k.BatchesByClass(s.ctx, &types.QueryBatchesByClassRequest{ClassId: "C01"})
	require.NoError(t, err)
	require.Len(t, r2.Batches, 1, "the batch of class C02 is missing from BatchesByClass(C02)")
	require.Empty(t, r1.Batches, "a batch of class C02 is listed by BatchesByClass(C01)")
}
