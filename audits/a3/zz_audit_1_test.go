package tests

import (
	"testing"
	"time"

	"github.com/stretchr/testify/require"

	sdk "github.com/cosmos/cosmos-sdk/types"

	basetypes "github.com/regen-network/regen-ledger/x/ecocredit/v3/base/types/v1"
	markettypes "github.com/regen-network/regen-ledger/x/ecocredit/v3/marketplace/types/v1"
)

// NOTE: uses the shared full-stack environment in zz_audit_env_test.go (same package).

// C12 - "Begin-block processing never returns an error or panics in any
// reachable state."
//
// The decimal library refuses to align two operands whose exponents differ by
// more than 100000 (apd.MaxExponent). Balances are stored in plain notation
// (exponent <= 0), but the quantity of a sell order is stored as spelled. A sell
// order for "1e100000" credits can be created while the seller's balances are
// whole numbers (exponent difference is exactly 100000); once the seller's
// tradable balance has a fractional part (someone sends them 0.000001 credits of
// the batch) the difference is 100006 and the un-escrow of the expired order in
// BeginBlock fails. The module's BeginBlock panics on that error, on every node,
// in every block from then on: the chain halts.
//
// Everything is done with ordinary transactions: any class issuer can issue any
// amount (there is no upper bound on issuance), the messages are tiny
// ("1e100000" is 8 characters).
func TestZZAudit1_BeginBlockPanicsOnHugeExponentSellOrder(t *testing.T) {
	t0 := time.Date(2026, 1, 1, 0, 0, 0, 0, time.UTC)
	e := newAuditEnv(t, 3, t0)
	issuer, seller, other := e.signers[0], e.signers[1], e.signers[2]

	_, projectID := e.createClassProject(issuer)
	start := time.Date(2020, 1, 1, 0, 0, 0, 0, time.UTC)
	end := time.Date(2021, 1, 1, 0, 0, 0, 0, time.UTC)
	batchDenom := e.createBatch(issuer, projectID, start, end,
		&basetypes.BatchIssuance{Recipient: seller.String(), TradableAmount: "1e100000"},
		&basetypes.BatchIssuance{Recipient: other.String(), TradableAmount: "0.000001"},
	)

	// the seller puts everything up for sale, the order expires one hour later
	expiration := t0.Add(time.Hour)
	ask := sdk.NewInt64Coin("uregen", 1)
	sellRes, err := e.market.Sell(e.sdkCtx, &markettypes.MsgSell{
		Seller: seller.String(),
		Orders: []*markettypes.MsgSell_Order{{
			BatchDenom: batchDenom, Quantity: "1e100000", AskPrice: &ask, Expiration: &expiration,
		}},
	})
	require.NoError(t, err)
	require.Len(t, sellRes.SellOrderIds, 1)

	// a block in between: nothing expires, BeginBlock is fine
	require.NoError(t, e.beginBlock(t0.Add(time.Minute)))

	// somebody sends the seller the smallest unit of the same batch
	_, err = e.base.Send(e.sdkCtx, &basetypes.MsgSend{
		Sender: other.String(), Recipient: seller.String(),
		Credits: []*basetypes.MsgSend_SendCredits{{BatchDenom: batchDenom, TradableAmount: "0.000001"}},
	})
	require.NoError(t, err)

	// the block in which the order expires
	err = e.beginBlock(expiration)
	require.NoError(t, err, "C12: BeginBlock must never fail; the expired order cannot be un-escrowed")

	// (not reached on the original code) the order is gone and the seller has
	// everything back
	_, err = e.marketQ.SellOrder(e.sdkCtx, &markettypes.QuerySellOrderRequest{SellOrderId: sellRes.SellOrderIds[0]})
	require.Error(t, err)
}
