package tests

import (
	"testing"
	"time"

	"github.com/stretchr/testify/require"

	sdk "github.com/cosmos/cosmos-sdk/types"

	basetypes "github.com/regen-network/regen-ledger/x/ecocredit/v3/base/types/v1"
	baskettypes "github.com/regen-network/regen-ledger/x/ecocredit/v3/basket/types/v1"
)

// C11 - "Put ... does succeed when these hold and the owner has the credits"
// C05 - scope "all amounts (smallest unit, mixed precisions, very large totals)"
//
// Put converts the credit amount to tokens with Dec.MulExact and Take converts the
// token amount to credits with Dec.QuoExact. Both work in the 34 digit decimal128
// context and return ErrUnexpectedRounding as soon as the coefficient needs more
// than 34 digits - even when the digits that do not fit are all zero, i.e. when
// nothing would be lost. Balances themselves are kept with arbitrary precision, so
// such amounts are ordinary, reachable holdings.
//
//   - Put of "10000000000000000000000000000000000" (10^34 written out, 35 digits)
//     is rejected although class, type and date criteria hold and the owner has the
//     credits; the very same amount spelled "1e34" is accepted.
//   - after a second Put of 1 credit the basket holds 10^34+1 credits and the owner
//     all (10^34+1)*10^6 tokens; Take of that balance is rejected although the owner
//     has the tokens and the basket has the credits (35 significant digits).
func TestZZAudit2_PutTakeFailBeyond34Digits(t *testing.T) {
	t0 := time.Date(2026, 1, 1, 0, 0, 0, 0, time.UTC)
	e := newAuditEnv(t, 2, t0)
	issuer, owner := e.signers[0], e.signers[1]

	classID, projectID := e.createClassProject(issuer)
	start := time.Date(2020, 1, 1, 0, 0, 0, 0, time.UTC)
	end := time.Date(2021, 1, 1, 0, 0, 0, 0, time.UTC)
	const tenTo34 = "10000000000000000000000000000000000" // 35 digits
	batchDenom := e.createBatch(issuer, projectID, start, end,
		&basetypes.BatchIssuance{Recipient: owner.String(), TradableAmount: tenTo34},
		&basetypes.BatchIssuance{Recipient: owner.String(), TradableAmount: "1"},
	)

	cRes, err := e.basket.Create(e.sdkCtx, &baskettypes.MsgCreate{
		Curator: owner.String(), Name: "BIG", DisableAutoRetire: true,
		CreditTypeAbbrev: "C", AllowedClasses: []string{classID},
	})
	require.NoError(t, err)
	basketDenom := cRes.BasketDenom

	bal, err := e.baseQ.Balance(e.sdkCtx, &basetypes.QueryBalanceRequest{Address: owner.String(), BatchDenom: batchDenom})
	require.NoError(t, err)
	require.Equal(t, "10000000000000000000000000000000001", bal.Balance.TradableAmount)

	var failures []string

	// 1. Put of 10^34 credits, written out
	_, err = e.basket.Put(e.sdkCtx, &baskettypes.MsgPut{
		Owner: owner.String(), BasketDenom: basketDenom,
		Credits: []*baskettypes.BasketCredit{{BatchDenom: batchDenom, Amount: tenTo34}},
	})
	if err != nil {
		failures = append(failures, "Put "+tenTo34+": "+err.Error())
		// the same number in scientific notation is accepted
		_, err = e.basket.Put(e.sdkCtx, &baskettypes.MsgPut{
			Owner: owner.String(), BasketDenom: basketDenom,
			Credits: []*baskettypes.BasketCredit{{BatchDenom: batchDenom, Amount: "1e34"}},
		})
		require.NoError(t, err, "the same amount spelled 1e34 is accepted")
	}

	// 2. one more credit: the basket holds 10^34+1 credits
	_, err = e.basket.Put(e.sdkCtx, &baskettypes.MsgPut{
		Owner: owner.String(), BasketDenom: basketDenom,
		Credits: []*baskettypes.BasketCredit{{BatchDenom: batchDenom, Amount: "1"}},
	})
	require.NoError(t, err)

	tokens := e.bank.GetBalance(e.sdkCtx, owner, basketDenom)
	expTokens, ok := sdk.NewIntFromString("10000000000000000000000000000000001000000")
	require.True(t, ok)
	require.True(t, tokens.Amount.Equal(expTokens), tokens.String())
	require.True(t, e.bank.GetSupply(e.sdkCtx, basketDenom).Amount.Equal(expTokens))

	// 3. Take of everything the owner has
	_, err = e.basket.Take(e.sdkCtx, &baskettypes.MsgTake{
		Owner: owner.String(), BasketDenom: basketDenom, Amount: expTokens.String(),
	})
	if err != nil {
		failures = append(failures, "Take "+expTokens.String()+": "+err.Error())
		// the holder has to split the amount by hand
		_, err = e.basket.Take(e.sdkCtx, &baskettypes.MsgTake{
			Owner: owner.String(), BasketDenom: basketDenom, Amount: "10000000000000000000000000000000000000000",
		})
		require.NoError(t, err)
		_, err = e.basket.Take(e.sdkCtx, &baskettypes.MsgTake{
			Owner: owner.String(), BasketDenom: basketDenom, Amount: "1000000",
		})
		require.NoError(t, err)
	}
	require.True(t, e.bank.GetSupply(e.sdkCtx, basketDenom).Amount.IsZero())

	require.Empty(t, failures, "C11/C05: Put and Take must work for every amount the owner holds")
}
