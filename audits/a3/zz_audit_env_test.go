package tests

import (
	"encoding/json"
	"fmt"
	"testing"
	"time"

	dbm "github.com/cometbft/cometbft-db"
	abci "github.com/cometbft/cometbft/abci/types"
	"github.com/stretchr/testify/require"

	"github.com/cosmos/cosmos-sdk/codec"
	"github.com/cosmos/cosmos-sdk/orm/model/ormdb"
	"github.com/cosmos/cosmos-sdk/orm/model/ormtable"
	"github.com/cosmos/cosmos-sdk/orm/types/ormjson"
	storetypes "github.com/cosmos/cosmos-sdk/store/types"
	"github.com/cosmos/cosmos-sdk/testutil/testdata"
	sdk "github.com/cosmos/cosmos-sdk/types"
	sdkmodules "github.com/cosmos/cosmos-sdk/types/module"
	authkeeper "github.com/cosmos/cosmos-sdk/x/auth/keeper"
	authtypes "github.com/cosmos/cosmos-sdk/x/auth/types"
	bankkeeper "github.com/cosmos/cosmos-sdk/x/bank/keeper"
	banktypes "github.com/cosmos/cosmos-sdk/x/bank/types"
	disttypes "github.com/cosmos/cosmos-sdk/x/distribution/types"
	govtypes "github.com/cosmos/cosmos-sdk/x/gov/types"
	minttypes "github.com/cosmos/cosmos-sdk/x/mint/types"
	paramstypes "github.com/cosmos/cosmos-sdk/x/params/types"
	params "github.com/cosmos/cosmos-sdk/x/params/types/proposal"

	marketapi "github.com/regen-network/regen-ledger/api/v2/regen/ecocredit/marketplace/v1"
	baseapi "github.com/regen-network/regen-ledger/api/v2/regen/ecocredit/v1"
	"github.com/regen-network/regen-ledger/types/v2/ormutil"
	"github.com/regen-network/regen-ledger/types/v2/testutil/fixture"
	ecocredittypes "github.com/regen-network/regen-ledger/x/ecocredit/v3"
	basetypes "github.com/regen-network/regen-ledger/x/ecocredit/v3/base/types/v1"
	"github.com/regen-network/regen-ledger/x/ecocredit/v3/basket"
	baskettypes "github.com/regen-network/regen-ledger/x/ecocredit/v3/basket/types/v1"
	"github.com/regen-network/regen-ledger/x/ecocredit/v3/marketplace"
	markettypes "github.com/regen-network/regen-ledger/x/ecocredit/v3/marketplace/types/v1"
	ecocredit "github.com/regen-network/regen-ledger/x/ecocredit/v3/module"
)

// Shared environment of the zz_audit_*_test.go demonstrations.
//
// auditEnv is a full ecocredit module (real base, basket and marketplace keepers,
// real auth and bank keepers) driven through the message router of the fixture,
// which runs ValidateBasic before every handler like a real transaction.
type auditEnv struct {
	t       *testing.T
	fx      fixture.Fixture
	mod     *ecocredit.Module
	bank    bankkeeper.BaseKeeper
	sdkCtx  sdk.Context
	base    basetypes.MsgClient
	baseQ   basetypes.QueryClient
	market  markettypes.MsgClient
	marketQ markettypes.QueryClient
	basket  baskettypes.MsgClient
	basketQ baskettypes.QueryClient
	signers []sdk.AccAddress
}

func newAuditEnv(t *testing.T, numSigners int, blockTime time.Time) *auditEnv {
	ff := fixture.NewFixtureFactory(t, numSigners)

	baseApp := ff.BaseApp()
	cdc := ff.Codec()
	amino := codec.NewLegacyAmino()

	authtypes.RegisterInterfaces(cdc.InterfaceRegistry())
	params.RegisterInterfaces(cdc.InterfaceRegistry())

	authKey := sdk.NewKVStoreKey(authtypes.StoreKey)
	ecocreditKey := sdk.NewKVStoreKey(ecocredittypes.ModuleName)
	bankKey := sdk.NewKVStoreKey(banktypes.StoreKey)
	distKey := sdk.NewKVStoreKey(disttypes.StoreKey)
	paramsKey := sdk.NewKVStoreKey(paramstypes.StoreKey)
	tkey := sdk.NewTransientStoreKey(paramstypes.TStoreKey)

	baseApp.MountStore(authKey, storetypes.StoreTypeIAVL)
	baseApp.MountStore(ecocreditKey, storetypes.StoreTypeIAVL)
	baseApp.MountStore(bankKey, storetypes.StoreTypeIAVL)
	baseApp.MountStore(distKey, storetypes.StoreTypeIAVL)
	baseApp.MountStore(paramsKey, storetypes.StoreTypeIAVL)
	baseApp.MountStore(tkey, storetypes.StoreTypeTransient)

	ecocreditSubspace := paramstypes.NewSubspace(cdc, amino, paramsKey, tkey, ecocredittypes.ModuleName)

	maccPerms := map[string][]string{
		minttypes.ModuleName:       {authtypes.Minter},
		ecocredittypes.ModuleName:  {authtypes.Burner},
		basket.BasketSubModuleName: {authtypes.Burner, authtypes.Minter},
		marketplace.FeePoolName:    {authtypes.Burner},
	}

	govAddr := authtypes.NewModuleAddress(govtypes.ModuleName).String()
	accountKeeper := authkeeper.NewAccountKeeper(
		cdc, authKey, authtypes.ProtoBaseAccount,
		maccPerms, "regen", govAddr)
	bankKeeper := bankkeeper.NewBaseKeeper(cdc, bankKey, accountKeeper, nil, govAddr)

	_, _, addr := testdata.KeyTestPubAddr()
	mod := ecocredit.NewModule(ecocreditKey, addr, accountKeeper, bankKeeper, ecocreditSubspace, nil)
	mod.RegisterInterfaces(cdc.InterfaceRegistry())

	ff.SetModules([]sdkmodules.AppModule{mod})
	fx := ff.Setup()

	e := &auditEnv{t: t, fx: fx, mod: mod, bank: bankKeeper, signers: fx.Signers()}
	e.sdkCtx = sdk.UnwrapSDKContext(fx.Context()).WithBlockTime(blockTime)

	_, err := fx.InitGenesis(e.sdkCtx, map[string]json.RawMessage{
		ecocredittypes.ModuleName: auditGenesis(t),
	})
	require.NoError(t, err)

	e.base = basetypes.NewMsgClient(fx.TxConn())
	e.baseQ = basetypes.NewQueryClient(fx.QueryConn())
	e.market = markettypes.NewMsgClient(fx.TxConn())
	e.marketQ = markettypes.NewQueryClient(fx.QueryConn())
	e.basket = baskettypes.NewMsgClient(fx.TxConn())
	e.basketQ = baskettypes.NewQueryClient(fx.QueryConn())
	return e
}

// auditGenesis: credit type C (precision 6) and uregen as allowed marketplace
// denom; no class fee, no basket fee, class creator allow list disabled.
func auditGenesis(t *testing.T) json.RawMessage {
	db := ormutil.NewStoreAdapter(dbm.NewMemDB())
	backend := ormtable.NewBackend(ormtable.BackendOptions{CommitmentStore: db, IndexStore: db})
	modDB, err := ormdb.NewModuleDB(&ecocredittypes.ModuleSchema, ormdb.ModuleDBOptions{})
	require.NoError(t, err)
	ormCtx := ormtable.WrapContextDefault(backend)
	ss, err := baseapi.NewStateStore(modDB)
	require.NoError(t, err)
	ms, err := marketapi.NewStateStore(modDB)
	require.NoError(t, err)

	require.NoError(t, ms.AllowedDenomTable().Insert(ormCtx, &marketapi.AllowedDenom{
		BankDenom: "uregen", DisplayDenom: "regen", Exponent: 6,
	}))
	require.NoError(t, ss.CreditTypeTable().Insert(ormCtx, &baseapi.CreditType{
		Abbreviation: "C", Name: "carbon", Unit: "metric ton C02", Precision: 6,
	}))

	target := ormjson.NewRawMessageTarget()
	require.NoError(t, modDB.ExportJSON(ormCtx, target))
	bz, err := target.JSON()
	require.NoError(t, err)
	return bz
}

func (e *auditEnv) ctx() sdk.Context { return e.sdkCtx }

// createClassProject creates a class with the given issuer and one project.
func (e *auditEnv) createClassProject(admin sdk.AccAddress) (classID, projectID string) {
	cRes, err := e.base.CreateClass(e.sdkCtx, &basetypes.MsgCreateClass{
		Admin: admin.String(), Issuers: []string{admin.String()}, CreditTypeAbbrev: "C",
	})
	require.NoError(e.t, err)
	pRes, err := e.base.CreateProject(e.sdkCtx, &basetypes.MsgCreateProject{
		Admin: admin.String(), ClassId: cRes.ClassId, Jurisdiction: "US-NY",
	})
	require.NoError(e.t, err)
	return cRes.ClassId, pRes.ProjectId
}

func (e *auditEnv) createBatch(issuer sdk.AccAddress, projectID string, start, end time.Time, issuance ...*basetypes.BatchIssuance) string {
	bRes, err := e.base.CreateBatch(e.sdkCtx, &basetypes.MsgCreateBatch{
		Issuer: issuer.String(), ProjectId: projectID, Issuance: issuance,
		Metadata: "metadata", StartDate: &start, EndDate: &end,
	})
	require.NoError(e.t, err)
	return bRes.BatchDenom
}

// beginBlock runs the module's BeginBlock at the given block time and reports a
// panic as an error.
func (e *auditEnv) beginBlock(blockTime time.Time) (err error) {
	e.sdkCtx = e.sdkCtx.WithBlockTime(blockTime)
	defer func() {
		if r := recover(); r != nil {
			err = fmt.Errorf("BeginBlock panicked: %v", r)
		}
	}()
	e.mod.BeginBlock(e.sdkCtx, abci.RequestBeginBlock{})
	return nil
}
