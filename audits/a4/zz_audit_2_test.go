package basket_test

import (
	"testing"

	"github.com/stretchr/testify/require"

	sdkmath "cosmossdk.io/math"
	sdk "github.com/cosmos/cosmos-sdk/types"

	basetypes "github.com/regen-network/regen-ledger/x/ecocredit/v3/base/types/v1"
	"github.com/regen-network/regen-ledger/x/ecocredit/v3/basket"
	baskettypes "github.com/regen-network/regen-ledger/x/ecocredit/v3/basket/types/v1"
)

// C14: the basket denom validator must accept exactly the documented format
// eco.<exponent-prefix><credit-type-abbrev>.<name>. The two separators are
// written as an unescaped "." in RegexBasketDenom, i.e. "any character".
func TestZZAudit2_BasketDenomRegexDots(t *testing.T) {
	// sanity: what FormatBasketDenom produces is accepted
	denom, display, err := basket.FormatBasketDenom("NCT", "C", 6)
	require.NoError(t, err)
	require.NoError(t, basket.ValidateBasketDenom(denom))
	require.NoError(t, basket.ValidateBasketDenom(display))

	// none of these has the documented format; all but the control entry are accepted
	malformed := []string{
		"eco-uC-NCT",     // other separators
		"eco/uC/NCT",     // looks like a path
		"ecoXuCXNCT",     // no separators at all
		"eco uC NCT",     // blanks
		"eco.uC\nNCT",    // control: "." does not match a line break in RE2, so this one is rejected
		"ecosystemtoken", // an ordinary bank denom: eco|s|yst|e|mtoken
		"economyusd",     // eco|n|o|m|yusd
	}
	accepted := 0
	for _, d := range malformed {
		if basket.ValidateBasketDenom(d) == nil {
			accepted++
			t.Logf("DEFECT: ValidateBasketDenom accepts %q", d)
		} else {
			t.Logf("rejected %q", d)
		}
	}
	require.GreaterOrEqual(t, accepted, 6)

	// consequence 1: the Basket state validator (genesis) accepts a basket whose
	// denom is not of the documented format
	b := baskettypes.Basket{
		Id:               1,
		BasketDenom:      "eco-uC-NCT",
		Name:             "NCT",
		CreditTypeAbbrev: "C",
		Curator:          sdk.AccAddress("0123456789abcdefghij"),
	}
	require.NoError(t, b.Validate())

	// consequence 2: ordinary bank denoms that merely start with "eco" are taken
	// for basket tokens, governance cannot use them as creation fee
	authority := sdk.AccAddress("0123456789abcdefghij").String()
	fee := sdk.Coin{Denom: "ecosystemtoken", Amount: sdkmath.NewInt(10)}
	require.NoError(t, sdk.ValidateDenom(fee.Denom))
	err = (&basetypes.MsgUpdateClassFee{Authority: authority, Fee: &fee}).ValidateBasic()
	require.ErrorContains(t, err, "denom cannot be a basket token")
	err = baskettypes.MsgUpdateBasketFee{Authority: authority, Fee: &fee}.ValidateBasic()
	require.ErrorContains(t, err, "denom cannot be a basket token")
}
