package server

import (
	"testing"
	"unicode/utf8"

	"github.com/stretchr/testify/require"

	"github.com/cosmos/cosmos-sdk/codec"
	codectypes "github.com/cosmos/cosmos-sdk/codec/types"
	sdk "github.com/cosmos/cosmos-sdk/types"
	txtypes "github.com/cosmos/cosmos-sdk/types/tx"
	authtx "github.com/cosmos/cosmos-sdk/x/auth/tx"

	"github.com/regen-network/regen-ledger/x/data/v3"
)

// Any account can define a resolver whose URL is not valid UTF-8. The gogoproto
// wire decoder of the SDK, MsgDefineResolver.ValidateBasic (url.ParseRequestURI)
// and the ORM (pulsar fast marshalling) all accept such a string; the ORM JSON
// exporter (protojson) does not, so from then on ExportGenesis of the data
// module fails (Module.ExportGenesis panics): the chain cannot export its state.
func TestZZAudit3_NonUTF8ResolverURLBreaksExport(t *testing.T) {
	s := setupBase(t)

	// export works on the fresh state
	_, err := s.server.ExportGenesis(s.sdkCtx, nil)
	require.NoError(t, err)

	badURL := "https://foo.bar/\xff\xfe"
	require.False(t, utf8.ValidString(badURL))

	// the transaction as it travels over the wire, decoded with the SDK's own
	// tx decoder (reject-unknown-fields + gogoproto unmarshalling)
	ir := codectypes.NewInterfaceRegistry()
	data.RegisterTypes(ir)
	cdc := codec.NewProtoCodec(ir)

	anyMsg, err := codectypes.NewAnyWithValue(&data.MsgDefineResolver{
		Definer:     s.addrs[0].String(),
		ResolverUrl: badURL,
	})
	require.NoError(t, err)
	bodyBz, err := cdc.Marshal(&txtypes.TxBody{Messages: []*codectypes.Any{anyMsg}})
	require.NoError(t, err)
	authBz, err := cdc.Marshal(&txtypes.AuthInfo{Fee: &txtypes.Fee{}})
	require.NoError(t, err)
	txBz, err := cdc.Marshal(&txtypes.TxRaw{BodyBytes: bodyBz, AuthInfoBytes: authBz, Signatures: [][]byte{}})
	require.NoError(t, err)

	tx, err := authtx.DefaultTxDecoder(cdc)(txBz)
	require.NoError(t, err, "the SDK tx decoder accepts the non-UTF-8 string")
	msgs := tx.GetMsgs()
	require.Len(t, msgs, 1)
	msg := msgs[0].(*data.MsgDefineResolver)
	require.Equal(t, badURL, msg.ResolverUrl)
	require.NoError(t, msg.ValidateBasic(), "ValidateBasic accepts the non-UTF-8 url")
	require.Equal(t, []sdk.AccAddress{s.addrs[0]}, msg.GetSigners())

	res, err := s.server.DefineResolver(s.ctx, msg)
	require.NoError(t, err, "the handler stores the resolver")
	require.NotZero(t, res.ResolverId)

	// the state can be read back ...
	r, err := s.server.stateStore.ResolverTable().Get(s.ctx, res.ResolverId)
	require.NoError(t, err)
	require.Equal(t, badURL, r.Url)

	// ... but it cannot be exported any more
	_, err = s.server.ExportGenesis(s.sdkCtx, nil)
	require.Error(t, err)
	require.ErrorContains(t, err, "invalid UTF-8")
	t.Logf("DEFECT: ExportGenesis fails after a permissionless MsgDefineResolver: %v", err)
}
