package keeper

import (
	"strings"
	"testing"
	"time"

	"github.com/stretchr/testify/require"

	api "github.com/regen-network/regen-ledger/api/v2/regen/ecocredit/v1"
	types "github.com/regen-network/regen-ledger/x/ecocredit/v3/base/types/v1"
)

// C13: one Ethereum transaction / one Ethereum contract, spelled with a
// different hexadecimal letter case (EIP-55 checksum spelling vs. lower case
// spelling), is treated as a different origin transaction / a different
// contract: the same origin transaction mints twice and the same contract is
// bound to two batches of one class.
func zzAuditBridgeSetup(t *testing.T) (*baseSuite, *types.MsgBridgeReceive) {
	s := setupBase(t)

	require.NoError(t, s.stateStore.CreditTypeTable().Insert(s.ctx, &api.CreditType{
		Abbreviation: "C", Name: "carbon", Unit: "tons", Precision: 6,
	}))
	classKey, err := s.stateStore.ClassTable().InsertReturningID(s.ctx, &api.Class{
		Id: "C01", Admin: s.addr, CreditTypeAbbrev: "C",
	})
	require.NoError(t, err)
	require.NoError(t, s.stateStore.ClassIssuerTable().Insert(s.ctx, &api.ClassIssuer{
		ClassKey: classKey, Issuer: s.addr,
	}))
	require.NoError(t, s.stateStore.AllowedBridgeChainTable().Insert(s.ctx, &api.AllowedBridgeChain{ChainName: "polygon"}))

	start := time.Date(2020, 1, 1, 0, 0, 0, 0, time.UTC)
	end := time.Date(2021, 1, 1, 0, 0, 0, 0, time.UTC)
	msg := &types.MsgBridgeReceive{
		Issuer:  s.addr.String(),
		ClassId: "C01",
		Project: &types.MsgBridgeReceive_Project{
			ReferenceId:  "VCS-001",
			Jurisdiction: "US-WA",
			Metadata:     "project",
		},
		Batch: &types.MsgBridgeReceive_Batch{
			Recipient: s.addr2.String(),
			Amount:    "10",
			StartDate: &start,
			EndDate:   &end,
			Metadata:  "batch",
		},
		OriginTx: &types.OriginTx{
			// EIP-55 (mixed case) spelling, as printed by every ethereum explorer
			Id:       "0x7A70692A348E8688F54AB2BDFE87D925D8CC88932520492A11EAA02DC128243E",
			Source:   "polygon",
			Contract: "0x0E65079a29d7793ab5CA500c2d88e60EE99bA606",
		},
	}
	require.NoError(t, msg.ValidateBasic())
	return s, msg
}

func TestZZAudit1_OriginTxHexCaseReplay(t *testing.T) {
	s, msg := zzAuditBridgeSetup(t)

	res1, err := s.k.BridgeReceive(s.ctx, msg)
	require.NoError(t, err)

	// exact replay is rejected
	_, err = s.k.BridgeReceive(s.ctx, msg)
	require.ErrorContains(t, err, "credits already issued with tx id")

	// the same ethereum transaction hash in lower case hex: same 32 bytes
	replay := *msg
	otx := *msg.OriginTx
	otx.Id = strings.ToLower(otx.Id)
	replay.OriginTx = &otx
	require.NoError(t, replay.ValidateBasic())

	res2, err := s.k.BridgeReceive(s.ctx, &replay)
	// property C13 demands a rejection; the original code mints again
	require.NoError(t, err, "the replay is expected to be accepted by the ORIGINAL (defective) code")
	require.Equal(t, res1.BatchDenom, res2.BatchDenom)

	batch, err := s.stateStore.BatchTable().GetByDenom(s.ctx, res1.BatchDenom)
	require.NoError(t, err)
	supply, err := s.stateStore.BatchSupplyTable().Get(s.ctx, batch.Key)
	require.NoError(t, err)
	// 10 credits were locked on the source chain, 20 exist here
	require.Equal(t, "20", supply.TradableAmount)
	t.Logf("DEFECT: origin tx %s minted twice, supply=%s", msg.OriginTx.Id, supply.TradableAmount)
}

func TestZZAudit1_ContractHexCaseSecondBatch(t *testing.T) {
	s, msg := zzAuditBridgeSetup(t)

	res1, err := s.k.BridgeReceive(s.ctx, msg)
	require.NoError(t, err)

	// a later receipt from the same contract, other transaction, the contract
	// address spelled in lower case (what web3 libraries return by default)
	second := *msg
	otx := *msg.OriginTx
	otx.Id = "0x1111111111111111111111111111111111111111111111111111111111111111"
	otx.Contract = strings.ToLower(otx.Contract)
	second.OriginTx = &otx
	require.NoError(t, second.ValidateBasic())

	res2, err := s.k.BridgeReceive(s.ctx, &second)
	require.NoError(t, err)

	// property C13: later receipts for that contract mint into that same batch.
	// the original code creates a second batch bound to the "other" contract.
	require.NotEqual(t, res1.BatchDenom, res2.BatchDenom, "ORIGINAL (defective) code creates a second batch")

	n := 0
	it, err := s.stateStore.BatchContractTable().List(s.ctx, api.BatchContractPrimaryKey{})
	require.NoError(t, err)
	for it.Next() {
		v, err := it.Value()
		require.NoError(t, err)
		require.True(t, strings.EqualFold(v.Contract, msg.OriginTx.Contract))
		n++
	}
	it.Close()
	require.Equal(t, 2, n)
	t.Logf("DEFECT: contract %s is bound to two batches of class C01: %s and %s", msg.OriginTx.Contract, res1.BatchDenom, res2.BatchDenom)
}
