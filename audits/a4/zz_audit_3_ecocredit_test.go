package keeper

import (
	"testing"
	"time"
	"unicode/utf8"

	"github.com/stretchr/testify/require"

	"github.com/cosmos/cosmos-sdk/orm/types/ormjson"

	api "github.com/regen-network/regen-ledger/api/v2/regen/ecocredit/v1"
	types "github.com/regen-network/regen-ledger/x/ecocredit/v3/base/types/v1"
)

// Free-form strings of the ecocredit messages (class / project / batch
// metadata, project reference id) are only checked for their length. A value
// that is not valid UTF-8 survives the gogoproto wire decoding, ValidateBasic
// and the keeper, is stored by the ORM, and makes the ORM JSON export (which is
// all serverImpl.ExportGenesis does) fail from then on.
func TestZZAudit3_NonUTF8MetadataBreaksExport(t *testing.T) {
	bad := "regen:\xff\xfe.rdf"
	require.False(t, utf8.ValidString(bad))

	export := func(s *baseSuite) error {
		// identical to x/ecocredit/server.serverImpl.ExportGenesis
		return s.db.ExportJSON(s.ctx, ormjson.NewRawMessageTarget())
	}
	setup := func() *baseSuite {
		s := setupBase(t)
		require.NoError(t, s.stateStore.CreditTypeTable().Insert(s.ctx, &api.CreditType{
			Abbreviation: "C", Name: "carbon", Unit: "tons", Precision: 6,
		}))
		classKey, err := s.stateStore.ClassTable().InsertReturningID(s.ctx, &api.Class{
			Id: "C01", Admin: s.addr, CreditTypeAbbrev: "C",
		})
		require.NoError(t, err)
		require.NoError(t, s.stateStore.ClassIssuerTable().Insert(s.ctx, &api.ClassIssuer{
			ClassKey: classKey, Issuer: s.addr,
		}))
		require.NoError(t, s.stateStore.ProjectTable().Insert(s.ctx, &api.Project{
			Id: "C01-001", Admin: s.addr, ClassKey: classKey, Jurisdiction: "US",
		}))
		require.NoError(t, s.stateStore.ProjectSequenceTable().Insert(s.ctx, &api.ProjectSequence{ClassKey: classKey, NextSequence: 2}))
		require.NoError(t, export(s))
		return s
	}

	t.Run("class metadata", func(t *testing.T) {
		s := setup()
		in := &types.MsgUpdateClassMetadata{Admin: s.addr.String(), ClassId: "C01", NewMetadata: bad}
		bz, err := in.Marshal()
		require.NoError(t, err)
		var msg types.MsgUpdateClassMetadata
		require.NoError(t, msg.Unmarshal(bz)) // wire decoding accepts it
		require.NoError(t, msg.ValidateBasic())
		_, err = s.k.UpdateClassMetadata(s.ctx, &msg)
		require.NoError(t, err)
		err = export(s)
		require.ErrorContains(t, err, "invalid UTF-8")
		t.Logf("DEFECT: %v", err)
	})

	t.Run("project reference id and metadata", func(t *testing.T) {
		s := setup()
		in := &types.MsgCreateProject{Admin: s.addr.String(), ClassId: "C01", Jurisdiction: "US", ReferenceId: "VCS-\xff"}
		bz, err := in.Marshal()
		require.NoError(t, err)
		var msg types.MsgCreateProject
		require.NoError(t, msg.Unmarshal(bz))
		require.NoError(t, msg.ValidateBasic())
		_, err = s.k.CreateProject(s.ctx, &msg)
		require.NoError(t, err)
		err = export(s)
		require.ErrorContains(t, err, "invalid UTF-8")
		t.Logf("DEFECT: %v", err)
	})

	t.Run("batch metadata", func(t *testing.T) {
		s := setup()
		start, end := time.Date(2020, 1, 1, 0, 0, 0, 0, time.UTC), time.Date(2021, 1, 1, 0, 0, 0, 0, time.UTC)
		in := &types.MsgCreateBatch{
			Issuer: s.addr.String(), ProjectId: "C01-001", Metadata: bad, StartDate: &start, EndDate: &end,
			Issuance: []*types.BatchIssuance{{Recipient: s.addr2.String(), TradableAmount: "1"}},
		}
		bz, err := in.Marshal()
		require.NoError(t, err)
		var msg types.MsgCreateBatch
		require.NoError(t, msg.Unmarshal(bz))
		require.NoError(t, msg.ValidateBasic())
		_, err = s.k.CreateBatch(s.ctx, &msg)
		require.NoError(t, err)
		err = export(s)
		require.ErrorContains(t, err, "invalid UTF-8")
		t.Logf("DEFECT: %v", err)
	})
}
