package keeper

import (
	"testing"

	"github.com/stretchr/testify/require"

	sdk "github.com/cosmos/cosmos-sdk/types"

	api "github.com/regen-network/regen-ledger/api/v2/regen/ecocredit/v1"
	types "github.com/regen-network/regen-ledger/x/ecocredit/v3/base/types/v1"
)

// C13: "a source contract is bound to exactly one batch per class (later
// receipts for that contract mint into that same batch)" and "bridge out
// reports that batch's contract".
//
// MsgMintBatchCredits carries the same OriginTx as MsgCreateBatch and
// MsgBridgeReceive, including origin_tx.contract ("will be stored in state ...
// on a per credit batch basis to be used when sending credits back to the
// source chain"), but the keeper never looks at it: a receipt for contract Y
// can be minted into the batch that is bound to contract X (or into a batch
// without contract, where the contract is silently dropped). The credits
// received from Y are then sent "back" to X by Msg/Bridge, and the next
// Msg/BridgeReceive for Y opens a second home for Y's credits.
func TestZZAudit4_MintIgnoresOriginTxContract(t *testing.T) {
	s, recv := zzAuditBridgeSetup(t)
	contractX := recv.OriginTx.Contract
	contractY := "0x1111111111111111111111111111111111111111"

	// batch bound to contract X
	res, err := s.k.BridgeReceive(s.ctx, recv)
	require.NoError(t, err)

	// a receipt from contract Y minted into X's batch
	mint := &types.MsgMintBatchCredits{
		Issuer:     s.addr.String(),
		BatchDenom: res.BatchDenom,
		Issuance:   []*types.BatchIssuance{{Recipient: s.addr2.String(), TradableAmount: "5"}},
		OriginTx: &types.OriginTx{
			Id:       "0x2222222222222222222222222222222222222222222222222222222222222222",
			Source:   "polygon",
			Contract: contractY,
		},
	}
	require.NoError(t, mint.ValidateBasic())
	_, err = s.k.MintBatchCredits(s.ctx, mint)
	require.NoError(t, err, "ORIGINAL code accepts a receipt of contract Y in the batch of contract X")

	// Y is not bound to anything ...
	_, err = s.stateStore.BatchContractTable().GetByClassKeyContract(s.ctx, 1, contractY)
	require.Error(t, err)

	// ... and all 15 credits, including the 5 from Y, bridge out to X
	s.sdkCtx = s.sdkCtx.WithEventManager(sdk.NewEventManager())
	s.ctx = sdk.WrapSDKContext(s.sdkCtx)
	_, err = s.k.Bridge(s.ctx, &types.MsgBridge{
		Owner:     s.addr2.String(),
		Target:    "polygon",
		Recipient: "0x3333333333333333333333333333333333333333",
		Credits:   []*types.Credits{{BatchDenom: res.BatchDenom, Amount: "15"}},
	})
	require.NoError(t, err)
	found := false
	for _, e := range s.sdkCtx.EventManager().Events() {
		if e.Type == "regen.ecocredit.v1.EventBridge" {
			for _, a := range e.Attributes {
				if a.Key == "contract" {
					require.Contains(t, a.Value, contractX)
					found = true
				}
			}
		}
	}
	require.True(t, found)

	// the next bridge receipt for Y creates a second batch
	recv2 := *recv
	otx := *recv.OriginTx
	otx.Id = "0x4444444444444444444444444444444444444444444444444444444444444444"
	otx.Contract = contractY
	recv2.OriginTx = &otx
	res2, err := s.k.BridgeReceive(s.ctx, &recv2)
	require.NoError(t, err)
	require.NotEqual(t, res.BatchDenom, res2.BatchDenom)

	n := 0
	it, err := s.stateStore.BatchContractTable().List(s.ctx, api.BatchContractPrimaryKey{})
	require.NoError(t, err)
	for it.Next() {
		n++
	}
	it.Close()
	require.Equal(t, 2, n)
	t.Logf("DEFECT: credits received from %s live in %s (bound to %s) and in %s", contractY, res.BatchDenom, contractX, res2.BatchDenom)
}

// C13: "Bridge out succeeds only for ... an allowed target". The allow-list
// look-up lower-cases the target with strings.ToLower, which applies Unicode
// case mapping: U+212A KELVIN SIGN lower-cases to "k", U+0130 to "i". A target
// that is not an allowed chain name in any ASCII spelling passes the check, the
// credits are cancelled and the event reports a target no bridge listens to.
func TestZZAudit4_BridgeTargetUnicodeFold(t *testing.T) {
	s, recv := zzAuditBridgeSetup(t)
	_, err := s.k.AddAllowedBridgeChain(s.ctx, &types.MsgAddAllowedBridgeChain{Authority: s.authority.String(), ChainName: "kava"})
	require.NoError(t, err)

	res, err := s.k.BridgeReceive(s.ctx, recv)
	require.NoError(t, err)

	target := "Kava" // "Kava" written with the Kelvin sign
	require.NotEqual(t, "kava", target)
	require.NotEqual(t, "Kava", target)

	msg := &types.MsgBridge{
		Owner:     s.addr2.String(),
		Target:    target,
		Recipient: "0x3333333333333333333333333333333333333333",
		Credits:   []*types.Credits{{BatchDenom: res.BatchDenom, Amount: "10"}},
	}
	require.NoError(t, msg.ValidateBasic())
	_, err = s.k.Bridge(s.ctx, msg)
	require.NoError(t, err, "ORIGINAL code accepts the target")

	batch, err := s.stateStore.BatchTable().GetByDenom(s.ctx, res.BatchDenom)
	require.NoError(t, err)
	supply, err := s.stateStore.BatchSupplyTable().Get(s.ctx, batch.Key)
	require.NoError(t, err)
	require.Equal(t, "10", supply.CancelledAmount)
	t.Logf("DEFECT: 10 credits cancelled for bridge target %q (% x), which is not on the allow-list", target, target)

	// the same holds for the receive side only as far as the regexp allows: the
	// source chain must be ASCII, so BridgeReceive is not affected
	recv2 := *recv
	otx := *recv.OriginTx
	otx.Source = target
	recv2.OriginTx = &otx
	require.Error(t, recv2.ValidateBasic())
}
