//nolint:revive,stylecheck
package tests

import (
	"encoding/json"
	"fmt"
	"testing"

	"github.com/stretchr/testify/require"

	basetypes "github.com/regen-network/regen-ledger/x/ecocredit/v3/base/types/v1"
)

// ValidateGenesis only compares tradable+retired per batch (and only for
// batches that have at least one balance row): a genesis whose supply rows
// disagree with the balances passes validation, yet C01 and the registered
// batch-supply invariant fail in the very first state.
func TestZZAudit3_GenesisValidationOnlyChecksTotals(t *testing.T) {
	e := newAuditEnv(t, 3)
	a := b64(e.signers[0])
	gen := fmt.Sprintf(`{
  "regen.ecocredit.v1.CreditType": [{"abbreviation":"C","name":"carbon","precision":6,"unit":"t"}],
  "regen.ecocredit.v1.Class": [1, {"admin":"%[1]s","credit_type_abbrev":"C","id":"C01","key":"1","metadata":"m"}],
  "regen.ecocredit.v1.ClassIssuer": [{"class_key":"1","issuer":"%[1]s"}],
  "regen.ecocredit.v1.Project": [1, {"key":"1","id":"C01-001","admin":"%[1]s","class_key":"1","jurisdiction":"US-WA","metadata":"m"}],
  "regen.ecocredit.v1.Batch": [2,
    {"key":"1","issuer":"%[1]s","project_key":"1","denom":"C01-001-20200101-20210101-001","metadata":"m","start_date":"2020-01-01T00:00:00Z","end_date":"2021-01-01T00:00:00Z","issuance_date":"2022-01-01T00:00:00Z"},
    {"key":"2","issuer":"%[1]s","project_key":"1","denom":"C01-001-20200101-20210101-002","metadata":"m","start_date":"2020-01-01T00:00:00Z","end_date":"2021-01-01T00:00:00Z","issuance_date":"2022-01-01T00:00:00Z"}],
  "regen.ecocredit.v1.BatchBalance": [
    {"batch_key":"1","address":"%[1]s","tradable_amount":"0","retired_amount":"10","escrowed_amount":"0"}],
  "regen.ecocredit.v1.BatchSupply": [
    {"batch_key":"1","tradable_amount":"10","retired_amount":"0","cancelled_amount":"0"},
    {"batch_key":"2","tradable_amount":"7","retired_amount":"0","cancelled_amount":"0"}]
}`, a)
	require.NoError(t, e.mod.ValidateGenesis(e.fx.Codec(), nil, json.RawMessage(gen)), "the genesis is accepted as valid")
	e.initGenesis(gen)
	p := e.check()
	for _, x := range p {
		t.Logf("DEFECT: %s", x)
	}
	require.NotEmpty(t, p, "expected C01 / the registered invariant to fail on a validated genesis")
}

// From such a validated genesis an ordinary MsgSend then writes a NEGATIVE
// tradable supply: sendRetired subtracts from the supply with Dec.Sub and never
// looks at the sign (MsgRetire, MsgCancel, Take and BuyDirect use SafeSubBalance).
func TestZZAudit3b_SendRetiredWritesNegativeSupply(t *testing.T) {
	e := newAuditEnv(t, 3)
	a := b64(e.signers[0])
	gen := fmt.Sprintf(`{
  "regen.ecocredit.v1.CreditType": [{"abbreviation":"C","name":"carbon","precision":6,"unit":"t"}],
  "regen.ecocredit.v1.Class": [1, {"admin":"%[1]s","credit_type_abbrev":"C","id":"C01","key":"1","metadata":"m"}],
  "regen.ecocredit.v1.Project": [1, {"key":"1","id":"C01-001","admin":"%[1]s","class_key":"1","jurisdiction":"US-WA","metadata":"m"}],
  "regen.ecocredit.v1.Batch": [1,
    {"key":"1","issuer":"%[1]s","project_key":"1","denom":"C01-001-20200101-20210101-001","metadata":"m","start_date":"2020-01-01T00:00:00Z","end_date":"2021-01-01T00:00:00Z","issuance_date":"2022-01-01T00:00:00Z"}],
  "regen.ecocredit.v1.BatchBalance": [
    {"batch_key":"1","address":"%[1]s","tradable_amount":"10","retired_amount":"0","escrowed_amount":"0"}],
  "regen.ecocredit.v1.BatchSupply": [
    {"batch_key":"1","tradable_amount":"0","retired_amount":"10","cancelled_amount":"0"}]
}`, a)
	require.NoError(t, e.mod.ValidateGenesis(e.fx.Codec(), nil, json.RawMessage(gen)))
	e.initGenesis(gen)
	e.check() // prime the monotonicity ghosts
	// MsgRetire refuses ...
	_, err := e.base.Retire(e.ctx(), &basetypes.MsgRetire{Owner: e.signers[0].String(), Jurisdiction: "US",
		Credits: []*basetypes.Credits{{BatchDenom: "C01-001-20200101-20210101-001", Amount: "1"}}})
	require.Error(t, err)
	// ... MsgSend with a retired amount does not
	_, err = e.base.Send(e.ctx(), &basetypes.MsgSend{Sender: e.signers[0].String(), Recipient: e.signers[1].String(),
		Credits: []*basetypes.MsgSend_SendCredits{{BatchDenom: "C01-001-20200101-20210101-001", RetiredAmount: "1", RetirementJurisdiction: "US"}}})
	require.NoError(t, err)
	bs, _, _ := e.mod.Keeper.GetStateStores()
	sup, err := bs.BatchSupplyTable().Get(e.ctx(), 1)
	require.NoError(t, err)
	t.Logf("DEFECT: stored tradable supply after MsgSend: %q", sup.TradableAmount)
	require.Equal(t, "-1", sup.TradableAmount)
}
