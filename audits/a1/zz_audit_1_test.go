//nolint:revive,stylecheck
package tests

import (
	"strings"
	"testing"
	"time"

	"github.com/stretchr/testify/require"

	sdk "github.com/cosmos/cosmos-sdk/types"

	basetypes "github.com/regen-network/regen-ledger/x/ecocredit/v3/base/types/v1"
	markettypes "github.com/regen-network/regen-ledger/x/ecocredit/v3/marketplace/types/v1"
)

func TestZZAuditSmoke(t *testing.T) {
	e := newAuditEnv(t, 4)
	e.initGenesis(e.defaultGenesis())
	alice, bob := e.signers[0], e.signers[1]
	start, end := time.Date(2020, 1, 1, 0, 0, 0, 0, time.UTC), time.Date(2021, 1, 1, 0, 0, 0, 0, time.UTC)
	res, err := e.base.CreateBatch(e.ctx(), &basetypes.MsgCreateBatch{
		Issuer: alice.String(), ProjectId: "C01-001", Metadata: "m", StartDate: &start, EndDate: &end, Open: true,
		Issuance: []*basetypes.BatchIssuance{{Recipient: alice.String(), TradableAmount: "10", RetiredAmount: "1.5", RetirementJurisdiction: "US"}},
	})
	require.NoError(t, err)
	e.addIssued(res.BatchDenom, "10", "1.5")
	require.Empty(t, e.check())
	_, err = e.base.Send(e.ctx(), &basetypes.MsgSend{Sender: alice.String(), Recipient: bob.String(), Credits: []*basetypes.MsgSend_SendCredits{
		{BatchDenom: res.BatchDenom, TradableAmount: "1e0", RetiredAmount: "0.5", RetirementJurisdiction: "US"}}})
	require.NoError(t, err)
	require.Empty(t, e.check())
}

// A sell order keeps its quantity as spelled. "1e100000" is a valid quantity
// (no decimal places); when it is later added to a tradable balance that has
// decimal places, apd refuses to align the exponents (difference > 100000), so
// the un-escrow in BeginBlock fails and the module panics: every node halts.
func TestZZAudit1_ExpiredOrderWithHugeExponentHaltsBeginBlock(t *testing.T) {
	e := newAuditEnv(t, 4)
	e.initGenesis(e.defaultGenesis())
	alice, bob := e.signers[0], e.signers[1]
	start, end := time.Date(2020, 1, 1, 0, 0, 0, 0, time.UTC), time.Date(2021, 1, 1, 0, 0, 0, 0, time.UTC)
	res, err := e.base.CreateBatch(e.ctx(), &basetypes.MsgCreateBatch{
		Issuer: alice.String(), ProjectId: "C01-001", Metadata: "m", StartDate: &start, EndDate: &end,
		Issuance: []*basetypes.BatchIssuance{
			{Recipient: alice.String(), TradableAmount: "1e100000"},
			{Recipient: bob.String(), TradableAmount: "0.000001"},
		},
	})
	require.NoError(t, err)
	e.addIssued(res.BatchDenom, "1e100000", "0.000001")
	require.Empty(t, e.check())

	exp := e.now.Add(time.Hour)
	_, err = e.market.Sell(e.ctx(), &markettypes.MsgSell{Seller: alice.String(), Orders: []*markettypes.MsgSell_Order{
		{BatchDenom: res.BatchDenom, Quantity: "1e100000", AskPrice: &sdk.Coin{Denom: "uregen", Amount: sdk.NewInt(1)}, Expiration: &exp},
	}})
	require.NoError(t, err)
	require.Empty(t, e.check())

	// anybody who holds a fraction of a credit can now arm the trap
	_, err = e.base.Send(e.ctx(), &basetypes.MsgSend{Sender: bob.String(), Recipient: alice.String(), Credits: []*basetypes.MsgSend_SendCredits{
		{BatchDenom: res.BatchDenom, TradableAmount: "0.000001"}}})
	require.NoError(t, err)
	require.Empty(t, e.check())

	require.NoError(t, e.beginBlock(time.Minute)) // not yet expired
	err = e.beginBlock(2 * time.Hour)             // expired
	if err != nil {
		t.Logf("DEFECT: %s", strings.ReplaceAll(trunc(err.Error()), "\n", " "))
	}
	require.Error(t, err, "expected the BeginBlocker to panic")
	require.Contains(t, err.Error(), "BeginBlock panic")
	require.Contains(t, err.Error(), "exponent out of range")
	// every later block panics the same way: the chain cannot make progress
	require.Error(t, e.beginBlock(time.Minute))
}

// Same halt, produced by the seller alone: a second, fractional sell order
// gives the escrowed balance decimal places, after which the first order's
// quantity can no longer be subtracted from it.
func TestZZAudit1b_SellerAloneHaltsBeginBlock(t *testing.T) {
	e := newAuditEnv(t, 4)
	e.initGenesis(e.defaultGenesis())
	alice := e.signers[0]
	start, end := time.Date(2020, 1, 1, 0, 0, 0, 0, time.UTC), time.Date(2021, 1, 1, 0, 0, 0, 0, time.UTC)
	res, err := e.base.CreateBatch(e.ctx(), &basetypes.MsgCreateBatch{
		Issuer: alice.String(), ProjectId: "C01-001", Metadata: "m", StartDate: &start, EndDate: &end,
		Issuance: []*basetypes.BatchIssuance{{Recipient: alice.String(), TradableAmount: "2e99995"}},
	})
	require.NoError(t, err)
	e.addIssued(res.BatchDenom, "2e99995")
	exp := e.now.Add(time.Hour)
	price := &sdk.Coin{Denom: "uregen", Amount: sdk.NewInt(1)}
	_, err = e.market.Sell(e.ctx(), &markettypes.MsgSell{Seller: alice.String(), Orders: []*markettypes.MsgSell_Order{
		{BatchDenom: res.BatchDenom, Quantity: "1e99995", AskPrice: price, Expiration: &exp},
	}})
	require.NoError(t, err)
	_, err = e.market.Sell(e.ctx(), &markettypes.MsgSell{Seller: alice.String(), Orders: []*markettypes.MsgSell_Order{
		{BatchDenom: res.BatchDenom, Quantity: "0.000001", AskPrice: price},
	}})
	require.NoError(t, err)
	require.Empty(t, e.check(), "all properties hold right up to the halt")
	// the seller cannot cancel the order any more either
	_, err = e.market.CancelSellOrder(e.ctx(), &markettypes.MsgCancelSellOrder{Seller: alice.String(), SellOrderId: 1})
	require.ErrorContains(t, err, "exponent out of range")
	err = e.beginBlock(2 * time.Hour)
	require.Error(t, err)
	t.Logf("DEFECT: %s", strings.ReplaceAll(trunc(err.Error()), "\n", " "))
}
