//nolint:revive,stylecheck
package tests

import (
	"testing"
	"time"

	"github.com/stretchr/testify/require"

	baseapi "github.com/regen-network/regen-ledger/api/v2/regen/ecocredit/v1"
	basetypes "github.com/regen-network/regen-ledger/x/ecocredit/v3/base/types/v1"
)

// probes odd-but-accepted zero spellings: what is stored?
func TestZZAuditZeroSpellings(t *testing.T) {
	e := newAuditEnv(t, 4)
	e.initGenesis(e.defaultGenesis())
	alice := e.signers[0]
	start, end := time.Date(2020, 1, 1, 0, 0, 0, 0, time.UTC), time.Date(2021, 1, 1, 0, 0, 0, 0, time.UTC)
	for _, z := range []string{"-0", "-0.000000", "0e5", "0e-6", "0E+3", "-0e2", "+0", "000", "0.", ".0"} {
		res, err := e.base.CreateBatch(e.ctx(), &basetypes.MsgCreateBatch{
			Issuer: alice.String(), ProjectId: "C01-001", Metadata: "m", StartDate: &start, EndDate: &end, Open: true,
			Issuance: []*basetypes.BatchIssuance{
				{Recipient: alice.String(), TradableAmount: z, RetiredAmount: z, RetirementJurisdiction: "US"},
				{Recipient: e.signers[1].String(), TradableAmount: z},
				{Recipient: e.signers[1].String(), TradableAmount: z},
			},
		})
		if err != nil {
			t.Logf("%q rejected: %v", z, err)
			continue
		}
		e.addIssued(res.BatchDenom, z, z, z, z)
		bs, _, _ := e.mod.Keeper.GetStateStores()
		b, err := bs.BatchTable().GetByDenom(e.ctx(), res.BatchDenom)
		require.NoError(t, err)
		bal, err := bs.BatchBalanceTable().Get(e.ctx(), alice, b.Key)
		require.NoError(t, err)
		bal2, err := bs.BatchBalanceTable().Get(e.ctx(), e.signers[1], b.Key)
		require.NoError(t, err)
		sup, err := bs.BatchSupplyTable().Get(e.ctx(), b.Key)
		require.NoError(t, err)
		t.Logf("%q accepted: balance %q/%q/%q  bal2 %q supply %q/%q/%q", z, bal.TradableAmount, bal.RetiredAmount, bal.EscrowedAmount, bal2.TradableAmount, sup.TradableAmount, sup.RetiredAmount, sup.CancelledAmount)
		_, err = e.base.MintBatchCredits(e.ctx(), &basetypes.MsgMintBatchCredits{Issuer: alice.String(), BatchDenom: res.BatchDenom,
			Issuance: []*basetypes.BatchIssuance{{Recipient: alice.String(), TradableAmount: z, RetiredAmount: z, RetirementJurisdiction: "US"}},
			OriginTx: &basetypes.OriginTx{Id: "x" + res.BatchDenom, Source: "s"}})
		require.NoError(t, err)
		_, err = e.base.Send(e.ctx(), &basetypes.MsgSend{Sender: alice.String(), Recipient: e.signers[2].String(), Credits: []*basetypes.MsgSend_SendCredits{
			{BatchDenom: res.BatchDenom, TradableAmount: z, RetiredAmount: z}}})
		t.Logf("   send: %v", err)
		if p := e.check(); len(p) > 0 {
			t.Errorf("%q: %v", z, p)
		}
	}
	_ = baseapi.BatchBalance{}
}
