//nolint:revive,stylecheck
package tests

import (
	"bytes"
	"context"
	"crypto/sha256"
	"encoding/base64"
	"encoding/json"
	"fmt"
	"math/big"
	"regexp"
	"sort"
	"strings"
	"testing"
	"time"

	"github.com/stretchr/testify/require"

	abci "github.com/cometbft/cometbft/abci/types"

	"github.com/cosmos/cosmos-sdk/codec"
	"github.com/cosmos/cosmos-sdk/crypto/keys/secp256k1"
	storetypes "github.com/cosmos/cosmos-sdk/store/types"
	sdk "github.com/cosmos/cosmos-sdk/types"
	sdkmodules "github.com/cosmos/cosmos-sdk/types/module"
	authkeeper "github.com/cosmos/cosmos-sdk/x/auth/keeper"
	authtypes "github.com/cosmos/cosmos-sdk/x/auth/types"
	bankkeeper "github.com/cosmos/cosmos-sdk/x/bank/keeper"
	banktypes "github.com/cosmos/cosmos-sdk/x/bank/types"
	disttypes "github.com/cosmos/cosmos-sdk/x/distribution/types"
	minttypes "github.com/cosmos/cosmos-sdk/x/mint/types"
	paramstypes "github.com/cosmos/cosmos-sdk/x/params/types"
	params "github.com/cosmos/cosmos-sdk/x/params/types/proposal"

	basketapi "github.com/regen-network/regen-ledger/api/v2/regen/ecocredit/basket/v1"
	marketapi "github.com/regen-network/regen-ledger/api/v2/regen/ecocredit/marketplace/v1"
	baseapi "github.com/regen-network/regen-ledger/api/v2/regen/ecocredit/v1"
	"github.com/regen-network/regen-ledger/types/v2/testutil/fixture"
	ecocredittypes "github.com/regen-network/regen-ledger/x/ecocredit/v3"
	basetypes "github.com/regen-network/regen-ledger/x/ecocredit/v3/base/types/v1"
	"github.com/regen-network/regen-ledger/x/ecocredit/v3/basket"
	baskettypes "github.com/regen-network/regen-ledger/x/ecocredit/v3/basket/types/v1"
	"github.com/regen-network/regen-ledger/x/ecocredit/v3/marketplace"
	markettypes "github.com/regen-network/regen-ledger/x/ecocredit/v3/marketplace/types/v1"
	ecocredit "github.com/regen-network/regen-ledger/x/ecocredit/v3/module"
)

// auditEnv is a full ecocredit module (base + basket + marketplace keepers) on
// top of real auth and bank keepers; every message goes through ValidateBasic
// and is atomic (the fixture cache-wraps the multistore per message).
type auditEnv struct {
	t       *testing.T
	fx      fixture.Fixture
	mod     *ecocredit.Module
	bank    bankkeeper.BaseKeeper
	ecoKey  *storetypes.KVStoreKey
	signers []sdk.AccAddress
	now     time.Time

	base   basetypes.MsgClient
	basket baskettypes.MsgClient
	market markettypes.MsgClient

	invariants map[string]sdk.Invariant

	// ghost state
	issued     map[uint64]*big.Rat // batch key => issued total
	sealed     map[uint64]*big.Rat // batch key => total when first seen sealed
	lastRet    map[string]*big.Rat // addr/batch => retired
	lastSupRet map[uint64]*big.Rat
	lastSupCan map[uint64]*big.Rat
}

type invReg struct{ m map[string]sdk.Invariant }

func (r invReg) RegisterRoute(moduleName, route string, invar sdk.Invariant) {
	r.m[moduleName+"/"+route] = invar
}

func newAuditEnv(t *testing.T, numSigners int) *auditEnv {
	ff := fixture.NewFixtureFactory(t, numSigners)
	baseApp := ff.BaseApp()
	cdc := ff.Codec()
	amino := codec.NewLegacyAmino()

	authtypes.RegisterInterfaces(cdc.InterfaceRegistry())
	params.RegisterInterfaces(cdc.InterfaceRegistry())

	authKey := sdk.NewKVStoreKey(authtypes.StoreKey)
	ecocreditKey := sdk.NewKVStoreKey(ecocredittypes.ModuleName)
	bankKey := sdk.NewKVStoreKey(banktypes.StoreKey)
	distKey := sdk.NewKVStoreKey(disttypes.StoreKey)
	paramsKey := sdk.NewKVStoreKey(paramstypes.StoreKey)
	tkey := sdk.NewTransientStoreKey(paramstypes.TStoreKey)

	baseApp.MountStore(authKey, storetypes.StoreTypeIAVL)
	baseApp.MountStore(ecocreditKey, storetypes.StoreTypeIAVL)
	baseApp.MountStore(bankKey, storetypes.StoreTypeIAVL)
	baseApp.MountStore(distKey, storetypes.StoreTypeIAVL)
	baseApp.MountStore(paramsKey, storetypes.StoreTypeIAVL)
	baseApp.MountStore(tkey, storetypes.StoreTypeTransient)

	ecocreditSubspace := paramstypes.NewSubspace(cdc, amino, paramsKey, tkey, ecocredittypes.ModuleName)

	maccPerms := map[string][]string{
		minttypes.ModuleName:       {authtypes.Minter},
		ecocredittypes.ModuleName:  {authtypes.Burner},
		basket.BasketSubModuleName: {authtypes.Burner, authtypes.Minter},
		marketplace.FeePoolName:    {authtypes.Burner},
	}

	// the last signer is the authority
	signers := makeAuditAddrs(numSigners)
	authority := signers[numSigners-1]
	accountKeeper := authkeeper.NewAccountKeeper(
		cdc, authKey, authtypes.ProtoBaseAccount,
		maccPerms, "regen", authority.String())
	bankKeeper := bankkeeper.NewBaseKeeper(cdc, bankKey, accountKeeper, nil, authority.String())

	mod := ecocredit.NewModule(ecocreditKey, authority, accountKeeper, bankKeeper, ecocreditSubspace, nil)
	mod.RegisterInterfaces(cdc.InterfaceRegistry())
	ff.SetModules([]sdkmodules.AppModule{mod})

	fx := ff.Setup()
	e := &auditEnv{
		t:          t,
		fx:         fx,
		mod:        mod,
		bank:       bankKeeper,
		ecoKey:     ecocreditKey,
		signers:    fx.Signers(),
		now:        time.Date(2022, 6, 1, 12, 0, 0, 0, time.UTC),
		base:       basetypes.NewMsgClient(fx.TxConn()),
		basket:     baskettypes.NewMsgClient(fx.TxConn()),
		market:     markettypes.NewMsgClient(fx.TxConn()),
		invariants: map[string]sdk.Invariant{},
		issued:     map[uint64]*big.Rat{},
		sealed:     map[uint64]*big.Rat{},
		lastRet:    map[string]*big.Rat{},
		lastSupRet: map[uint64]*big.Rat{},
		lastSupCan: map[uint64]*big.Rat{},
	}
	require.Equal(t, signers, e.signers)
	mod.RegisterInvariants(invReg{e.invariants})
	require.Len(t, e.invariants, 2)
	return e
}

func makeAuditAddrs(n int) []sdk.AccAddress {
	// same derivation as fixture.makeTestAddresses (unexported)
	addrs := make([]sdk.AccAddress, n)
	for i := 0; i < n; i++ {
		key := secp256k1.GenPrivKeyFromSecret([]byte{byte(i)})
		addrs[i] = sdk.AccAddress(key.PubKey().Address())
	}
	return addrs
}

func b64(a sdk.AccAddress) string { return base64.StdEncoding.EncodeToString(a) }

// defaultGenesis: credit type C, class C01 (admin+issuer signer 0), project
// C01-001, allowed denom uregen, allowed bridge chain polygon.
func (e *auditEnv) defaultGenesis() string {
	a := b64(e.signers[0])
	return fmt.Sprintf(`{
  "regen.ecocredit.v1.CreditType": [{"abbreviation":"C","name":"carbon","precision":6,"unit":"t"}],
  "regen.ecocredit.v1.Class": [1, {"admin":"%[1]s","credit_type_abbrev":"C","id":"C01","key":"1","metadata":"m"}],
  "regen.ecocredit.v1.ClassIssuer": [{"class_key":"1","issuer":"%[1]s"}],
  "regen.ecocredit.v1.Project": [1, {"key":"1","id":"C01-001","admin":"%[1]s","class_key":"1","jurisdiction":"US-WA","metadata":"m"}],
  "regen.ecocredit.v1.ProjectSequence": [{"class_key":"1","next_sequence":"2"}],
  "regen.ecocredit.v1.AllowedBridgeChain": [{"chain_name":"polygon"}],
  "regen.ecocredit.marketplace.v1.AllowedDenom": [{"bank_denom":"uregen","display_denom":"regen","exponent":"6"}]
}`, a)
}

func (e *auditEnv) initGenesis(js string) {
	_, err := e.fx.InitGenesis(e.sdkCtx(), map[string]json.RawMessage{
		ecocredittypes.ModuleName: json.RawMessage(js),
	})
	require.NoError(e.t, err)
}

func (e *auditEnv) sdkCtx() sdk.Context {
	return sdk.UnwrapSDKContext(e.fx.Context()).WithBlockTime(e.now)
}

func (e *auditEnv) ctx() context.Context { return sdk.WrapSDKContext(e.sdkCtx()) }

// beginBlock advances time and runs the module's BeginBlocker; a panic is
// returned as an error
func (e *auditEnv) beginBlock(d time.Duration) (err error) {
	e.now = e.now.Add(d)
	defer func() {
		if r := recover(); r != nil {
			err = fmt.Errorf("BeginBlock panic: %v", r)
		}
	}()
	e.mod.BeginBlock(e.sdkCtx(), abci.RequestBeginBlock{})
	return nil
}

func (e *auditEnv) fund(addr sdk.AccAddress, coins sdk.Coins) {
	ctx := e.sdkCtx()
	require.NoError(e.t, e.bank.MintCoins(ctx, minttypes.ModuleName, coins))
	require.NoError(e.t, e.bank.SendCoinsFromModuleToAccount(ctx, minttypes.ModuleName, addr, coins))
}

// storeHash hashes the raw ecocredit KV store
func (e *auditEnv) storeHash() [32]byte {
	st := e.sdkCtx().KVStore(e.ecoKey)
	it := st.Iterator(nil, nil)
	defer it.Close()
	h := sha256.New()
	for ; it.Valid(); it.Next() {
		k, v := it.Key(), it.Value()
		if len(k) == 3 && len(v) == 0 {
			// an unset singleton (class fee, fee params, ...): import writes the
			// empty default, which reads back exactly like an absent row
			continue
		}
		fmt.Fprintf(h, "%d:%d:", len(k), len(v))
		h.Write(k)
		h.Write(v)
	}
	var out [32]byte
	copy(out[:], h.Sum(nil))
	return out
}

var rePlainDec = regexp.MustCompile(`^[0-9]+(\.[0-9]+)?$`)
var reAnyDec = regexp.MustCompile(`^([+-]?)([0-9]*)(?:\.([0-9]*))?(?:[eE]([+-]?[0-9]+))?$`)

// parseRat is an independent decimal reader (no apd involved)
func parseRat(s string) (*big.Rat, bool) {
	if s == "" {
		return new(big.Rat), true
	}
	m := reAnyDec.FindStringSubmatch(s)
	if m == nil || (m[2] == "" && m[3] == "") {
		return nil, false
	}
	digits := m[2] + m[3]
	n, ok := new(big.Int).SetString(digits, 10)
	if !ok {
		return nil, false
	}
	exp := -len(m[3])
	if m[4] != "" {
		var x int
		if _, err := fmt.Sscanf(m[4], "%d", &x); err != nil {
			return nil, false
		}
		exp += x
	}
	r := new(big.Rat).SetInt(n)
	p := new(big.Int).Exp(big.NewInt(10), big.NewInt(int64(abs(exp))), nil)
	if exp >= 0 {
		r.Mul(r, new(big.Rat).SetInt(p))
	} else {
		r.Quo(r, new(big.Rat).SetInt(p))
	}
	if m[1] == "-" {
		r.Neg(r)
	}
	return r, true
}

func abs(x int) int {
	if x < 0 {
		return -x
	}
	return x
}

// storedAmount checks the clause "every stored credit amount is a non-negative
// decimal with no more decimal places than the precision" and returns it
func (e *auditEnv) storedAmount(what, s string, problems *[]string) *big.Rat {
	if !rePlainDec.MatchString(s) {
		*problems = append(*problems, fmt.Sprintf("%s: stored amount %q is not a plain non-negative decimal", what, trunc(s)))
	}
	r, ok := parseRat(s)
	if !ok {
		*problems = append(*problems, fmt.Sprintf("%s: stored amount %q does not parse", what, trunc(s)))
		return new(big.Rat)
	}
	if r.Sign() < 0 {
		*problems = append(*problems, fmt.Sprintf("%s: stored amount %q is negative", what, trunc(s)))
	}
	if i := strings.IndexByte(s, '.'); i >= 0 && len(s)-i-1 > 6 {
		*problems = append(*problems, fmt.Sprintf("%s: stored amount %q has more than 6 decimal places", what, trunc(s)))
	}
	scaled := new(big.Rat).Mul(r, big.NewRat(1000000, 1))
	if !scaled.IsInt() {
		*problems = append(*problems, fmt.Sprintf("%s: stored amount %q is finer than the precision", what, trunc(s)))
	}
	return r
}

func trunc(s string) string {
	if len(s) > 60 {
		return s[:30] + "..." + s[len(s)-20:] + fmt.Sprintf("(len %d)", len(s))
	}
	return s
}

type snapshot struct {
	tradable, retired, cancelled map[uint64]*big.Rat // supply
	sumTradable, sumRetired      map[uint64]*big.Rat // balances (+escrow +baskets)
	accRetired                   map[string]*big.Rat
	open                         map[uint64]bool
	denomToKey                   map[string]uint64
	sellEscrow                   map[string]*big.Rat // addr/batch => sum of open sell orders
	accEscrow                    map[string]*big.Rat
}

func (e *auditEnv) snapshot(problems *[]string) *snapshot {
	ctx := e.ctx()
	bs, ks, ms := e.mod.Keeper.GetStateStores()
	s := &snapshot{
		tradable: map[uint64]*big.Rat{}, retired: map[uint64]*big.Rat{}, cancelled: map[uint64]*big.Rat{},
		sumTradable: map[uint64]*big.Rat{}, sumRetired: map[uint64]*big.Rat{},
		accRetired: map[string]*big.Rat{}, open: map[uint64]bool{}, denomToKey: map[string]uint64{},
		sellEscrow: map[string]*big.Rat{}, accEscrow: map[string]*big.Rat{},
	}
	add := func(m map[uint64]*big.Rat, k uint64, v *big.Rat) {
		if m[k] == nil {
			m[k] = new(big.Rat)
		}
		m[k].Add(m[k], v)
	}
	bit, err := bs.BatchTable().List(ctx, baseapi.BatchPrimaryKey{})
	require.NoError(e.t, err)
	for bit.Next() {
		b, err := bit.Value()
		require.NoError(e.t, err)
		s.open[b.Key] = b.Open
		s.denomToKey[b.Denom] = b.Key
		s.sumTradable[b.Key] = new(big.Rat)
		s.sumRetired[b.Key] = new(big.Rat)
	}
	bit.Close()
	sit, err := bs.BatchSupplyTable().List(ctx, baseapi.BatchSupplyPrimaryKey{})
	require.NoError(e.t, err)
	for sit.Next() {
		v, err := sit.Value()
		require.NoError(e.t, err)
		w := fmt.Sprintf("supply[%d]", v.BatchKey)
		s.tradable[v.BatchKey] = e.storedAmount(w+".tradable", v.TradableAmount, problems)
		s.retired[v.BatchKey] = e.storedAmount(w+".retired", v.RetiredAmount, problems)
		s.cancelled[v.BatchKey] = e.storedAmount(w+".cancelled", v.CancelledAmount, problems)
	}
	sit.Close()
	ait, err := bs.BatchBalanceTable().List(ctx, baseapi.BatchBalancePrimaryKey{})
	require.NoError(e.t, err)
	for ait.Next() {
		v, err := ait.Value()
		require.NoError(e.t, err)
		w := fmt.Sprintf("balance[%x/%d]", v.Address, v.BatchKey)
		id := fmt.Sprintf("%x/%d", v.Address, v.BatchKey)
		add(s.sumTradable, v.BatchKey, e.storedAmount(w+".tradable", v.TradableAmount, problems))
		esc := e.storedAmount(w+".escrowed", v.EscrowedAmount, problems)
		add(s.sumTradable, v.BatchKey, esc)
		s.accEscrow[id] = esc
		r := e.storedAmount(w+".retired", v.RetiredAmount, problems)
		add(s.sumRetired, v.BatchKey, r)
		s.accRetired[id] = r
	}
	ait.Close()
	kit, err := ks.BasketBalanceTable().List(ctx, basketapi.BasketBalancePrimaryKey{})
	require.NoError(e.t, err)
	for kit.Next() {
		v, err := kit.Value()
		require.NoError(e.t, err)
		key, ok := s.denomToKey[v.BatchDenom]
		if !ok {
			*problems = append(*problems, "basket balance for unknown batch "+v.BatchDenom)
			continue
		}
		add(s.sumTradable, key, e.storedAmount(fmt.Sprintf("basket[%d/%s]", v.BasketId, v.BatchDenom), v.Balance, problems))
	}
	kit.Close()
	oit, err := ms.SellOrderTable().List(ctx, marketapi.SellOrderPrimaryKey{})
	require.NoError(e.t, err)
	for oit.Next() {
		v, err := oit.Value()
		require.NoError(e.t, err)
		id := fmt.Sprintf("%x/%d", v.Seller, v.BatchKey)
		q, ok := parseRat(v.Quantity)
		if !ok {
			*problems = append(*problems, "sell order quantity does not parse: "+trunc(v.Quantity))
			continue
		}
		if s.sellEscrow[id] == nil {
			s.sellEscrow[id] = new(big.Rat)
		}
		s.sellEscrow[id].Add(s.sellEscrow[id], q)
	}
	oit.Close()
	return s
}

// check evaluates C01, C02, C04 against the current state
func (e *auditEnv) check() []string {
	var problems []string
	s := e.snapshot(&problems)

	keys := make([]uint64, 0, len(s.open))
	for k := range s.open {
		keys = append(keys, k)
	}
	sort.Slice(keys, func(i, j int) bool { return keys[i] < keys[j] })
	for _, k := range keys {
		if s.tradable[k] == nil {
			problems = append(problems, fmt.Sprintf("C01: batch %d has no supply row", k))
			continue
		}
		if s.tradable[k].Cmp(s.sumTradable[k]) != 0 {
			problems = append(problems, fmt.Sprintf("C01: batch %d tradable supply %s != balances+escrow+baskets %s", k, s.tradable[k].FloatString(6), s.sumTradable[k].FloatString(6)))
		}
		if s.retired[k].Cmp(s.sumRetired[k]) != 0 {
			problems = append(problems, fmt.Sprintf("C01: batch %d retired supply %s != retired balances %s", k, s.retired[k].FloatString(6), s.sumRetired[k].FloatString(6)))
		}
		total := new(big.Rat).Add(s.tradable[k], s.retired[k])
		total.Add(total, s.cancelled[k])
		if g, ok := e.issued[k]; ok {
			if g.Cmp(total) != 0 {
				problems = append(problems, fmt.Sprintf("C02: batch %d T+R+C %s != issued %s", k, total.FloatString(6), g.FloatString(6)))
			}
		}
		if !s.open[k] {
			if prev, ok := e.sealed[k]; ok {
				if prev.Cmp(total) != 0 {
					problems = append(problems, fmt.Sprintf("C02: sealed batch %d total changed %s -> %s", k, prev.FloatString(6), total.FloatString(6)))
				}
			} else {
				e.sealed[k] = total
			}
		}
		if p, ok := e.lastSupRet[k]; ok && s.retired[k].Cmp(p) < 0 {
			problems = append(problems, fmt.Sprintf("C04: batch %d retired supply decreased", k))
		}
		if p, ok := e.lastSupCan[k]; ok && s.cancelled[k].Cmp(p) < 0 {
			problems = append(problems, fmt.Sprintf("C04: batch %d cancelled supply decreased", k))
		}
		e.lastSupRet[k] = s.retired[k]
		e.lastSupCan[k] = s.cancelled[k]
	}
	for id, r := range s.accRetired {
		if p, ok := e.lastRet[id]; ok && r.Cmp(p) < 0 {
			problems = append(problems, fmt.Sprintf("C04: retired balance %s decreased", id))
		}
		e.lastRet[id] = r
	}
	for id := range e.lastRet {
		if _, ok := s.accRetired[id]; !ok {
			problems = append(problems, fmt.Sprintf("C04: retired balance row %s vanished", id))
		}
	}
	// escrow == sum of open sell orders (auxiliary, not one of the properties)
	for id, esc := range s.accEscrow {
		so := s.sellEscrow[id]
		if so == nil {
			so = new(big.Rat)
		}
		if so.Cmp(esc) != 0 {
			problems = append(problems, fmt.Sprintf("AUX: escrow %s = %s but open sell orders = %s", id, esc.FloatString(6), so.FloatString(6)))
		}
	}
	// registered invariants
	names := make([]string, 0, len(e.invariants))
	for n := range e.invariants {
		names = append(names, n)
	}
	sort.Strings(names)
	for _, n := range names {
		func() {
			defer func() {
				if r := recover(); r != nil {
					problems = append(problems, fmt.Sprintf("invariant %s panicked: %v", n, r))
				}
			}()
			if msg, broken := e.invariants[n](e.sdkCtx()); broken {
				problems = append(problems, fmt.Sprintf("C01: registered invariant %s reports: %s", n, trunc(msg)))
			}
		}()
	}
	return problems
}

// addIssued records a successful issuance in the ghost ledger
func (e *auditEnv) addIssued(batchDenom string, amounts ...string) {
	bs, _, _ := e.mod.Keeper.GetStateStores()
	b, err := bs.BatchTable().GetByDenom(e.ctx(), batchDenom)
	require.NoError(e.t, err)
	if e.issued[b.Key] == nil {
		e.issued[b.Key] = new(big.Rat)
	}
	for _, a := range amounts {
		r, ok := parseRat(a)
		require.True(e.t, ok, "ghost cannot read accepted amount %q", a)
		e.issued[b.Key].Add(e.issued[b.Key], r)
	}
}

func sameHash(a, b [32]byte) bool { return bytes.Equal(a[:], b[:]) }

var ratTen = big.NewRat(10, 1)

func (e *auditEnv) storeDump() map[string]string {
	st := e.sdkCtx().KVStore(e.ecoKey)
	it := st.Iterator(nil, nil)
	defer it.Close()
	out := map[string]string{}
	for ; it.Valid(); it.Next() {
		out[string(it.Key())] = string(it.Value())
	}
	return out
}
