//nolint:revive,stylecheck
package tests

import (
	"testing"
	"time"

	"github.com/stretchr/testify/require"

	sdk "github.com/cosmos/cosmos-sdk/types"

	basetypes "github.com/regen-network/regen-ledger/x/ecocredit/v3/base/types/v1"
	markettypes "github.com/regen-network/regen-ledger/x/ecocredit/v3/marketplace/types/v1"
)

// checked: the (class_key, reference_id) scan in BridgeReceive is not a string-prefix scan
func TestZZAuditBridgeReferenceIDPrefix(t *testing.T) {
	e := newAuditEnv(t, 3)
	e.initGenesis(e.defaultGenesis())
	alice := e.signers[0]
	start, end := time.Date(2020, 1, 1, 0, 0, 0, 0, time.UTC), time.Date(2021, 1, 1, 0, 0, 0, 0, time.UTC)
	recv := func(ref, hash, contract string) *basetypes.MsgBridgeReceiveResponse {
		res, err := e.base.BridgeReceive(e.ctx(), &basetypes.MsgBridgeReceive{Issuer: alice.String(), ClassId: "C01",
			Project:  &basetypes.MsgBridgeReceive_Project{ReferenceId: ref, Jurisdiction: "US", Metadata: "m"},
			Batch:    &basetypes.MsgBridgeReceive_Batch{Recipient: alice.String(), Amount: "1", StartDate: &start, EndDate: &end, Metadata: "m"},
			OriginTx: &basetypes.OriginTx{Id: hash, Source: "polygon", Contract: contract}})
		require.NoError(t, err)
		return res
	}
	r1 := recv("VCS-10", "0x0000000000000000000000000000000000000000000000000000000000000001", "0x1111111111111111111111111111111111111111")
	r2 := recv("VCS-1", "0x0000000000000000000000000000000000000000000000000000000000000002", "0x2222222222222222222222222222222222222222")
	t.Logf("VCS-10 -> %s, VCS-1 -> %s", r1.ProjectId, r2.ProjectId)
	require.NotEqual(t, r1.ProjectId, r2.ProjectId)
	require.Empty(t, e.check())
}

// checked: an order that expires exactly at the block time (and several orders
// with the same expiration) is un-escrowed and deleted consistently
func TestZZAuditPruneAtExactExpiry(t *testing.T) {
	e := newAuditEnv(t, 3)
	e.initGenesis(e.defaultGenesis())
	alice := e.signers[0]
	start, end := time.Date(2020, 1, 1, 0, 0, 0, 0, time.UTC), time.Date(2021, 1, 1, 0, 0, 0, 0, time.UTC)
	res, err := e.base.CreateBatch(e.ctx(), &basetypes.MsgCreateBatch{
		Issuer: alice.String(), ProjectId: "C01-001", Metadata: "m", StartDate: &start, EndDate: &end,
		Issuance: []*basetypes.BatchIssuance{{Recipient: alice.String(), TradableAmount: "100"}, {Recipient: e.signers[1].String(), TradableAmount: "100"}},
	})
	require.NoError(t, err)
	e.addIssued(res.BatchDenom, "100", "100")
	exp := e.now.Add(time.Hour).Add(123456789 * time.Nanosecond)
	exp2 := exp.Add(time.Nanosecond)
	price := &sdk.Coin{Denom: "uregen", Amount: sdk.NewInt(1)}
	for _, s := range e.signers[:2] {
		_, err = e.market.Sell(e.ctx(), &markettypes.MsgSell{Seller: s.String(), Orders: []*markettypes.MsgSell_Order{
			{BatchDenom: res.BatchDenom, Quantity: "1", AskPrice: price, Expiration: &exp},
			{BatchDenom: res.BatchDenom, Quantity: "2", AskPrice: price, Expiration: &exp},
			{BatchDenom: res.BatchDenom, Quantity: "4", AskPrice: price, Expiration: &exp2},
			{BatchDenom: res.BatchDenom, Quantity: "8", AskPrice: price},
		}})
		require.NoError(t, err)
	}
	require.Empty(t, e.check())
	require.NoError(t, e.beginBlock(exp.Sub(e.now)))
	require.Empty(t, e.check())
	bs, _, ms := e.mod.Keeper.GetStateStores()
	bal, err := bs.BatchBalanceTable().Get(e.ctx(), alice, 1)
	require.NoError(t, err)
	t.Logf("at the expiry instant: tradable %s escrowed %s", bal.TradableAmount, bal.EscrowedAmount)
	require.Equal(t, "12", bal.EscrowedAmount)
	_, err = ms.SellOrderTable().Get(e.ctx(), 1)
	require.Error(t, err)
	require.NoError(t, e.beginBlock(time.Nanosecond))
	require.Empty(t, e.check())
	bal, err = bs.BatchBalanceTable().Get(e.ctx(), alice, 1)
	require.NoError(t, err)
	require.Equal(t, "8", bal.EscrowedAmount)
}
