//nolint:revive,stylecheck
package tests

import (
	"math/rand"
	"testing"

	"github.com/regen-network/regen-ledger/types/v2/math"
)

// checked: every spelling math.NewDecFromString accepts is read as the same
// number by an independent reader; String() always re-parses to the same value
// and is a plain decimal
func TestZZAuditDecParserDifferential(t *testing.T) {
	r := rand.New(rand.NewSource(7))
	alphabet := []string{"0", "1", "2", "5", "9", ".", "e", "E", "+", "-", "_", "x", " ", "0", "00", "e-", "e+", "١", "N", "a", "I", "n", "f", "#", "/"}
	accepted, mismatches := 0, 0
	for i := 0; i < 400000; i++ {
		n := 1 + r.Intn(8)
		s := ""
		for j := 0; j < n; j++ {
			s += alphabet[r.Intn(len(alphabet))]
		}
		d, err := math.NewDecFromString(s)
		if err != nil {
			continue
		}
		accepted++
		ref, ok := parseRat(s)
		if !ok {
			mismatches++
			t.Errorf("accepted %q (= %s) but the reference reader rejects it", s, d)
			continue
		}
		back, ok := parseRat(d.String())
		if !ok || back.Cmp(ref) != 0 {
			mismatches++
			t.Errorf("%q: String() = %q, reference %s", s, d.String(), ref.RatString())
		}
		if d.IsNegative() != (ref.Sign() < 0) || d.IsZero() != (ref.Sign() == 0) || d.IsPositive() != (ref.Sign() > 0) {
			mismatches++
			t.Errorf("%q: sign predicates disagree", s)
		}
		// decimal places
		sc := ref
		places := uint32(0)
		for !sc.IsInt() {
			sc = sc.Mul(sc, ratTen)
			places++
		}
		if d.NumDecimalPlaces() < places {
			mismatches++
			t.Errorf("%q: NumDecimalPlaces %d < real %d", s, d.NumDecimalPlaces(), places)
		}
		if mismatches > 20 {
			t.FailNow()
		}
	}
	t.Logf("accepted %d spellings, %d mismatches", accepted, mismatches)
}
