//nolint:revive,stylecheck
package tests

import (
	"fmt"
	"math/big"
	"math/rand"
	"os"
	"strconv"
	"strings"
	"testing"
	"time"

	"github.com/stretchr/testify/require"

	sdk "github.com/cosmos/cosmos-sdk/types"
	gogotypes "github.com/cosmos/gogoproto/types"

	marketapi "github.com/regen-network/regen-ledger/api/v2/regen/ecocredit/marketplace/v1"
	baseapi "github.com/regen-network/regen-ledger/api/v2/regen/ecocredit/v1"
	basetypes "github.com/regen-network/regen-ledger/x/ecocredit/v3/base/types/v1"
	baskettypes "github.com/regen-network/regen-ledger/x/ecocredit/v3/basket/types/v1"
	markettypes "github.com/regen-network/regen-ledger/x/ecocredit/v3/marketplace/types/v1"
)

var exoticAmounts = []string{
	"1", "2", "3", "0.5", "1e0", "1E1", "+2", "2.", ".5", "0.000001", "1e-6", "10e-1", "0.0000010", "1e3",
	"-0", "0", "", "00.5", "1_0", "0x10", "1e+2", "１", "NaN", "Inf", "-1", "1e-7", "0.25", "7.000000",
	"0e5", "0e-6", "-0.000000", "1.5e1", "15e-1", "5", "10", "100", "0.999999", "0.100000", "1E+0", "1e-0",
	"12345678901234567890123456789012345.123456", "1e40", "9e70", "1e33", "99999999999999999999999999999999999",
	"0.1e1", "1e", "e1", ".", "+.5", "-.5", ".-5", "1.-5", "1e+-1", " 1", "1 ", "1,5", "٣", "1e1000", "3.000001",
}

func (e *auditEnv) upper(a sdk.AccAddress) string { return strings.ToUpper(a.String()) }

func TestZZAuditRandomExotic(t *testing.T) {
	seeds := []int64{1, 2, 3}
	if s := os.Getenv("ZZ_SEEDS"); s != "" {
		seeds = nil
		for _, x := range strings.Split(s, ",") {
			v, err := strconv.ParseInt(x, 10, 64)
			require.NoError(t, err)
			seeds = append(seeds, v)
		}
	}
	steps := 1500
	if s := os.Getenv("ZZ_STEPS"); s != "" {
		steps, _ = strconv.Atoi(s)
	}
	for _, seed := range seeds {
		seed := seed
		t.Run(fmt.Sprintf("seed%d", seed), func(t *testing.T) { runRandom(t, seed, steps) })
	}
}

func runRandom(t *testing.T, seed int64, steps int) {
	r := rand.New(rand.NewSource(seed))
	e := newAuditEnv(t, 5)
	e.initGenesis(e.defaultGenesis())
	users := e.signers[:4]
	authority := e.signers[4]
	_ = authority
	for _, u := range users {
		e.fund(u, sdk.NewCoins(sdk.NewCoin("uregen", sdk.NewInt(1_000_000_000))))
	}
	amt := func() string { return exoticAmounts[r.Intn(len(exoticAmounts))] }
	sane := func() string {
		return []string{"1", "0.5", "2", "0.000001", "1e0", "3", "10", "1.5e1", "0.25"}[r.Intn(9)]
	}
	pickAmt := func() string {
		if r.Intn(6) == 0 {
			return amt()
		}
		return sane()
	}
	user := func() sdk.AccAddress { return users[r.Intn(len(users))] }
	spell := func(a sdk.AccAddress) string {
		if r.Intn(6) == 0 {
			return e.upper(a)
		}
		return a.String()
	}
	var denoms []string
	var baskets []string
	denom := func() string {
		if len(denoms) == 0 || r.Intn(25) == 0 {
			return "C01-001-20200101-20210101-999"
		}
		return denoms[r.Intn(len(denoms))]
	}
	txn := 0
	ethHash := func() string {
		txn++
		if r.Intn(5) == 0 && txn > 1 {
			return fmt.Sprintf("0x%064x", r.Intn(txn))
		}
		return fmt.Sprintf("0x%064x", txn)
	}
	contracts := []string{"0x0E65079a29d7793ab5CA500c2d88e60EE99bA606", "0x0e65079a29d7793ab5ca500c2d88e60ee99ba606", "0x1111111111111111111111111111111111111111"}
	sellIDs := func() []uint64 {
		_, _, ms := e.mod.Keeper.GetStateStores()
		it, err := ms.SellOrderTable().List(e.ctx(), marketapi.SellOrderPrimaryKey{})
		require.NoError(t, err)
		defer it.Close()
		var ids []uint64
		for it.Next() {
			v, _ := it.Value()
			ids = append(ids, v.Id)
		}
		return ids
	}
	start, end := time.Date(2020, 1, 1, 0, 0, 0, 0, time.UTC), time.Date(2021, 1, 1, 0, 0, 0, 0, time.UTC)

	var trace []string
	okCount, errCount := map[string]int{}, map[string]int{}
	lastErr := map[string]string{}
	fail := func(problems []string) {
		n := len(trace)
		if n > 12 {
			trace = trace[n-12:]
		}
		t.Fatalf("seed %d: violations:\n  %s\nlast messages:\n  %s", seed, strings.Join(problems, "\n  "), strings.Join(trace, "\n  "))
	}

	for step := 0; step < steps; step++ {
		before := e.storeHash()
		var err error
		var desc string
		var onOK func()
		skip := func() (skip bool) {
			defer func() {
				if rec := recover(); rec != nil {
					err = fmt.Errorf("PANIC (recovered like baseapp.runTx does): %v", rec)
				}
			}()
			switch k := r.Intn(20); k {
			case 0: // CreateBatch
				if len(denoms) >= 5 && r.Intn(10) != 0 {
					return true
				}
				n := 4 + r.Intn(3)
				var iss []*basetypes.BatchIssuance
				var amounts []string
				for i := 0; i < n; i++ {
					ta, ra := []string{"100", "1e3", "250.5", "99.999999", "1e2"}[r.Intn(5)], ""
					if r.Intn(12) == 0 {
						ta = amt()
					}
					if r.Intn(2) == 0 {
						ra = pickAmt()
					}
					iss = append(iss, &basetypes.BatchIssuance{Recipient: spell(users[i%4]), TradableAmount: ta, RetiredAmount: ra, RetirementJurisdiction: "US"})
					amounts = append(amounts, ta, ra)
				}
				s2 := start.AddDate(0, 0, r.Intn(300))
				msg := &basetypes.MsgCreateBatch{Issuer: users[0].String(), ProjectId: "C01-001", Metadata: "m", StartDate: &s2, EndDate: &end, Open: r.Intn(2) == 0, Issuance: iss}
				if r.Intn(4) == 0 {
					msg.OriginTx = &basetypes.OriginTx{Id: ethHash(), Source: "polygon", Contract: contracts[r.Intn(len(contracts))]}
				}
				desc = fmt.Sprintf("CreateBatch %v", amounts)
				var res *basetypes.MsgCreateBatchResponse
				res, err = e.base.CreateBatch(e.ctx(), msg)
				onOK = func() { denoms = append(denoms, res.BatchDenom); e.addIssued(res.BatchDenom, amounts...) }
			case 1: // Mint
				d := denom()
				ta, ra := pickAmt(), pickAmt()
				desc = fmt.Sprintf("Mint %s %q %q", d, ta, ra)
				_, err = e.base.MintBatchCredits(e.ctx(), &basetypes.MsgMintBatchCredits{Issuer: users[0].String(), BatchDenom: d,
					Issuance: []*basetypes.BatchIssuance{{Recipient: spell(user()), TradableAmount: ta, RetiredAmount: ra, RetirementJurisdiction: "US"}},
					OriginTx: &basetypes.OriginTx{Id: ethHash(), Source: "polygon"}})
				onOK = func() { e.addIssued(d, ta, ra) }
			case 2: // Seal
				if r.Intn(30) != 0 {
					return true
				}
				d := denom()
				desc = "Seal " + d
				_, err = e.base.SealBatch(e.ctx(), &basetypes.MsgSealBatch{Issuer: users[0].String(), BatchDenom: d})
			case 3, 4: // Send
				from, to := user(), user()
				var cs []*basetypes.MsgSend_SendCredits
				for i := 0; i <= r.Intn(5)/3; i++ {
					cs = append(cs, &basetypes.MsgSend_SendCredits{BatchDenom: denom(), TradableAmount: pickAmt(), RetiredAmount: pickAmt(), RetirementJurisdiction: "US"})
				}
				rs := to.String()
				if from.Equals(to) {
					rs = e.upper(to)
				}
				desc = fmt.Sprintf("Send %v", cs)
				_, err = e.base.Send(e.ctx(), &basetypes.MsgSend{Sender: from.String(), Recipient: rs, Credits: cs})
			case 5: // Retire
				var cs []*basetypes.Credits
				for i := 0; i <= r.Intn(5)/3; i++ {
					cs = append(cs, &basetypes.Credits{BatchDenom: denom(), Amount: pickAmt()})
				}
				desc = fmt.Sprintf("Retire %v", cs)
				_, err = e.base.Retire(e.ctx(), &basetypes.MsgRetire{Owner: user().String(), Credits: cs, Jurisdiction: "US"})
			case 6: // Cancel
				var cs []*basetypes.Credits
				for i := 0; i <= r.Intn(5)/3; i++ {
					cs = append(cs, &basetypes.Credits{BatchDenom: denom(), Amount: pickAmt()})
				}
				desc = fmt.Sprintf("Cancel %v", cs)
				_, err = e.base.Cancel(e.ctx(), &basetypes.MsgCancel{Owner: user().String(), Credits: cs, Reason: "r"})
			case 7: // Bridge
				var cs []*basetypes.Credits
				for i := 0; i <= r.Intn(5)/3; i++ {
					cs = append(cs, &basetypes.Credits{BatchDenom: denom(), Amount: pickAmt()})
				}
				desc = fmt.Sprintf("Bridge %v", cs)
				_, err = e.base.Bridge(e.ctx(), &basetypes.MsgBridge{Owner: user().String(), Target: []string{"polygon", "POLYGON"}[r.Intn(2)], Recipient: "0x1111111111111111111111111111111111111111", Credits: cs})
			case 8: // BridgeReceive
				if len(denoms) >= 5 && r.Intn(4) != 0 {
					return true
				}
				a := pickAmt()
				s2 := start.AddDate(0, 0, r.Intn(300))
				desc = "BridgeReceive " + a
				var res *basetypes.MsgBridgeReceiveResponse
				res, err = e.base.BridgeReceive(e.ctx(), &basetypes.MsgBridgeReceive{Issuer: users[0].String(), ClassId: "C01",
					Project:  &basetypes.MsgBridgeReceive_Project{ReferenceId: []string{"VCS-1", "VCS-2"}[r.Intn(2)], Jurisdiction: "US", Metadata: "m"},
					Batch:    &basetypes.MsgBridgeReceive_Batch{Recipient: spell(user()), Amount: a, StartDate: &s2, EndDate: &end, Metadata: "m"},
					OriginTx: &basetypes.OriginTx{Id: ethHash(), Source: []string{"polygon", "Polygon"}[r.Intn(2)], Contract: contracts[r.Intn(len(contracts))]}})
				onOK = func() {
					found := false
					for _, d := range denoms {
						if d == res.BatchDenom {
							found = true
						}
					}
					if !found {
						denoms = append(denoms, res.BatchDenom)
					}
					e.addIssued(res.BatchDenom, a)
				}
			case 9: // basket Create
				if len(baskets) >= 3 {
					return true
				}
				name := []string{"NCT", "ABC", "XYZ"}[len(baskets)]
				var res *baskettypes.MsgCreateResponse
				msg := &baskettypes.MsgCreate{Curator: users[1].String(), Name: name, CreditTypeAbbrev: "C", AllowedClasses: []string{"C01"}, DisableAutoRetire: r.Intn(2) == 0}
				if r.Intn(2) == 0 {
					d := start.AddDate(0, 0, 200)
					msg.DateCriteria = &baskettypes.DateCriteria{MinStartDate: timestampOf(d)}
				}
				desc = "basket.Create " + name
				res, err = e.basket.Create(e.ctx(), msg)
				onOK = func() { baskets = append(baskets, res.BasketDenom) }
			case 10, 11: // Put
				if len(baskets) == 0 {
					return true
				}
				var cs []*baskettypes.BasketCredit
				for i := 0; i <= r.Intn(5)/3; i++ {
					cs = append(cs, &baskettypes.BasketCredit{BatchDenom: denom(), Amount: pickAmt()})
				}
				desc = fmt.Sprintf("Put %v", cs)
				_, err = e.basket.Put(e.ctx(), &baskettypes.MsgPut{Owner: user().String(), BasketDenom: baskets[r.Intn(len(baskets))], Credits: cs})
			case 12, 13: // Take
				if len(baskets) == 0 {
					return true
				}
				a := []string{"1", "1000000", "500000", "01", "0x10", "1e3", "+5", "-1", "0", "2500001", "10000000", "1_000", "٣"}[r.Intn(13)]
				desc = "Take " + a
				_, err = e.basket.Take(e.ctx(), &baskettypes.MsgTake{Owner: user().String(), BasketDenom: baskets[r.Intn(len(baskets))], Amount: a, RetireOnTake: r.Intn(2) == 0, RetirementJurisdiction: "US"})
			case 14, 15: // Sell
				var os []*markettypes.MsgSell_Order
				for i := 0; i <= r.Intn(5)/3; i++ {
					o := &markettypes.MsgSell_Order{BatchDenom: denom(), Quantity: pickAmt(), AskPrice: &sdk.Coin{Denom: "uregen", Amount: sdk.NewInt(int64(1 + r.Intn(5)))}, DisableAutoRetire: r.Intn(2) == 0}
					if r.Intn(2) == 0 {
						x := e.now.Add(time.Duration(r.Intn(5)) * time.Hour)
						o.Expiration = &x
					}
					os = append(os, o)
				}
				desc = fmt.Sprintf("Sell %v", os)
				_, err = e.market.Sell(e.ctx(), &markettypes.MsgSell{Seller: user().String(), Orders: os})
			case 16: // UpdateSellOrders
				ids := sellIDs()
				if len(ids) == 0 {
					return true
				}
				var us []*markettypes.MsgUpdateSellOrders_Update
				for i := 0; i <= r.Intn(5)/3; i++ {
					u := &markettypes.MsgUpdateSellOrders_Update{SellOrderId: ids[r.Intn(len(ids))], DisableAutoRetire: r.Intn(2) == 0}
					u.NewAskPrice = &sdk.Coin{Denom: "uregen", Amount: sdk.NewInt(int64(1 + r.Intn(5)))}
					u.NewQuantity = pickAmt()
					if r.Intn(3) == 0 {
						x := e.now.Add(time.Duration(r.Intn(5)) * time.Hour)
						u.NewExpiration = &x
					}
					us = append(us, u)
				}
				_, _, ms := e.mod.Keeper.GetStateStores()
				so, _ := ms.SellOrderTable().Get(e.ctx(), us[0].SellOrderId)
				seller := user()
				if so != nil && r.Intn(4) != 0 {
					seller = so.Seller
				}
				desc = fmt.Sprintf("UpdateSellOrders %v", us)
				_, err = e.market.UpdateSellOrders(e.ctx(), &markettypes.MsgUpdateSellOrders{Seller: seller.String(), Updates: us})
			case 17: // CancelSellOrder
				ids := sellIDs()
				if len(ids) == 0 {
					return true
				}
				id := ids[r.Intn(len(ids))]
				_, _, ms := e.mod.Keeper.GetStateStores()
				so, _ := ms.SellOrderTable().Get(e.ctx(), id)
				seller := user()
				if so != nil && r.Intn(4) != 0 {
					seller = so.Seller
				}
				desc = fmt.Sprintf("CancelSellOrder %d", id)
				_, err = e.market.CancelSellOrder(e.ctx(), &markettypes.MsgCancelSellOrder{Seller: seller.String(), SellOrderId: id})
			case 18: // BuyDirect
				ids := sellIDs()
				if len(ids) == 0 {
					return true
				}
				var os []*markettypes.MsgBuyDirect_Order
				for i := 0; i <= r.Intn(5)/3; i++ {
					os = append(os, &markettypes.MsgBuyDirect_Order{SellOrderId: ids[r.Intn(len(ids))], Quantity: pickAmt(), BidPrice: &sdk.Coin{Denom: "uregen", Amount: sdk.NewInt(int64(1 + r.Intn(6)))},
						DisableAutoRetire: r.Intn(2) == 0, RetirementJurisdiction: "US"})
				}
				desc = fmt.Sprintf("BuyDirect %v", os)
				_, err = e.market.BuyDirect(e.ctx(), &markettypes.MsgBuyDirect{Buyer: user().String(), Orders: os})
			case 19: // new block
				desc = "BeginBlock"
				err = e.beginBlock(time.Duration(r.Intn(120)) * time.Minute)
				if err != nil {
					fail([]string{"BeginBlock failed: " + err.Error()})
				}
			}
			return false
		}()
		if skip {
			step--
			continue
		}
		status := "ok"
		if err != nil {
			status = "ERR " + trunc(err.Error())
		}
		trace = append(trace, fmt.Sprintf("#%d %s => %s", step, trunc(desc), status))
		kind := strings.SplitN(desc, " ", 2)[0]
		if err != nil {
			errCount[kind]++
			lastErr[kind] = trunc(err.Error())
		} else {
			okCount[kind]++
		}
		if err != nil {
			if !sameHash(before, e.storeHash()) {
				fail([]string{"failed message changed the ecocredit store"})
			}
		} else if onOK != nil {
			onOK()
		}
		if p := e.check(); len(p) > 0 {
			fail(p)
		}
	}
	// restart: export, validate, import into a fresh chain, compare
	exported, err := e.fx.ExportGenesis(e.sdkCtx())
	require.NoError(t, err)
	ecoGen := exported["ecocredit"]
	if verr := e.mod.ValidateGenesis(e.fx.Codec(), nil, ecoGen); verr != nil {
		t.Errorf("seed %d: exported genesis is rejected: %v", seed, verr)
	}
	e2 := newAuditEnv(t, 5)
	e2.now = e.now
	e2.initGenesis(string(ecoGen))
	if !sameHash(e.storeHash(), e2.storeHash()) {
		t.Errorf("seed %d: raw store differs after export/import", seed)
		a, b := e.storeDump(), e2.storeDump()
		n := 0
		for k, v := range a {
			if w, ok := b[k]; !ok {
				t.Logf("  only before: %x => %x", k, v)
				n++
			} else if w != v {
				t.Logf("  differs: %x\n     before %x\n     after  %x", k, v, w)
				n++
			}
			if n > 6 {
				break
			}
		}
		for k, v := range b {
			if _, ok := a[k]; !ok {
				t.Logf("  only after: %x => %x", k, v)
				n++
			}
			if n > 12 {
				break
			}
		}
	}
	for k, v := range e.issued {
		e2.issued[k] = v
	}
	e2.lastRet, e2.lastSupRet, e2.lastSupCan, e2.sealed = e.lastRet, e.lastSupRet, e.lastSupCan, e.sealed
	if p := e2.check(); len(p) > 0 {
		// basket-supply needs the bank genesis as well, which this harness does not carry over
		var real []string
		for _, x := range p {
			if !strings.Contains(x, "basket-supply") {
				real = append(real, x)
			}
		}
		if len(real) > 0 {
			t.Errorf("seed %d: after restart: %v", seed, real)
		}
	}
	require.NoError(t, e2.beginBlock(6*time.Hour))
	require.NoError(t, e.beginBlock(6*time.Hour))
	if !sameHash(e.storeHash(), e2.storeHash()) {
		t.Errorf("seed %d: raw store differs after the first block following the restart", seed)
	}

	// summary of coverage
	bs, _, _ := e.mod.Keeper.GetStateStores()
	it, _ := bs.BatchSupplyTable().List(e.ctx(), baseapi.BatchSupplyPrimaryKey{})
	n := 0
	tot := new(big.Rat)
	for it.Next() {
		v, _ := it.Value()
		n++
		x, _ := parseRat(v.RetiredAmount)
		tot.Add(tot, x)
	}
	it.Close()
	t.Logf("seed %d: %d batches, %d baskets, total retired %s", seed, n, len(baskets), trunc(tot.FloatString(6)))
	for k := range errCount {
		if _, ok := okCount[k]; !ok {
			okCount[k] = 0
		}
	}
	for k, v := range okCount {
		t.Logf("  %-18s ok %4d  err %4d  last err: %s", k, v, errCount[k], lastErr[k])
	}
}

func timestampOf(d time.Time) *gogotypes.Timestamp {
	return &gogotypes.Timestamp{Seconds: d.Unix(), Nanos: int32(d.Nanosecond())}
}
