//nolint:revive,stylecheck
package tests

import (
	"testing"
	"time"

	"github.com/stretchr/testify/require"

	sdk "github.com/cosmos/cosmos-sdk/types"

	basetypes "github.com/regen-network/regen-ledger/x/ecocredit/v3/base/types/v1"
	markettypes "github.com/regen-network/regen-ledger/x/ecocredit/v3/marketplace/types/v1"
)

// how much gas do the three messages of the halt scenario cost?
func TestZZAudit1c_GasOfHaltScenario(t *testing.T) {
	e := newAuditEnv(t, 4)
	e.initGenesis(e.defaultGenesis())
	alice := e.signers[0]
	start, end := time.Date(2020, 1, 1, 0, 0, 0, 0, time.UTC), time.Date(2021, 1, 1, 0, 0, 0, 0, time.UTC)
	gm := sdk.NewInfiniteGasMeter()
	ctx := func() sdk.Context { return e.sdkCtx().WithGasMeter(gm) }
	res, err := e.base.CreateBatch(sdk.WrapSDKContext(ctx()), &basetypes.MsgCreateBatch{
		Issuer: alice.String(), ProjectId: "C01-001", Metadata: "m", StartDate: &start, EndDate: &end,
		Issuance: []*basetypes.BatchIssuance{{Recipient: alice.String(), TradableAmount: "2e99995"}},
	})
	require.NoError(t, err)
	t.Logf("CreateBatch: %d gas", gm.GasConsumed())
	last := gm.GasConsumed()
	exp := e.now.Add(time.Hour)
	price := &sdk.Coin{Denom: "uregen", Amount: sdk.NewInt(1)}
	_, err = e.market.Sell(sdk.WrapSDKContext(ctx()), &markettypes.MsgSell{Seller: alice.String(), Orders: []*markettypes.MsgSell_Order{
		{BatchDenom: res.BatchDenom, Quantity: "1e99995", AskPrice: price, Expiration: &exp},
	}})
	require.NoError(t, err)
	t.Logf("Sell #1: %d gas", gm.GasConsumed()-last)
	last = gm.GasConsumed()
	_, err = e.market.Sell(sdk.WrapSDKContext(ctx()), &markettypes.MsgSell{Seller: alice.String(), Orders: []*markettypes.MsgSell_Order{
		{BatchDenom: res.BatchDenom, Quantity: "0.000001", AskPrice: price},
	}})
	require.NoError(t, err)
	t.Logf("Sell #2: %d gas", gm.GasConsumed()-last)
}
