package keeper

import (
	"testing"
	"unicode/utf8"

	"github.com/stretchr/testify/require"

	"github.com/cosmos/cosmos-sdk/codec"
	codectypes "github.com/cosmos/cosmos-sdk/codec/types"
	"github.com/cosmos/cosmos-sdk/orm/types/ormjson"
	txtypes "github.com/cosmos/cosmos-sdk/types/tx"
	authtx "github.com/cosmos/cosmos-sdk/x/auth/tx"

	api "github.com/regen-network/regen-ledger/api/v2/regen/ecocredit/v1"
	types "github.com/regen-network/regen-ledger/x/ecocredit/v3/base/types/v1"
	"github.com/regen-network/regen-ledger/x/ecocredit/v3/genesis"
)

// ZZAudit1 (C09): string fields that are not valid UTF-8 pass the SDK
// transaction decoder and ValidateBasic, are stored by the ORM, and from then
// on the ecocredit state can no longer be exported (protojson refuses the
// string). Class metadata can be repaired by the admin; a project reference id
// can never be changed, so one MsgCreateProject breaks export permanently.
func TestZZAudit1InvalidUTF8BreaksExport(t *testing.T) {
	s := setupBase(t)

	bad := "ref\xff\xfe"
	require.False(t, utf8.ValidString(bad))

	// 1. what the transaction decoder of the node (CheckTx/DeliverTx) does
	//    with such a message: it accepts it unchanged
	ir := codectypes.NewInterfaceRegistry()
	types.RegisterTypes(ir)
	cdc := codec.NewProtoCodec(ir)

	msgs := []codectypes.Any{}
	for _, m := range []interface {
		ValidateBasic() error
		ProtoMessage()
		Reset()
		String() string
	}{
		&types.MsgCreateClass{Admin: s.addr.String(), Issuers: []string{s.addr.String()}, Metadata: bad, CreditTypeAbbrev: "C"},
		&types.MsgCreateProject{Admin: s.addr.String(), ClassId: "C01", Metadata: "m", Jurisdiction: "US", ReferenceId: bad},
	} {
		a, err := codectypes.NewAnyWithValue(m)
		require.NoError(t, err)
		msgs = append(msgs, *a)
	}
	bodyBz, err := cdc.Marshal(&txtypes.TxBody{Messages: []*codectypes.Any{&msgs[0], &msgs[1]}})
	require.NoError(t, err)
	authBz, err := cdc.Marshal(&txtypes.AuthInfo{Fee: &txtypes.Fee{GasLimit: 200000}})
	require.NoError(t, err)
	txBz, err := cdc.Marshal(&txtypes.TxRaw{BodyBytes: bodyBz, AuthInfoBytes: authBz, Signatures: [][]byte{{1}}})
	require.NoError(t, err)

	tx, err := authtx.DefaultTxDecoder(cdc)(txBz)
	require.NoError(t, err, "the transaction decoder accepts invalid UTF-8")
	createClass := tx.GetMsgs()[0].(*types.MsgCreateClass)
	createProject := tx.GetMsgs()[1].(*types.MsgCreateProject)
	require.Equal(t, bad, createClass.Metadata)
	require.Equal(t, bad, createProject.ReferenceId)
	require.NoError(t, createClass.ValidateBasic())
	require.NoError(t, createProject.ValidateBasic())

	// 2. the handlers accept the messages
	require.NoError(t, s.stateStore.CreditTypeTable().Insert(s.ctx, &api.CreditType{
		Abbreviation: "C", Name: "carbon", Unit: "t", Precision: 6,
	}))
	require.NoError(t, s.stateStore.ClassCreatorAllowlistTable().Save(s.ctx, &api.ClassCreatorAllowlist{Enabled: false}))
	require.NoError(t, s.stateStore.ClassFeeTable().Save(s.ctx, &api.ClassFee{}))

	export := func() ([]byte, error) {
		target := ormjson.NewRawMessageTarget()
		// this is what server.ExportGenesis does; module.ExportGenesis panics on the error
		if err := s.db.ExportJSON(s.ctx, target); err != nil {
			return nil, err
		}
		return target.JSON()
	}

	doc, err := export()
	require.NoError(t, err)
	require.NoError(t, genesis.ValidateGenesis(doc))

	// a class with valid metadata, then a project with the bad reference id
	createClass.Metadata = "fine"
	_, err = s.k.CreateClass(s.ctx, createClass)
	require.NoError(t, err)
	_, err = s.k.CreateProject(s.ctx, createProject)
	require.NoError(t, err, "the handler accepts the message")

	// 3. the state can no longer be exported
	_, err = export()
	t.Logf("ExportJSON: %v", err)
	require.NoError(t, err, "C09: every reachable state must be exportable")
}
