package keeper

import (
	"fmt"
	"testing"
	"time"

	"github.com/golang/mock/gomock"
	"github.com/stretchr/testify/require"
	"google.golang.org/protobuf/types/known/timestamppb"

	sdk "github.com/cosmos/cosmos-sdk/types"

	basetypes "github.com/regen-network/regen-ledger/x/ecocredit/v3/base/types/v1"
	types "github.com/regen-network/regen-ledger/x/ecocredit/v3/marketplace/types/v1"
)

func zzSetupOrder(t *testing.T, quantity string) *baseSuite {
	s := setupBase(t, 2)
	start := timestamppb.New(time.Date(2020, 1, 1, 0, 0, 0, 0, time.UTC))
	end := timestamppb.New(time.Date(2021, 1, 1, 0, 0, 0, 0, time.UTC))
	s.testSellSetup(testBatchDenom, "uregen", "regen", testClassID, start, end, basetypes.CreditType{Abbreviation: "C", Precision: 6})
	ask := sdk.NewInt64Coin("uregen", 10)
	_, err := s.k.Sell(s.ctx, &types.MsgSell{Seller: s.addrs[0].String(), Orders: []*types.MsgSell_Order{{
		BatchDenom: testBatchDenom, Quantity: quantity, AskPrice: &ask, DisableAutoRetire: true,
	}}})
	require.NoError(t, err)
	return s
}

// ZZAudit4: the governance message and the state validator accept any
// non-negative buyer fee rate and any exponent, but BuyDirect can only
// execute a small part of that domain: with a large rate it panics, with a
// rate whose exponent is very small it fails with an arithmetic error.
func TestZZAudit4FeeParamsDomain(t *testing.T) {
	for _, tc := range []struct{ buyer, seller, qty string }{
		{"1e80", "0", "1"},
		{"0", "1e-100000", "0.5"},
		{"1e-100000", "0", "0.5"},
	} {
		s := zzSetupOrder(t, "10")
		fees := &types.FeeParams{BuyerPercentageFee: tc.buyer, SellerPercentageFee: tc.seller}
		require.NoError(t, fees.Validate())
		govMsg := &types.MsgGovSetFeeParams{Authority: s.k.authority.String(), Fees: fees}
		require.NoError(t, govMsg.ValidateBasic())
		_, err := s.k.GovSetFeeParams(s.ctx, govMsg)
		require.NoError(t, err, "governance accepts the parameters")

		// the buyer is as rich as an account can be
		max, ok := sdk.NewIntFromString("115792089237316195423570985008687907853269984665640564039457584007913129639935")
		require.True(t, ok)
		s.bankKeeper.EXPECT().GetBalance(gomock.Any(), gomock.Any(), gomock.Any()).Return(sdk.NewCoin("uregen", max)).AnyTimes()
		s.bankKeeper.EXPECT().SendCoins(gomock.Any(), gomock.Any(), gomock.Any(), gomock.Any()).Return(nil).AnyTimes()
		s.bankKeeper.EXPECT().SendCoinsFromAccountToModule(gomock.Any(), gomock.Any(), gomock.Any(), gomock.Any()).Return(nil).AnyTimes()
		s.bankKeeper.EXPECT().BurnCoins(gomock.Any(), gomock.Any(), gomock.Any()).Return(nil).AnyTimes()

		bid := sdk.NewInt64Coin("uregen", 10)
		maxFee := sdk.NewCoin("uregen", max)
		buy := &types.MsgBuyDirect{Buyer: s.addrs[1].String(), Orders: []*types.MsgBuyDirect_Order{{
			SellOrderId: 1, Quantity: tc.qty, BidPrice: &bid, DisableAutoRetire: true, MaxFeeAmount: &maxFee,
		}}}
		require.NoError(t, buy.ValidateBasic())

		outcome := func() (out string) {
			defer func() {
				if r := recover(); r != nil {
					out = fmt.Sprintf("PANIC: %v", r)
				}
			}()
			_, err := s.k.BuyDirect(s.ctx, buy)
			if err != nil {
				return "error: " + err.Error()
			}
			return "ok"
		}()
		t.Logf("buyer fee %s, seller fee %s, quantity %s: %s", tc.buyer, tc.seller, tc.qty, outcome)
		if outcome != "ok" {
			t.Errorf("accepted fee parameters (buyer %s, seller %s) make BuyDirect abort: %s", tc.buyer, tc.seller, outcome)
		}
	}
}
