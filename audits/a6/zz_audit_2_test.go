package server

import (
	"testing"
	"unicode/utf8"

	gogoproto "github.com/cosmos/gogoproto/proto"
	"github.com/stretchr/testify/require"

	"github.com/regen-network/regen-ledger/x/data/v3"
)

// ZZAudit2: any account can define a resolver whose URL is not valid UTF-8.
// The row can never be changed or removed, and from then on the data module
// state cannot be exported.
func TestZZAudit2ResolverURLInvalidUTF8(t *testing.T) {
	s := setupBase(t)

	bad := "https://foo.bar/\xff\xfe"
	require.False(t, utf8.ValidString(bad))

	msg := &data.MsgDefineResolver{Definer: s.addrs[0].String(), ResolverUrl: bad}

	// what arrives over the wire
	bz, err := gogoproto.Marshal(msg)
	require.NoError(t, err)
	var decoded data.MsgDefineResolver
	require.NoError(t, gogoproto.Unmarshal(bz, &decoded))
	require.NoError(t, decoded.ValidateBasic())

	// before: export works
	_, err = s.server.ExportGenesis(s.sdkCtx, nil)
	require.NoError(t, err)

	res, err := s.server.DefineResolver(s.ctx, &decoded)
	require.NoError(t, err)
	require.Equal(t, uint64(1), res.ResolverId)

	// after: export fails
	_, err = s.server.ExportGenesis(s.sdkCtx, nil)
	t.Logf("ExportGenesis error: %v", err)
	require.NoError(t, err, "C09: every reachable state must be exportable")
}
