package keeper

import (
	"testing"
	"time"

	"github.com/stretchr/testify/require"

	sdk "github.com/cosmos/cosmos-sdk/types"
)

// ZZAudit7 (outside C09/C10/C18/C20): the BeginBlocker prunes the range
// [1ns after the unix epoch, block time]. For a block time at (or before) the
// unix epoch the range is empty/inverted, the ORM rejects it, PruneSellOrders
// returns an error and module.BeginBlock panics: a chain (or test chain) whose
// genesis time is 1970-01-01T00:00:00Z cannot produce its first block.
func TestZZAudit7PruneAtEpoch(t *testing.T) {
	for _, bt := range []time.Time{time.Unix(0, 2).UTC(), time.Unix(0, 1).UTC(), time.Unix(0, 0).UTC(), time.Unix(-1, 0).UTC()} {
		s := setupBase(t, 1)
		ctx := s.sdkCtx.WithBlockTime(bt)
		err := s.k.PruneSellOrders(sdk.WrapSDKContext(ctx))
		t.Logf("block time %s: %v", bt.Format(time.RFC3339Nano), err)
		if err != nil {
			t.Errorf("block time %s: BeginBlock would panic: %v", bt.Format(time.RFC3339Nano), err)
		}
	}
	require.True(t, true)
}
