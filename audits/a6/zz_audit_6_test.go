package keeper

import (
	"strings"
	"testing"
	"time"

	"github.com/stretchr/testify/require"

	api "github.com/regen-network/regen-ledger/api/v2/regen/ecocredit/v1"
	types "github.com/regen-network/regen-ledger/x/ecocredit/v3/base/types/v1"
)

// ZZAudit6 (outside C09/C10/C18/C20, same family as known item 3): Ethereum
// transaction hashes and contract addresses are hexadecimal and therefore
// case-insensitive, the validators accept both cases, but the origin-tx replay
// index and the batch-contract index compare the spelling. The same Ethereum
// transaction can be bridged in twice, and the second receipt does not find the
// batch of its contract.
func TestZZAudit6BridgeReceiveHexCase(t *testing.T) {
	s := setupBase(t)
	require.NoError(t, s.stateStore.CreditTypeTable().Insert(s.ctx, &api.CreditType{Abbreviation: "C", Name: "carbon", Unit: "t", Precision: 6}))
	classKey, err := s.stateStore.ClassTable().InsertReturningID(s.ctx, &api.Class{Id: "C01", Admin: s.addr, CreditTypeAbbrev: "C"})
	require.NoError(t, err)
	require.NoError(t, s.stateStore.ClassIssuerTable().Insert(s.ctx, &api.ClassIssuer{ClassKey: classKey, Issuer: s.addr}))
	require.NoError(t, s.stateStore.AllowedBridgeChainTable().Insert(s.ctx, &api.AllowedBridgeChain{ChainName: "polygon"}))

	start, end := time.Date(2020, 1, 1, 0, 0, 0, 0, time.UTC), time.Date(2021, 1, 1, 0, 0, 0, 0, time.UTC)
	txHash := "0x" + strings.Repeat("ab", 32)
	contract := "0x" + strings.Repeat("cd", 20)
	mk := func(id, contract string) *types.MsgBridgeReceive {
		return &types.MsgBridgeReceive{
			Issuer:  s.addr.String(),
			ClassId: "C01",
			Project: &types.MsgBridgeReceive_Project{ReferenceId: "VCS-1", Jurisdiction: "US", Metadata: "m"},
			Batch:   &types.MsgBridgeReceive_Batch{Recipient: s.addr2.String(), Amount: "10", StartDate: &start, EndDate: &end, Metadata: "m"},
			OriginTx: &types.OriginTx{Id: id, Source: "polygon", Contract: contract},
		}
	}

	m1 := mk(txHash, contract)
	require.NoError(t, m1.ValidateBasic())
	r1, err := s.k.BridgeReceive(s.ctx, m1)
	require.NoError(t, err)

	// the identical message is a replay and is rejected
	_, err = s.k.BridgeReceive(s.ctx, mk(txHash, contract))
	require.Error(t, err)

	// the same Ethereum transaction and contract, spelled in upper-case hex
	m2 := mk("0x"+strings.ToUpper(txHash[2:]), "0x"+strings.ToUpper(contract[2:]))
	require.NoError(t, m2.ValidateBasic())
	r2, err := s.k.BridgeReceive(s.ctx, m2)
	t.Logf("first: %v; second: %v err=%v", r1, r2, err)
	require.Error(t, err, "the same origin transaction must not be bridged in twice")
}
