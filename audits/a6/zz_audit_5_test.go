package keeper

import (
	"testing"
	"time"

	"github.com/cosmos/cosmos-sdk/orm/types/ormjson"
	"github.com/stretchr/testify/require"

	api "github.com/regen-network/regen-ledger/api/v2/regen/ecocredit/v1"
	types "github.com/regen-network/regen-ledger/x/ecocredit/v3/base/types/v1"
	"github.com/regen-network/regen-ledger/x/ecocredit/v3/genesis"
)

// ZZAudit5: the decimal type accepts magnitudes up to 10^100000 and its
// arithmetic fails beyond that. A batch can be issued with a tradable and a
// retired amount that are each representable, but whose sum is not. The chain
// works with that state (supplies are tracked separately), genesis validation
// adds the two and rejects the exported document.
func TestZZAudit5SupplySumOverflowsInGenesisValidation(t *testing.T) {
	s := setupBase(t)

	require.NoError(t, s.stateStore.CreditTypeTable().Insert(s.ctx, &api.CreditType{
		Abbreviation: "C", Name: "carbon", Unit: "t", Precision: 6,
	}))
	classKey, err := s.stateStore.ClassTable().InsertReturningID(s.ctx, &api.Class{
		Id: "C01", Admin: s.addr, CreditTypeAbbrev: "C",
	})
	require.NoError(t, err)
	require.NoError(t, s.stateStore.ClassIssuerTable().Insert(s.ctx, &api.ClassIssuer{ClassKey: classKey, Issuer: s.addr}))
	_, err = s.stateStore.ProjectTable().InsertReturningID(s.ctx, &api.Project{
		Id: "C01-001", Admin: s.addr, ClassKey: classKey, Jurisdiction: "US",
	})
	require.NoError(t, err)

	// the exported state is valid before
	export := func() []byte {
		target := ormjson.NewRawMessageTarget()
		require.NoError(t, s.db.ExportJSON(s.ctx, target))
		bz, err := target.JSON()
		require.NoError(t, err)
		return bz
	}
	require.NoError(t, genesis.ValidateGenesis(export()))

	start, end := time.Date(2020, 1, 1, 0, 0, 0, 0, time.UTC), time.Date(2021, 1, 1, 0, 0, 0, 0, time.UTC)
	msg := &types.MsgCreateBatch{
		Issuer:    s.addr.String(),
		ProjectId: "C01-001",
		Issuance: []*types.BatchIssuance{{
			Recipient:              s.addr2.String(),
			TradableAmount:         "9e100000",
			RetiredAmount:          "9e100000",
			RetirementJurisdiction: "US",
		}},
		Metadata:  "m",
		StartDate: &start,
		EndDate:   &end,
	}
	require.NoError(t, msg.ValidateBasic())
	_, err = s.k.CreateBatch(s.ctx, msg)
	require.NoError(t, err, "the batch is created")

	// the module invariant holds
	msgInv, broken := BatchSupplyInvariant(s.ctx, s.k, nil)
	require.False(t, broken, msgInv)

	// but the exported state no longer passes the module's genesis validation
	err = genesis.ValidateGenesis(export())
	t.Logf("ValidateGenesis: %v", err)
	require.NoError(t, err, "C09: the export of a reachable state must pass genesis validation")
}
