package keeper

import (
	"testing"

	"github.com/stretchr/testify/require"

	sdk "github.com/cosmos/cosmos-sdk/types"

	"github.com/regen-network/regen-ledger/x/ecocredit/v3"
	types "github.com/regen-network/regen-ledger/x/ecocredit/v3/base/types/v1"
)

// ZZAudit3: MsgBurnRegen.amount is read by an integer parser that guesses the
// base from the spelling, while the event (and every client) carries the
// spelling. "010" burns 8 uregen, "0x10" burns 16, "1_0" burns 10.
func TestZZAudit3BurnRegenAmountSpelling(t *testing.T) {
	for _, tc := range []struct {
		spelled string
		decimal int64 // what a decimal reader of the message / event understands
	}{
		{"010", 10},
		{"0x10", 0}, // not a decimal number at all
		{"0b11", 0},
		{"1_0", 0},
		{"+7", 7},
	} {
		s := setupBase(t)
		msg := &types.MsgBurnRegen{Burner: s.addr.String(), Amount: tc.spelled, Reason: "r"}
		require.NoError(t, msg.ValidateBasic(), tc.spelled)

		var burned sdk.Coins
		s.bankKeeper.EXPECT().SendCoinsFromAccountToModule(s.ctx, s.addr, ecocredit.ModuleName, gomockAny()).
			DoAndReturn(func(_ interface{}, _ sdk.AccAddress, _ string, c sdk.Coins) error { burned = c; return nil })
		s.bankKeeper.EXPECT().BurnCoins(s.ctx, ecocredit.ModuleName, gomockAny()).Return(nil)

		_, err := s.k.BurnRegen(s.ctx, msg)
		require.NoError(t, err)

		var evAmount string
		for _, e := range s.sdkCtx.EventManager().Events() {
			if e.Type == "regen.ecocredit.v1.EventBurnRegen" {
				for _, a := range e.Attributes {
					if a.Key == "amount" {
						evAmount = a.Value
					}
				}
			}
		}
		t.Logf("amount %q: burned %s, event amount %s", tc.spelled, burned, evAmount)
		if !burned.AmountOf("uregen").Equal(sdk.NewInt(tc.decimal)) {
			t.Errorf("amount %q: burned %s but the message and the event say %s", tc.spelled, burned, evAmount)
		}
	}
}
