package keeper

import "github.com/golang/mock/gomock"

func gomockAny() gomock.Matcher { return gomock.Any() }
