package keeper

import (
	"testing"
	"time"

	"github.com/stretchr/testify/require"
	"google.golang.org/protobuf/types/known/timestamppb"

	"github.com/cosmos/cosmos-sdk/orm/types/ormjson"
	sdk "github.com/cosmos/cosmos-sdk/types"

	api "github.com/regen-network/regen-ledger/api/v2/regen/ecocredit/marketplace/v1"
	baseapi "github.com/regen-network/regen-ledger/api/v2/regen/ecocredit/v1"
	"github.com/regen-network/regen-ledger/x/ecocredit/v3/genesis"
)

// TestAuditPruneDanglingSellOrder: a genesis state that the chain's own
// ValidateGenesis accepts contains a sell order whose batch key and market id
// resolve to nothing. After importing it, the BeginBlock routine
// PruneSellOrders returns an error as soon as the order is expired;
// Module.BeginBlock turns that error into a panic, on every block.
func TestAuditPruneDanglingSellOrder(t *testing.T) {
	// state 1: build the genesis
	src := setupBase(t, 1)
	addr := src.addrs[0]
	require.NoError(t, src.baseStore.CreditTypeTable().Insert(src.ctx, &baseapi.CreditType{
		Abbreviation: "C", Name: "carbon", Unit: "ton", Precision: 6,
	}))
	require.NoError(t, src.baseStore.ClassTable().Insert(src.ctx, &baseapi.Class{
		Id: "C01", Admin: addr, CreditTypeAbbrev: "C",
	}))
	require.NoError(t, src.marketStore.SellOrderTable().Insert(src.ctx, &api.SellOrder{
		Seller:     addr,
		BatchKey:   99, // no such batch
		Quantity:   "5",
		MarketId:   77, // no such market
		AskAmount:  "1",
		Expiration: &timestamppb.Timestamp{Seconds: 1700000000},
		Maker:      true,
	}))
	target := ormjson.NewRawMessageTarget()
	require.NoError(t, src.db.ExportJSON(src.ctx, target))
	bz, err := target.JSON()
	require.NoError(t, err)

	// the chain's own genesis validation
	if err := genesis.ValidateGenesis(bz); err != nil {
		// rejected: the property holds, nothing more to check
		return
	}

	// state 2: a fresh chain started from this (accepted) genesis
	s := setupBase(t, 1)
	source, err := ormjson.NewRawMessageSource(bz)
	require.NoError(t, err)
	require.NoError(t, s.db.ImportJSON(s.ctx, source))

	// every stored sell order must resolve to a batch and a market
	it, err := s.marketStore.SellOrderTable().List(s.ctx, api.SellOrderPrimaryKey{})
	require.NoError(t, err)
	for it.Next() {
		order, err := it.Value()
		require.NoError(t, err)
		_, err = s.baseStore.BatchTable().Get(s.ctx, order.BatchKey)
		require.NoError(t, err, "sell order %d: batch key %d does not resolve", order.Id, order.BatchKey)
		_, err = s.marketStore.MarketTable().Get(s.ctx, order.MarketId)
		require.NoError(t, err, "sell order %d: market id %d does not resolve", order.Id, order.MarketId)
	}
	it.Close()
}

// TestAuditPruneDanglingSellOrderHaltsBeginBlock shows the consequence of the
// same accepted genesis: BeginBlock's PruneSellOrders fails.
func TestAuditPruneDanglingSellOrderHaltsBeginBlock(t *testing.T) {
	s := setupBase(t, 1)
	require.NoError(t, s.marketStore.SellOrderTable().Insert(s.ctx, &api.SellOrder{
		Seller:     s.addrs[0],
		BatchKey:   99,
		Quantity:   "5",
		MarketId:   77,
		AskAmount:  "1",
		Expiration: &timestamppb.Timestamp{Seconds: 1700000000},
		Maker:      true,
	}))
	target := ormjson.NewRawMessageTarget()
	require.NoError(t, s.db.ExportJSON(s.ctx, target))
	bz, err := target.JSON()
	require.NoError(t, err)
	if err := genesis.ValidateGenesis(bz); err != nil {
		return // rejected at genesis: fine
	}

	s.sdkCtx = s.sdkCtx.WithBlockTime(time.Unix(1700000001, 0))
	s.ctx = sdk.WrapSDKContext(s.sdkCtx)
	// Module.BeginBlock panics if this returns an error
	require.NoError(t, s.k.PruneSellOrders(s.ctx),
		"BeginBlock fails on a state that genesis validation accepted")
}
