package keeper

import (
	"testing"
	"time"

	"github.com/stretchr/testify/require"
	"google.golang.org/protobuf/types/known/timestamppb"

	"github.com/cosmos/cosmos-sdk/orm/types/ormjson"
	sdk "github.com/cosmos/cosmos-sdk/types"

	api "github.com/regen-network/regen-ledger/api/v2/regen/ecocredit/v1"
	types "github.com/regen-network/regen-ledger/x/ecocredit/v3/base/types/v1"
	"github.com/regen-network/regen-ledger/x/ecocredit/v3/genesis"
)

// auditExportValidateImport exports the state of src, runs the chain's own
// genesis validation, and (if accepted) imports it into a fresh suite.
// It returns nil if the genesis was rejected.
func auditExportValidateImport(t *testing.T, src *baseSuite) *baseSuite {
	t.Helper()
	target := ormjson.NewRawMessageTarget()
	require.NoError(t, src.db.ExportJSON(src.ctx, target))
	bz, err := target.JSON()
	require.NoError(t, err)
	if err := genesis.ValidateGenesis(bz); err != nil {
		t.Logf("genesis rejected: %s", err)
		return nil
	}
	s := setupBase(t)
	source, err := ormjson.NewRawMessageSource(bz)
	require.NoError(t, err)
	require.NoError(t, s.db.ImportJSON(s.ctx, source))
	s.addr, s.addr2 = src.addr, src.addr2
	return s
}

// TestAuditCreateBatchClassKeyUnset: Batch.class_key ("links a batch to a
// credit class", indexed) is a stored reference; a batch created with
// MsgCreateBatch (and MsgBridgeReceive, which calls it) stores 0 there, a key
// that resolves to no class.
func TestAuditCreateBatchClassKeyUnset(t *testing.T) {
	s := setupBase(t)
	require.NoError(t, s.stateStore.CreditTypeTable().Insert(s.ctx, &api.CreditType{
		Abbreviation: "C", Name: "carbon", Unit: "ton", Precision: 6,
	}))

	classRes, err := s.k.CreateClass(s.ctx, &types.MsgCreateClass{
		Admin:            s.addr.String(),
		Issuers:          []string{s.addr.String()},
		CreditTypeAbbrev: "C",
	})
	require.NoError(t, err)
	require.Equal(t, "C01", classRes.ClassId)

	projRes, err := s.k.CreateProject(s.ctx, &types.MsgCreateProject{
		Admin: s.addr.String(), ClassId: classRes.ClassId, Jurisdiction: "US-WA",
	})
	require.NoError(t, err)
	require.Equal(t, "C01-001", projRes.ProjectId)

	start := time.Date(2020, 1, 1, 0, 0, 0, 0, time.UTC)
	end := time.Date(2021, 1, 1, 0, 0, 0, 0, time.UTC)
	batchRes, err := s.k.CreateBatch(s.ctx, &types.MsgCreateBatch{
		Issuer:    s.addr.String(),
		ProjectId: projRes.ProjectId,
		Issuance:  []*types.BatchIssuance{{Recipient: s.addr2.String(), TradableAmount: "10"}},
		Metadata:  "m",
		StartDate: &start,
		EndDate:   &end,
	})
	require.NoError(t, err)
	require.Equal(t, "C01-001-20200101-20210101-001", batchRes.BatchDenom)

	class, err := s.stateStore.ClassTable().GetById(s.ctx, "C01")
	require.NoError(t, err)
	batch, err := s.stateStore.BatchTable().GetByDenom(s.ctx, batchRes.BatchDenom)
	require.NoError(t, err)

	// the stored reference must resolve, and to the class of the batch's project
	_, err = s.stateStore.ClassTable().Get(s.ctx, batch.ClassKey)
	require.NoError(t, err, "Batch.class_key = %d does not resolve to a class", batch.ClassKey)
	require.Equal(t, class.Key, batch.ClassKey)

	// and the class_key index must find the batch
	it, err := s.stateStore.BatchTable().List(s.ctx, api.BatchClassKeyIndexKey{}.WithClassKey(class.Key))
	require.NoError(t, err)
	defer it.Close()
	require.True(t, it.Next(), "batch not found through the class_key index")
}

// TestAuditCreateClassSequenceBehindIDs: a genesis with classes C01..C03 and a
// class sequence saying "next is 2" is accepted by ValidateGenesis. On the
// chain started from it, MsgCreateClass can only compute the taken id C02 and
// fails, for ever (the failed tx rolls the sequence back): ids stop being
// issued for that credit type. Same for projects and batches.
func TestAuditCreateClassSequenceBehindIDs(t *testing.T) {
	src := setupBase(t)
	require.NoError(t, src.stateStore.CreditTypeTable().Insert(src.ctx, &api.CreditType{
		Abbreviation: "C", Name: "carbon", Unit: "ton", Precision: 6,
	}))
	for _, id := range []string{"C01", "C02", "C03"} {
		require.NoError(t, src.stateStore.ClassTable().Insert(src.ctx, &api.Class{
			Id: id, Admin: src.addr, CreditTypeAbbrev: "C",
		}))
	}
	require.NoError(t, src.stateStore.ClassIssuerTable().Insert(src.ctx, &api.ClassIssuer{ClassKey: 1, Issuer: src.addr}))
	require.NoError(t, src.stateStore.ClassSequenceTable().Insert(src.ctx, &api.ClassSequence{
		CreditTypeAbbrev: "C", NextSequence: 2,
	}))
	require.NoError(t, src.stateStore.ProjectTable().Insert(src.ctx, &api.Project{
		Id: "C01-001", Admin: src.addr, ClassKey: 1, Jurisdiction: "AQ",
	}))
	// no project sequence row at all for class 1

	s := auditExportValidateImport(t, src)
	if s == nil {
		return // rejected at genesis: the property holds
	}

	res, err := s.k.CreateClass(s.ctx, &types.MsgCreateClass{
		Admin:            s.addr.String(),
		Issuers:          []string{s.addr.String()},
		CreditTypeAbbrev: "C",
	})
	require.NoError(t, err, "MsgCreateClass on a chain started from an accepted genesis")
	require.Equal(t, "C04", res.ClassId)

	pres, err := s.k.CreateProject(s.ctx, &types.MsgCreateProject{
		Admin: s.addr.String(), ClassId: "C01", Jurisdiction: "US-WA",
	})
	require.NoError(t, err, "MsgCreateProject on a chain started from an accepted genesis")
	require.Equal(t, "C01-002", pres.ProjectId)
}

// TestAuditGenesisForeignDenomFreezesCredits: a genesis whose batch denom does
// not embed the id of the class it is linked to is accepted by ValidateGenesis.
// Handlers recover the class by parsing the denom, so the holder can never
// send (retire, cancel, sell, put in a basket) these credits.
func TestAuditGenesisForeignDenomFreezesCredits(t *testing.T) {
	src := setupBase(t)
	require.NoError(t, src.stateStore.CreditTypeTable().Insert(src.ctx, &api.CreditType{
		Abbreviation: "C", Name: "carbon", Unit: "ton", Precision: 6,
	}))
	cKey, err := src.stateStore.ClassTable().InsertReturningID(src.ctx, &api.Class{
		Id: "C01", Admin: src.addr, CreditTypeAbbrev: "C",
	})
	require.NoError(t, err)
	pKey, err := src.stateStore.ProjectTable().InsertReturningID(src.ctx, &api.Project{
		Id: "C02-001", Admin: src.addr, ClassKey: cKey, Jurisdiction: "AQ",
	})
	require.NoError(t, err)
	denom := "C03-005-20200101-20210101-001"
	bKey, err := src.stateStore.BatchTable().InsertReturningID(src.ctx, &api.Batch{
		Issuer:       src.addr,
		ProjectKey:   pKey,
		Denom:        denom,
		StartDate:    &timestamppb.Timestamp{Seconds: 1577836800},
		EndDate:      &timestamppb.Timestamp{Seconds: 1609459200},
		IssuanceDate: &timestamppb.Timestamp{Seconds: 1609459300},
	})
	require.NoError(t, err)
	require.NoError(t, src.stateStore.BatchBalanceTable().Insert(src.ctx, &api.BatchBalance{
		BatchKey: bKey, Address: src.addr, TradableAmount: "10", RetiredAmount: "0", EscrowedAmount: "0",
	}))
	require.NoError(t, src.stateStore.BatchSupplyTable().Insert(src.ctx, &api.BatchSupply{
		BatchKey: bKey, TradableAmount: "10", RetiredAmount: "0", CancelledAmount: "0",
	}))

	s := auditExportValidateImport(t, src)
	if s == nil {
		return // rejected at genesis: the property holds
	}

	s.sdkCtx = s.sdkCtx.WithBlockTime(time.Unix(1700000000, 0))
	s.ctx = sdk.WrapSDKContext(s.sdkCtx)
	_, err = s.k.Send(s.ctx, &types.MsgSend{
		Sender:    s.addr.String(),
		Recipient: s.addr2.String(),
		Credits:   []*types.MsgSend_SendCredits{{BatchDenom: denom, TradableAmount: "1"}},
	})
	require.NoError(t, err, "holder cannot send credits of a batch that genesis validation accepted")
}
