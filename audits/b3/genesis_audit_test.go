package genesis

import (
	"context"
	"testing"

	"github.com/stretchr/testify/require"
	"google.golang.org/protobuf/types/known/timestamppb"

	"github.com/cosmos/cosmos-sdk/orm/model/ormdb"
	"github.com/cosmos/cosmos-sdk/orm/model/ormtable"
	"github.com/cosmos/cosmos-sdk/orm/testing/ormtest"
	"github.com/cosmos/cosmos-sdk/orm/types/ormjson"
	sdk "github.com/cosmos/cosmos-sdk/types"

	basketapi "github.com/regen-network/regen-ledger/api/v2/regen/ecocredit/basket/v1"
	marketapi "github.com/regen-network/regen-ledger/api/v2/regen/ecocredit/marketplace/v1"
	baseapi "github.com/regen-network/regen-ledger/api/v2/regen/ecocredit/v1"
	"github.com/regen-network/regen-ledger/x/ecocredit/v3"
)

// auditGenesis builds a module state with the given setup function, exports it
// to genesis JSON and runs the chain's own ValidateGenesis on it.
func auditGenesis(t *testing.T, setup func(ctx context.Context, db ormdb.ModuleDB)) error {
	t.Helper()
	ormCtx := ormtable.WrapContextDefault(ormtest.NewMemoryBackend())
	modDB, err := ormdb.NewModuleDB(&ecocredit.ModuleSchema, ormdb.ModuleDBOptions{})
	require.NoError(t, err)

	setup(ormCtx, modDB)

	target := ormjson.NewRawMessageTarget()
	require.NoError(t, modDB.ExportJSON(ormCtx, target))
	bz, err := target.JSON()
	require.NoError(t, err)
	return ValidateGenesis(bz)
}

// auditConsistentBase inserts a fully consistent credit type / class / project
// / batch / balance / supply (class C01, project C01-001, batch key 1).
func auditConsistentBase(t *testing.T, ctx context.Context, db ormdb.ModuleDB) baseapi.StateStore {
	t.Helper()
	ss, err := baseapi.NewStateStore(db)
	require.NoError(t, err)
	addr := sdk.AccAddress("addr1_______________")

	require.NoError(t, ss.CreditTypeTable().Insert(ctx, &baseapi.CreditType{
		Abbreviation: "C", Name: "carbon", Unit: "ton", Precision: 6,
	}))
	cKey, err := ss.ClassTable().InsertReturningID(ctx, &baseapi.Class{
		Id: "C01", Admin: addr, CreditTypeAbbrev: "C",
	})
	require.NoError(t, err)
	pKey, err := ss.ProjectTable().InsertReturningID(ctx, &baseapi.Project{
		Id: "C01-001", Admin: addr, ClassKey: cKey, Jurisdiction: "AQ",
	})
	require.NoError(t, err)
	bKey, err := ss.BatchTable().InsertReturningID(ctx, &baseapi.Batch{
		Issuer:       addr,
		ProjectKey:   pKey,
		Denom:        "C01-001-20200101-20210101-001",
		StartDate:    &timestamppb.Timestamp{Seconds: 1577836800},
		EndDate:      &timestamppb.Timestamp{Seconds: 1609459200},
		IssuanceDate: &timestamppb.Timestamp{Seconds: 1609459300},
	})
	require.NoError(t, err)
	require.NoError(t, ss.BatchBalanceTable().Insert(ctx, &baseapi.BatchBalance{
		BatchKey: bKey, Address: addr, TradableAmount: "10", RetiredAmount: "0", EscrowedAmount: "0",
	}))
	require.NoError(t, ss.BatchSupplyTable().Insert(ctx, &baseapi.BatchSupply{
		BatchKey: bKey, TradableAmount: "10", RetiredAmount: "0", CancelledAmount: "0",
	}))
	return ss
}

// Sanity: the consistent base state is accepted.
func TestAuditGenesisBaseStateAccepted(t *testing.T) {
	err := auditGenesis(t, func(ctx context.Context, db ormdb.ModuleDB) {
		auditConsistentBase(t, ctx, db)
	})
	require.NoError(t, err)
}

// A sell order that points at a batch key and a market id that do not exist
// must be rejected by genesis validation (every sell order resolves to a batch
// and a market). It is accepted; once its expiration passes, BeginBlock
// (PruneSellOrders) fails to find the seller balance and panics on every block
// (see marketplace/keeper TestAuditPruneDanglingSellOrder).
func TestAuditGenesisDanglingSellOrder(t *testing.T) {
	err := auditGenesis(t, func(ctx context.Context, db ormdb.ModuleDB) {
		auditConsistentBase(t, ctx, db)
		ms, err := marketapi.NewStateStore(db)
		require.NoError(t, err)
		require.NoError(t, ms.SellOrderTable().Insert(ctx, &marketapi.SellOrder{
			Seller:     sdk.AccAddress("seller______________"),
			BatchKey:   99, // no such batch
			Quantity:   "5",
			MarketId:   77, // no such market
			AskAmount:  "1",
			Expiration: &timestamppb.Timestamp{Seconds: 1700000000},
			Maker:      true,
		}))
	})
	require.Error(t, err, "genesis with a sell order referencing a non-existent batch and market must be rejected")
}

// ValidateGenesis documents "the credit class referenced in each project
// exists", but a project (and a class issuer, a project sequence, a batch
// contract and a basket class) referencing a non-existent class / batch /
// basket is accepted.
func TestAuditGenesisDanglingClassReferences(t *testing.T) {
	addr := sdk.AccAddress("addr1_______________")

	t.Run("project -> class", func(t *testing.T) {
		err := auditGenesis(t, func(ctx context.Context, db ormdb.ModuleDB) {
			ss := auditConsistentBase(t, ctx, db)
			require.NoError(t, ss.ProjectTable().Insert(ctx, &baseapi.Project{
				Id: "C09-001", Admin: addr, ClassKey: 99, Jurisdiction: "AQ",
			}))
		})
		require.Error(t, err, "project with class_key 99 (no such class) must be rejected")
	})

	t.Run("class issuer -> class", func(t *testing.T) {
		err := auditGenesis(t, func(ctx context.Context, db ormdb.ModuleDB) {
			ss := auditConsistentBase(t, ctx, db)
			require.NoError(t, ss.ClassIssuerTable().Insert(ctx, &baseapi.ClassIssuer{
				ClassKey: 99, Issuer: addr,
			}))
		})
		require.Error(t, err, "class issuer with class_key 99 (no such class) must be rejected")
	})

	t.Run("batch contract -> batch", func(t *testing.T) {
		err := auditGenesis(t, func(ctx context.Context, db ormdb.ModuleDB) {
			ss := auditConsistentBase(t, ctx, db)
			require.NoError(t, ss.BatchContractTable().Insert(ctx, &baseapi.BatchContract{
				BatchKey: 99, ClassKey: 1, Contract: "0x0000000000000000000000000000000000000001",
			}))
		})
		require.Error(t, err, "batch contract with batch_key 99 (no such batch) must be rejected")
	})

	t.Run("basket class -> basket and class", func(t *testing.T) {
		err := auditGenesis(t, func(ctx context.Context, db ormdb.ModuleDB) {
			auditConsistentBase(t, ctx, db)
			bs, err := basketapi.NewStateStore(db)
			require.NoError(t, err)
			require.NoError(t, bs.BasketClassTable().Insert(ctx, &basketapi.BasketClass{
				BasketId: 99, ClassId: "C77",
			}))
		})
		require.Error(t, err, "basket class for basket 99 / class C77 (neither exists) must be rejected")
	})
}

// The ids are hierarchical and handlers recover the class from the batch denom
// string (GetCreditTypeFromBatchDenom). Genesis validation accepts a batch
// whose denom embeds a project id / class id other than the ones it is linked
// to by key, i.e. a state in which the parsers do not recover the real parents.
func TestAuditGenesisDenomDoesNotEmbedParents(t *testing.T) {
	addr := sdk.AccAddress("addr1_______________")
	err := auditGenesis(t, func(ctx context.Context, db ormdb.ModuleDB) {
		ss, err := baseapi.NewStateStore(db)
		require.NoError(t, err)
		require.NoError(t, ss.CreditTypeTable().Insert(ctx, &baseapi.CreditType{
			Abbreviation: "C", Name: "carbon", Unit: "ton", Precision: 6,
		}))
		cKey, err := ss.ClassTable().InsertReturningID(ctx, &baseapi.Class{
			Id: "C01", Admin: addr, CreditTypeAbbrev: "C",
		})
		require.NoError(t, err)
		// project id claims class C02 (does not exist), linked to C01 by key
		pKey, err := ss.ProjectTable().InsertReturningID(ctx, &baseapi.Project{
			Id: "C02-001", Admin: addr, ClassKey: cKey, Jurisdiction: "AQ",
		})
		require.NoError(t, err)
		// batch denom claims class C03 / project C03-005 (neither exists)
		bKey, err := ss.BatchTable().InsertReturningID(ctx, &baseapi.Batch{
			Issuer:       addr,
			ProjectKey:   pKey,
			Denom:        "C03-005-20200101-20210101-001",
			StartDate:    &timestamppb.Timestamp{Seconds: 1577836800},
			EndDate:      &timestamppb.Timestamp{Seconds: 1609459200},
			IssuanceDate: &timestamppb.Timestamp{Seconds: 1609459300},
		})
		require.NoError(t, err)
		require.NoError(t, ss.BatchBalanceTable().Insert(ctx, &baseapi.BatchBalance{
			BatchKey: bKey, Address: addr, TradableAmount: "10", RetiredAmount: "0", EscrowedAmount: "0",
		}))
		require.NoError(t, ss.BatchSupplyTable().Insert(ctx, &baseapi.BatchSupply{
			BatchKey: bKey, TradableAmount: "10", RetiredAmount: "0", CancelledAmount: "0",
		}))
	})
	require.Error(t, err, "a batch denom / project id that does not embed its parent's id must be rejected")
}

// Sequence rows are not cross-checked against the ids that already exist: a
// genesis with classes C01..C03 and next class sequence 2 (or no sequence row
// at all) is accepted although the next MsgCreateClass can only ever produce
// the already taken C02 (see base/keeper TestAuditCreateClassSequenceBehindIDs).
func TestAuditGenesisSequenceBehindExistingIDs(t *testing.T) {
	addr := sdk.AccAddress("addr1_______________")
	err := auditGenesis(t, func(ctx context.Context, db ormdb.ModuleDB) {
		ss := auditConsistentBase(t, ctx, db)
		for _, id := range []string{"C02", "C03"} {
			require.NoError(t, ss.ClassTable().Insert(ctx, &baseapi.Class{
				Id: id, Admin: addr, CreditTypeAbbrev: "C",
			}))
		}
		require.NoError(t, ss.ClassSequenceTable().Insert(ctx, &baseapi.ClassSequence{
			CreditTypeAbbrev: "C", NextSequence: 2,
		}))
		// project C01-001 and batch ...-001 exist, next sequences say 1
		require.NoError(t, ss.ProjectSequenceTable().Insert(ctx, &baseapi.ProjectSequence{
			ClassKey: 1, NextSequence: 1,
		}))
		require.NoError(t, ss.BatchSequenceTable().Insert(ctx, &baseapi.BatchSequence{
			ProjectKey: 1, NextSequence: 1,
		}))
	})
	require.Error(t, err, "sequences that would re-issue existing ids must be rejected")
}
